/*
 * C14 - AEAD modes (GCM, CCM, EAX) authenticate, invert and stream
 * consistently. Differential + metamorphic monitor; the reference side
 * lives in h_aead_ref.c (OpenSSL EVP, EAX from the paper over CMAC).
 *
 * Parts (all bounded by counts; --part selects one, default all):
 *   rand   random messages on reused contexts: reference comparison,
 *          round trip, random multi-way splits, random corruption,
 *          abandoned computations, EAX saved-state shortcuts
 *   split  exhaustive two-way splits of AAD and of the message, L <= --split-max
 *   flip   every single-bit corruption of nonce, AAD, ciphertext, tag of
 *          short messages; truncated-tag comparisons
 *   ccm    br_ccm_reset parameter limits; declared != actual lengths
 *   edge   counter wrap (crafted nonces), long messages / AAD
 */
#include "common.h"
#include "bearssl.h"

/* ---- reference side (h_aead_ref.c) ---- */
void ref_init(void);
void ref_aes_block(const unsigned char *key, size_t klen, int enc,
	const unsigned char *in, unsigned char *out);
void ref_gcm(const unsigned char *key, size_t klen, const unsigned char *nonce, size_t nlen,
	const unsigned char *aad, size_t alen, const unsigned char *msg, size_t mlen,
	unsigned char *ct, unsigned char *tag16);
int ref_gcm_verify(const unsigned char *key, size_t klen, const unsigned char *nonce, size_t nlen,
	const unsigned char *aad, size_t alen, const unsigned char *ct, size_t mlen,
	const unsigned char *tag, size_t tlen);
void ref_ccm(const unsigned char *key, size_t klen, const unsigned char *nonce, size_t nlen,
	const unsigned char *aad, size_t alen, const unsigned char *msg, size_t mlen, size_t tlen,
	unsigned char *ct, unsigned char *tag);
int ref_ccm_verify(const unsigned char *key, size_t klen, const unsigned char *nonce, size_t nlen,
	const unsigned char *aad, size_t alen, const unsigned char *ct, size_t mlen,
	const unsigned char *tag, size_t tlen);
void ref_eax(const unsigned char *key, size_t klen, const unsigned char *nonce, size_t nlen,
	const unsigned char *aad, size_t alen, const unsigned char *msg, size_t mlen,
	unsigned char *ct, unsigned char *tag16);
int ref_eax_verify(const unsigned char *key, size_t klen, const unsigned char *nonce, size_t nlen,
	const unsigned char *aad, size_t alen, const unsigned char *ct, size_t mlen,
	const unsigned char *tag, size_t tlen);
void ref_gcm_craft_nonce(const unsigned char *key, size_t klen,
	const unsigned char *j0, unsigned char *nonce16);
void ref_gcm_tag_model(const unsigned char *key, size_t klen, const unsigned char *nonce, size_t nlen,
	const unsigned char *aad, size_t alen, const unsigned char *ct, size_t mlen,
	unsigned long long abits, unsigned long long cbits, unsigned char *tag16);
void ref_eax_craft_nonce(const unsigned char *key, size_t klen,
	const unsigned char *n16, unsigned char *nonce16);

enum { M_GCM = 0, M_CCM = 1, M_EAX = 2 };
static const char *mode_name[3] = { "gcm", "ccm", "eax" };

static long long g_seed;
static int g_worker, g_nworkers;
static long long g_enum;

/* round-robin distribution of the enumerated work items over the workers */
static int
mine(void)
{
	return (g_enum ++) % g_nworkers == g_worker;
}

/* ------------------------------------------------------------------ */
/* implementations under test */

static const br_block_ctr_class *ctr_impl[8];
static const br_block_ctrcbc_class *cc_impl[8];
static const char *aes_name[8];
static int n_aes;
static br_ghash gh_impl[8];
static const char *gh_name[8];
static int n_gh;

typedef struct { int mode, ci, gi; } combo_t;
static combo_t combos[64];
static int n_combo;

static void
setup_impls(void)
{
	int i, j;

	ctr_impl[n_aes] = &br_aes_big_ctr_vtable; cc_impl[n_aes] = &br_aes_big_ctrcbc_vtable; aes_name[n_aes ++] = "big";
	ctr_impl[n_aes] = &br_aes_small_ctr_vtable; cc_impl[n_aes] = &br_aes_small_ctrcbc_vtable; aes_name[n_aes ++] = "small";
	ctr_impl[n_aes] = &br_aes_ct_ctr_vtable; cc_impl[n_aes] = &br_aes_ct_ctrcbc_vtable; aes_name[n_aes ++] = "ct";
	ctr_impl[n_aes] = &br_aes_ct64_ctr_vtable; cc_impl[n_aes] = &br_aes_ct64_ctrcbc_vtable; aes_name[n_aes ++] = "ct64";
	if (br_aes_x86ni_ctr_get_vtable() != NULL && br_aes_x86ni_ctrcbc_get_vtable() != NULL) {
		ctr_impl[n_aes] = br_aes_x86ni_ctr_get_vtable();
		cc_impl[n_aes] = br_aes_x86ni_ctrcbc_get_vtable();
		aes_name[n_aes ++] = "x86ni";
	}
	gh_impl[n_gh] = &br_ghash_ctmul; gh_name[n_gh ++] = "ctmul";
	gh_impl[n_gh] = &br_ghash_ctmul32; gh_name[n_gh ++] = "ctmul32";
	gh_impl[n_gh] = &br_ghash_ctmul64; gh_name[n_gh ++] = "ctmul64";
	if (br_ghash_pclmul_get() != 0) {
		gh_impl[n_gh] = br_ghash_pclmul_get(); gh_name[n_gh ++] = "pclmul";
	}
	for (i = 0; i < n_aes; i ++) {
		for (j = 0; j < n_gh; j ++) {
			combos[n_combo].mode = M_GCM; combos[n_combo].ci = i; combos[n_combo ++].gi = j;
		}
	}
	for (i = 0; i < n_aes; i ++) {
		combos[n_combo].mode = M_CCM; combos[n_combo].ci = i; combos[n_combo ++].gi = -1;
	}
	for (i = 0; i < n_aes; i ++) {
		combos[n_combo].mode = M_EAX; combos[n_combo].ci = i; combos[n_combo ++].gi = -1;
	}
	vf_max("impl_aes", n_aes);
	vf_max("impl_ghash", n_gh);
	vf_max("combos", n_combo);
}

/* ------------------------------------------------------------------ */
/* library context wrapper; every object is an exact-size heap block */

typedef struct {
	int mode, ci, gi;
	size_t klen;
	unsigned char key[32];
	void *kc;                  /* AES key schedule (vtable->context_size) */
	void *ctx;                 /* br_gcm_context / br_ccm_context / br_eax_context */
	br_eax_state *st_pre;      /* br_eax_capture() output */
	br_eax_state *st_post;     /* capture + br_eax_get_aad_mac() */
	int have_pre, have_post;
	int post_tainted;          /* st_post was taken in a run of the class below */
	unsigned char *post_aad;
	size_t post_aad_len;
	unsigned long nmsg;        /* computations completed on this context */
	char desc[64];
} lctx;

static void
lc_open(lctx *lc, const combo_t *cb, const unsigned char *key, size_t klen)
{
	unsigned char *k = vf_dup(key, klen);

	memset(lc, 0, sizeof *lc);
	lc->mode = cb->mode; lc->ci = cb->ci; lc->gi = cb->gi;
	lc->klen = klen;
	memcpy(lc->key, key, klen);
	if (lc->mode == M_GCM) {
		const br_block_ctr_class *vt = ctr_impl[lc->ci];

		lc->kc = malloc(vt->context_size);
		vt->init((const br_block_ctr_class **)lc->kc, k, klen);
		lc->ctx = malloc(sizeof(br_gcm_context));
		br_gcm_init(lc->ctx, (const br_block_ctr_class **)lc->kc, gh_impl[lc->gi]);
		snprintf(lc->desc, sizeof lc->desc, "gcm/%s/%s", aes_name[lc->ci], gh_name[lc->gi]);
	} else {
		const br_block_ctrcbc_class *vt = cc_impl[lc->ci];

		lc->kc = malloc(vt->context_size);
		vt->init((const br_block_ctrcbc_class **)lc->kc, k, klen);
		if (lc->mode == M_CCM) {
			lc->ctx = malloc(sizeof(br_ccm_context));
			br_ccm_init(lc->ctx, (const br_block_ctrcbc_class **)lc->kc);
		} else {
			lc->ctx = malloc(sizeof(br_eax_context));
			br_eax_init(lc->ctx, (const br_block_ctrcbc_class **)lc->kc);
			lc->st_pre = malloc(sizeof(br_eax_state));
			lc->st_post = malloc(sizeof(br_eax_state));
		}
		snprintf(lc->desc, sizeof lc->desc, "%s/%s", mode_name[lc->mode], aes_name[lc->ci]);
	}
	free(k);
	vf_distinct("config", "%s/k%d", lc->desc, (int)klen * 8);
}

static void
lc_close(lctx *lc)
{
	free(lc->kc); free(lc->ctx); free(lc->st_pre); free(lc->st_post); free(lc->post_aad);
	memset(lc, 0, sizeof *lc);
}

static void
lc_capture(lctx *lc)
{
	unsigned char *before;

	if (lc->mode != M_EAX) return;
	before = vf_dup(lc->ctx, sizeof(br_eax_context));
	br_eax_capture(lc->ctx, lc->st_pre);
	vf_stat("cmp_eax_capture_const", 1);
	if (memcmp(before, lc->ctx, sizeof(br_eax_context)) != 0) {
		vf_viol("C14:eax-state:capture-modifies-context",
			"br_eax_capture changed the context although documented not to",
			"impl=%s", lc->desc);
	}
	free(before);
	lc->have_pre = 1;
	vf_stat("eax_captures", 1);
}

/* ------------------------------------------------------------------ */
/* splits */

#define MAXPIECES 8
typedef struct { int n; size_t len[MAXPIECES]; } split_t;

static void
split_one(split_t *s, size_t total)
{
	s->n = 1; s->len[0] = total;
}

static void
split_two(split_t *s, size_t a, size_t b)
{
	s->n = 2; s->len[0] = a; s->len[1] = b;
}

static int
cmp_size(const void *a, const void *b)
{
	size_t x = *(const size_t *)a, y = *(const size_t *)b;
	return x < y ? -1 : x > y;
}

/* random 1..5-way split, sometimes with extra zero-length pieces */
static void
split_rand(vf_rng *r, split_t *s, size_t total)
{
	size_t cut[MAXPIECES];
	int n = (int)vf_range(r, 1, 5), i, style = (int)vf_below(r, 8);
	size_t prev = 0;

	for (i = 0; i < n - 1; i ++) {
		if (style == 0 && total >= 16) {
			/* block-aligned cut, +-1 */
			size_t c = 16 * (size_t)vf_below(r, (uint32_t)(total / 16) + 1);
			int d = (int)vf_below(r, 3) - 1;
			if (d < 0 && c == 0) d = 0;
			c += d;
			if (c > total) c = total;
			cut[i] = c;
		} else if (style == 1) {
			cut[i] = (size_t)vf_below(r, total < 17 ? (uint32_t)total + 1 : 18);
		} else {
			cut[i] = (size_t)vf_below(r, (uint32_t)total + 1);
		}
	}
	qsort(cut, (size_t)(n - 1), sizeof cut[0], cmp_size);
	s->n = 0;
	for (i = 0; i < n - 1; i ++) {
		s->len[s->n ++] = cut[i] - prev;
		prev = cut[i];
	}
	s->len[s->n ++] = total - prev;
	if (style == 2 && s->n < MAXPIECES) {
		/* insert an explicit empty piece somewhere */
		int at = (int)vf_below(r, (uint32_t)s->n + 1);
		for (i = s->n; i > at; i --) s->len[i] = s->len[i - 1];
		s->len[at] = 0;
		s->n ++;
	}
}

static const char *
split_str(const split_t *s)
{
	static char bufs[4][128];
	static int k = 0;
	char *b = bufs[k ++ & 3];
	int i, o = 0;

	for (i = 0; i < s->n && o < 110; i ++) {
		o += snprintf(b + o, 128 - (size_t)o, "%s%zu", i ? "+" : "", s->len[i]);
	}
	return b;
}

/* ------------------------------------------------------------------ */
/* one computation on the library */

typedef struct {
	const unsigned char *nonce; size_t nlen;
	const unsigned char *aad; size_t alen;
	size_t mlen, tlen;
	uint64_t decl_alen, decl_mlen;  /* CCM: values given to br_ccm_reset */
	int variant;       /* EAX: 0 br_eax_reset, 1 reset_pre_aad, 2 reset_post_aad */
	int grab_post;     /* EAX: br_eax_get_aad_mac into st_post after flip */
	const split_t *sa, *sm;
	int encrypt;
	unsigned char *data;        /* mlen bytes, processed in place */
	int check;                  /* 0: get_tag* into tag[], 1: check_tag* on tag[] */
	unsigned char tag[32];
	size_t tagbuf;              /* check: size of the block handed over (>= tlen) */
	int oop;                    /* GCM/EAX: go through the br_aead_class vtable */
	int full;                   /* GCM/EAX, tlen == 16: non-_trunc functions */
	int misalign;               /* offset of chunks inside their heap block */
} op_t;

static void
op_init(op_t *op)
{
	memset(op, 0, sizeof *op);
}

static int eax_aad_straddle(const lctx *lc, const op_t *op);

/* br_eax_get_aad_mac "may be called only after br_eax_flip()": right after it, after the data, or
 * after the tag has been produced / checked (op->grab_post = 1, 2, 3) */
static void
eax_grab_post(lctx *lc, const op_t *op)
{
	memcpy(lc->st_post, lc->st_pre, sizeof(br_eax_state));
	br_eax_get_aad_mac(lc->ctx, lc->st_post);
	free(lc->post_aad);
	lc->post_aad = vf_dup(op->aad, op->alen);
	lc->post_aad_len = op->alen;
	lc->have_post = 1;
	lc->post_tainted = eax_aad_straddle(lc, op);
	vf_distinct("eax_grab_point", "%d", op->grab_post);
}

/*
 * Input class "aad-straddle" (EAX only): one br_eax_aad_inject() call both
 * completes a partially filled 16-byte block and carries further bytes.
 * Violations seen on such schedules get their own key suffix, so that this
 * class can be told apart from everything else.
 */
static int
eax_aad_straddle(const lctx *lc, const op_t *op)
{
	size_t ptr;
	int i;

	if (lc->mode != M_EAX) return 0;
	if (op->variant == 2) return lc->post_tainted;
	ptr = op->variant == 1 ? 0 : 16;
	for (i = 0; i < op->sa->n; i ++) {
		size_t n = op->sa->len[i];

		if (ptr < 16) {
			if (n <= 16 - ptr) { ptr += n; continue; }
			return 1;
		}
		if (n > 0) ptr = (n & 15) ? (n & 15) : 16;
	}
	return 0;
}

/* returns: -1 reset refused (CCM); for check: 0/1 as returned; for get: 1 */
static int
lib_process(lctx *lc, op_t *op)
{
	const br_aead_class **oc = lc->ctx;
	unsigned char *nb = vf_dup(op->nonce, op->nlen);
	size_t off;
	int i, rv = 1;
	unsigned mis = (unsigned)op->misalign & 15;

	/* reset */
	switch (lc->mode) {
	case M_GCM:
		if (op->oop) (*oc)->reset(oc, nb, op->nlen);
		else br_gcm_reset(lc->ctx, nb, op->nlen);
		break;
	case M_CCM:
		if (!br_ccm_reset(lc->ctx, nb, op->nlen, op->decl_alen, op->decl_mlen, op->tlen)) {
			free(nb);
			return -1;
		}
		break;
	default:
		if (op->variant == 1) br_eax_reset_pre_aad(lc->ctx, lc->st_pre, nb, op->nlen);
		else if (op->variant == 2) br_eax_reset_post_aad(lc->ctx, lc->st_post, nb, op->nlen);
		else if (op->oop) (*oc)->reset(oc, nb, op->nlen);
		else br_eax_reset(lc->ctx, nb, op->nlen);
		break;
	}
	free(nb);

	/* AAD + flip (not for the EAX post-AAD shortcut) */
	if (!(lc->mode == M_EAX && op->variant == 2)) {
		off = 0;
		for (i = 0; i < op->sa->n; i ++) {
			size_t n = op->sa->len[i];
			unsigned char *blk = malloc(mis + n + (mis + n == 0));
			unsigned char *c = blk + mis;

			if (n) memcpy(c, op->aad + off, n);
			switch (lc->mode) {
			case M_GCM:
				if (op->oop) (*oc)->aad_inject(oc, c, n); else br_gcm_aad_inject(lc->ctx, c, n);
				break;
			case M_CCM: br_ccm_aad_inject(lc->ctx, c, n); break;
			default:
				if (op->oop) (*oc)->aad_inject(oc, c, n); else br_eax_aad_inject(lc->ctx, c, n);
				break;
			}
			free(blk);
			off += n;
		}
		switch (lc->mode) {
		case M_GCM: if (op->oop) (*oc)->flip(oc); else br_gcm_flip(lc->ctx); break;
		case M_CCM: br_ccm_flip(lc->ctx); break;
		default:
			if (op->oop) (*oc)->flip(oc); else br_eax_flip(lc->ctx);
			if (op->grab_post == 1) eax_grab_post(lc, op);
			break;
		}
	}

	/* data */
	off = 0;
	for (i = 0; i < op->sm->n; i ++) {
		size_t n = op->sm->len[i];
		unsigned char *blk = malloc(mis + n + (mis + n == 0));
		unsigned char *c = blk + mis;

		if (n) memcpy(c, op->data + off, n);
		{
		/* "encrypt: non-zero for encryption": any non-zero value, not only 1 (changes from one call to the next) */
		static const int truthy[8] = { 1, 2, 1, -1, 4, 0x100, 1, (int)0x80000000u };
		static unsigned tick;
		int ef = op->encrypt ? truthy[tick ++ & 7] : 0;
		if (ef != 0 && ef != 1) vf_stat("run_calls_with_other_nonzero_encrypt_flag", 1);
		switch (lc->mode) {
		case M_GCM:
			if (op->oop) (*oc)->run(oc, ef, c, n); else br_gcm_run(lc->ctx, ef, c, n);
			break;
		case M_CCM: br_ccm_run(lc->ctx, ef, c, n); break;
		default:
			if (op->oop) (*oc)->run(oc, ef, c, n); else br_eax_run(lc->ctx, ef, c, n);
			break;
		}
		}
		if (n) memcpy(op->data + off, c, n);
		free(blk);
		off += n;
	}

	if (lc->mode == M_EAX && op->variant != 2 && op->grab_post == 2) eax_grab_post(lc, op);

	/* tag */
	if (!op->check) {
		size_t bl = (lc->mode != M_CCM && op->full) ? 16 : op->tlen;
		unsigned char *tb = malloc(bl ? bl : 1);

		memset(tb, 0xA5, bl);
		switch (lc->mode) {
		case M_GCM:
			if (op->full) { if (op->oop) (*oc)->get_tag(oc, tb); else br_gcm_get_tag(lc->ctx, tb); }
			else { if (op->oop) (*oc)->get_tag_trunc(oc, tb, op->tlen); else br_gcm_get_tag_trunc(lc->ctx, tb, op->tlen); }
			break;
		case M_CCM: {
			size_t got = br_ccm_get_tag(lc->ctx, tb);
			vf_stat("cmp_ccm_taglen", 1);
			if (got != op->tlen) {
				vf_viol("C14:ref:ccm:taglen", "br_ccm_get_tag returned a length different from the one given to reset",
					"impl=%s tlen=%zu got=%zu", lc->desc, op->tlen, got);
			}
			break;
		}
		default:
			if (op->full) { if (op->oop) (*oc)->get_tag(oc, tb); else br_eax_get_tag(lc->ctx, tb); }
			else { if (op->oop) (*oc)->get_tag_trunc(oc, tb, op->tlen); else br_eax_get_tag_trunc(lc->ctx, tb, op->tlen); }
			break;
		}
		memcpy(op->tag, tb, op->tlen);
		free(tb);
	} else {
		size_t bl = op->tagbuf >= op->tlen ? op->tagbuf : op->tlen;
		unsigned char *tb;
		uint32_t r;

		if (lc->mode != M_CCM && op->full) bl = 16;
		tb = vf_dup(op->tag, bl);
		switch (lc->mode) {
		case M_GCM:
			if (op->full) r = op->oop ? (*oc)->check_tag(oc, tb) : br_gcm_check_tag(lc->ctx, tb);
			else r = op->oop ? (*oc)->check_tag_trunc(oc, tb, op->tlen) : br_gcm_check_tag_trunc(lc->ctx, tb, op->tlen);
			break;
		case M_CCM: r = br_ccm_check_tag(lc->ctx, tb); break;
		default:
			if (op->full) r = op->oop ? (*oc)->check_tag(oc, tb) : br_eax_check_tag(lc->ctx, tb);
			else r = op->oop ? (*oc)->check_tag_trunc(oc, tb, op->tlen) : br_eax_check_tag_trunc(lc->ctx, tb, op->tlen);
			break;
		}
		free(tb);
		vf_stat("cmp_check_is_bool", 1);
		if (r != 0 && r != 1) {
			vf_viol("C14:check-tag:not-0-or-1", "check_tag returned a value other than 0 or 1",
				"impl=%s r=%u", lc->desc, (unsigned)r);
		}
		rv = r != 0;
	}
	if (lc->mode == M_EAX && op->variant != 2 && op->grab_post == 3) eax_grab_post(lc, op);
	lc->nmsg ++;
	vf_stat("lib_runs", 1);
	return rv;
}

/* start a computation and leave it unfinished (reset "can be called at any time") */
static void
lib_abandon(lctx *lc, vf_rng *r)
{
	unsigned char nonce[16], junk[64];
	size_t nlen = lc->mode == M_CCM ? vf_range(r, 7, 13) : vf_range(r, 1, 16);
	size_t alen = vf_below(r, 40), mlen = vf_below(r, 40);
	int stage = (int)vf_below(r, 3);
	unsigned char *nb, *c;

	vf_bytes(r, nonce, sizeof nonce);
	vf_bytes(r, junk, sizeof junk);
	nb = vf_dup(nonce, nlen);
	switch (lc->mode) {
	case M_GCM: br_gcm_reset(lc->ctx, nb, nlen); break;
	case M_CCM: br_ccm_reset(lc->ctx, nb, nlen, alen + 7, mlen + 9, 8); break;
	default: br_eax_reset(lc->ctx, nb, nlen); break;
	}
	free(nb);
	c = vf_dup(junk, alen);
	switch (lc->mode) {
	case M_GCM: br_gcm_aad_inject(lc->ctx, c, alen); break;
	case M_CCM: br_ccm_aad_inject(lc->ctx, c, alen); break;
	default: br_eax_aad_inject(lc->ctx, c, alen); break;
	}
	free(c);
	if (stage >= 1) {
		switch (lc->mode) {
		case M_GCM: br_gcm_flip(lc->ctx); break;
		case M_CCM: br_ccm_flip(lc->ctx); break;
		default: br_eax_flip(lc->ctx); break;
		}
	}
	if (stage >= 2) {
		c = vf_dup(junk, mlen);
		switch (lc->mode) {
		case M_GCM: br_gcm_run(lc->ctx, 1, c, mlen); break;
		case M_CCM: br_ccm_run(lc->ctx, 1, c, mlen); break;
		default: br_eax_run(lc->ctx, 1, c, mlen); break;
		}
		free(c);
	}
	vf_stat("abandoned", 1);
}

/* ------------------------------------------------------------------ */
/* messages and reference results */

typedef struct {
	int mode;
	size_t klen;
	const unsigned char *key;
	unsigned char *nonce; size_t nlen;
	unsigned char *aad; size_t alen;
	unsigned char *msg; size_t mlen;
	size_t tlen;
	unsigned char *ct;       /* reference ciphertext */
	unsigned char tag[16];   /* reference tag (GCM/EAX: full 16 bytes; CCM: tlen) */
} msg_t;

static void
msg_alloc(msg_t *m, int mode, const unsigned char *key, size_t klen,
	size_t nlen, size_t alen, size_t mlen, size_t tlen, vf_rng *r)
{
	memset(m, 0, sizeof *m);
	m->mode = mode; m->key = key; m->klen = klen;
	m->nlen = nlen; m->alen = alen; m->mlen = mlen; m->tlen = tlen;
	m->nonce = malloc(nlen + 1); m->aad = malloc(alen + 1);
	m->msg = malloc(mlen + 1); m->ct = malloc(mlen + 1);
	vf_bytes(r, m->nonce, nlen);
	vf_bytes(r, m->aad, alen);
	vf_bytes(r, m->msg, mlen);
}

static void
msg_free(msg_t *m)
{
	free(m->nonce); free(m->aad); free(m->msg); free(m->ct);
}

static void
msg_ref(msg_t *m)
{
	switch (m->mode) {
	case M_GCM: ref_gcm(m->key, m->klen, m->nonce, m->nlen, m->aad, m->alen, m->msg, m->mlen, m->ct, m->tag); break;
	case M_CCM: ref_ccm(m->key, m->klen, m->nonce, m->nlen, m->aad, m->alen, m->msg, m->mlen, m->tlen, m->ct, m->tag); break;
	default: ref_eax(m->key, m->klen, m->nonce, m->nlen, m->aad, m->alen, m->msg, m->mlen, m->ct, m->tag); break;
	}
	vf_stat("ref_computations", 1);
}

static int
ref_verify(int mode, const unsigned char *key, size_t klen,
	const unsigned char *nonce, size_t nlen, const unsigned char *aad, size_t alen,
	const unsigned char *ct, size_t mlen, const unsigned char *tag, size_t tlen)
{
	switch (mode) {
	case M_GCM: return ref_gcm_verify(key, klen, nonce, nlen, aad, alen, ct, mlen, tag, tlen);
	case M_CCM: return ref_ccm_verify(key, klen, nonce, nlen, aad, alen, ct, mlen, tag, tlen);
	default: return ref_eax_verify(key, klen, nonce, nlen, aad, alen, ct, mlen, tag, tlen);
	}
}

static const char *
msg_str(const lctx *lc, const msg_t *m)
{
	static char buf[9000];

	snprintf(buf, sizeof buf, "impl=%s klen=%zu key=%s nlen=%zu nonce=%s alen=%zu aad=%s mlen=%zu msg=%s tlen=%zu nmsg_before=%lu",
		lc->desc, m->klen, vf_hexs(m->key, m->klen), m->nlen, vf_hexs(m->nonce, m->nlen),
		m->alen, vf_hexs(m->aad, m->alen), m->mlen, vf_hexs(m->msg, m->mlen), m->tlen, lc->nmsg);
	return buf;
}

static void
op_for_msg(op_t *op, const msg_t *m, const split_t *sa, const split_t *sm)
{
	op_init(op);
	op->nonce = m->nonce; op->nlen = m->nlen;
	op->aad = m->aad; op->alen = m->alen;
	op->mlen = m->mlen; op->tlen = m->tlen;
	op->decl_alen = m->alen; op->decl_mlen = m->mlen;
	op->sa = sa; op->sm = sm;
}

/*
 * Encrypt m on the library with the given schedule and compare with the
 * reference. 'mon' names the monitor for the violation key (ref, split,
 * reuse, eax-state, edge). Returns 1 when equal.
 */
static int
do_encrypt_cmp(lctx *lc, const msg_t *m, op_t *op, const char *mon, const char *part, const char *cnt)
{
	unsigned char *d = vf_dup(m->msg, m->mlen);
	char key[96];
	const char *cls;
	int ok = 1, rv;

	op->encrypt = 1; op->check = 0; op->data = d;
	cls = eax_aad_straddle(lc, op) ? ":aad-straddle" : "";
	rv = lib_process(lc, op);
	if (rv < 0) {
		snprintf(key, sizeof key, "C14:ccm-reset:rejects-valid");
		vf_viol(key, "br_ccm_reset refused documented-valid parameters", "part=%s %s", part, msg_str(lc, m));
		free(d);
		return 0;
	}
	vf_stat(cnt, 1);
	if (memcmp(d, m->ct, m->mlen) != 0) {
		snprintf(key, sizeof key, "C14:%s:%s:ciphertext%s", mon, mode_name[m->mode], cls);
		vf_viol(key, "ciphertext differs from the reference",
			"part=%s %s sa=%s sm=%s variant=%d oop=%d got=%s want=%s", part, msg_str(lc, m),
			split_str(op->sa), split_str(op->sm), op->variant, op->oop, vf_hexs(d, m->mlen), vf_hexs(m->ct, m->mlen));
		ok = 0;
	}
	if (memcmp(op->tag, m->tag, m->tlen) != 0) {
		snprintf(key, sizeof key, "C14:%s:%s:tag%s", mon, mode_name[m->mode], cls);
		vf_viol(key, "tag differs from the reference",
			"part=%s %s sa=%s sm=%s variant=%d oop=%d full=%d got=%s want=%s", part, msg_str(lc, m),
			split_str(op->sa), split_str(op->sm), op->variant, op->oop, op->full,
			vf_hexs(op->tag, m->tlen), vf_hexs(m->tag, m->tlen));
		ok = 0;
	}
	free(d);
	return ok;
}

/* decrypt the reference ciphertext on the library: plaintext back, tag accepted */
static int
do_decrypt_cmp(lctx *lc, const msg_t *m, op_t *op, const char *mon, const char *part, const char *cnt)
{
	unsigned char *d = vf_dup(m->ct, m->mlen);
	char key[96];
	const char *cls;
	int ok = 1, rv;

	op->encrypt = 0; op->check = 1; op->data = d;
	if (op->tagbuf < m->tlen) op->tagbuf = m->tlen;
	{
		size_t u;
		/* bytes past the requested tag length must not matter */
		for (u = 0; u < sizeof op->tag; u ++) op->tag[u] = (unsigned char)~m->tag[u & 15];
	}
	memcpy(op->tag, m->tag, m->tlen);
	cls = eax_aad_straddle(lc, op) ? ":aad-straddle" : "";
	rv = lib_process(lc, op);
	if (rv < 0) {
		vf_viol("C14:ccm-reset:rejects-valid", "br_ccm_reset refused documented-valid parameters",
			"part=%s %s", part, msg_str(lc, m));
		free(d);
		return 0;
	}
	vf_stat(cnt, 1);
	if (memcmp(d, m->msg, m->mlen) != 0) {
		snprintf(key, sizeof key, "C14:%s:%s:plaintext%s", mon, mode_name[m->mode], cls);
		vf_viol(key, "decryption does not return the message",
			"part=%s %s sa=%s sm=%s variant=%d oop=%d got=%s", part, msg_str(lc, m),
			split_str(op->sa), split_str(op->sm), op->variant, op->oop, vf_hexs(d, m->mlen));
		ok = 0;
	}
	if (rv != 1) {
		snprintf(key, sizeof key, "C14:%s:%s:check-rejects-valid%s", mon, mode_name[m->mode], cls);
		vf_viol(key, "check_tag rejects the valid tag",
			"part=%s %s sa=%s sm=%s variant=%d oop=%d full=%d tagbuf=%zu", part, msg_str(lc, m),
			split_str(op->sa), split_str(op->sm), op->variant, op->oop, op->full, op->tagbuf);
		ok = 0;
	}
	free(d);
	return ok;
}

/*
 * Decrypt a corrupted (nonce, aad, ct, tag): check_tag must return 0,
 * unless the reference itself accepts the corrupted input (a genuine
 * collision of a short tag, which is then not judged).
 */
static void
do_forgery(lctx *lc, const msg_t *m, const unsigned char *nonce, const unsigned char *aad,
	const unsigned char *ct, const unsigned char *tag, op_t *op,
	const char *field, int bit, const char *part, const char *cnt)
{
	unsigned char *d = vf_dup(ct, m->mlen);
	const char *cls;
	int rv;

	op->nonce = nonce; op->aad = aad;
	op->encrypt = 0; op->check = 1; op->data = d;
	op->tagbuf = m->tlen;
	memcpy(op->tag, tag, m->tlen);
	cls = eax_aad_straddle(lc, op) ? ":aad-straddle" : "";
	if (cls[0]) vf_stat("forgeries_on_aad_straddle", 1);
	rv = lib_process(lc, op);
	if (rv < 0) {
		vf_viol("C14:ccm-reset:rejects-valid", "br_ccm_reset refused documented-valid parameters",
			"part=%s %s", part, msg_str(lc, m));
	} else if (rv == 1) {
		if (ref_verify(m->mode, m->key, m->klen, nonce, m->nlen, aad, m->alen, ct, m->mlen, tag, m->tlen)) {
			vf_stat("genuine_tag_collisions", 1);
		} else {
			char key[96];

			snprintf(key, sizeof key, "C14:flip:%s:accepts-corrupted-%s%s", mode_name[m->mode], field, cls);
			vf_viol(key, "check_tag accepts although one bit was changed",
				"part=%s %s field=%s bit=%d sa=%s sm=%s variant=%d oop=%d full=%d", part, msg_str(lc, m), field, bit,
				split_str(op->sa), split_str(op->sm), op->variant, op->oop, op->full);
		}
		vf_stat(cnt, 1);
	} else {
		vf_stat(cnt, 1);
	}
	free(d);
}

static size_t
pick_tlen(vf_rng *r, int mode)
{
	if (mode == M_CCM) return 4 + 2 * (size_t)vf_below(r, 7);
	if (vf_below(r, 5) < 2) return 16;
	return vf_range(r, 4, 16);
}

static size_t
pick_nlen(vf_rng *r, int mode)
{
	if (mode == M_CCM) return vf_range(r, 7, 13);
	if (mode == M_GCM) return vf_below(r, 4) == 0 ? 12 : vf_range(r, 1, 64);
	if (vf_below(r, 64) == 0) return 0;   /* EAX: "nonce can have any length" */
	return vf_range(r, 1, 64);
}

static size_t
pick_len(vf_rng *r)
{
	uint32_t k = vf_below(r, 100);

	if (k < 40) return vf_below(r, 81);
	if (k < 80) return vf_below(r, 601);
	if (k < 99) {
		size_t b = 16 * (size_t)vf_range(r, 0, 37);
		int d = (int)vf_below(r, 3) - 1;
		if (b == 0 && d < 0) d = 0;
		return b + d;
	}
	return vf_range(r, 601, 5000);
}

/* ------------------------------------------------------------------ */
/* part rand */

static int
pick_variant(lctx *lc, vf_rng *r, const unsigned char *aad, size_t alen, size_t mlen)
{
	int can_pre, can_post;

	if (lc->mode != M_EAX) return 0;
	can_pre = lc->have_pre && alen >= 1 && mlen >= 1;
	can_post = lc->have_post && mlen >= 1 && alen == lc->post_aad_len
		&& (alen == 0 || memcmp(aad, lc->post_aad, alen) == 0);
	if (can_post && vf_below(r, 2) == 0) return 2;
	if (can_pre && vf_below(r, 3) == 0) return 1;
	return 0;
}

static void
op_style(lctx *lc, vf_rng *r, op_t *op, const msg_t *m)
{
	op->oop = lc->mode != M_CCM && vf_below(r, 2) == 0;
	op->full = lc->mode != M_CCM && m->tlen == 16 && vf_below(r, 2) == 0;
	op->misalign = vf_below(r, 4) == 0 ? (int)vf_below(r, 16) : 0;
	op->variant = pick_variant(lc, r, op->aad, op->alen, op->mlen);
	if (op->variant != 0) op->oop = 0;
	op->grab_post = (lc->mode == M_EAX && op->variant != 2 && lc->have_pre && vf_below(r, 2) == 0) ? 1 + (int)vf_below(r, 3) : 0;
}

static const char *
variant_mon(const op_t *op, const char *dflt)
{
	return op->variant == 1 ? "eax-pre" : op->variant == 2 ? "eax-post" : dflt;
}

static void
note_shapes(const lctx *lc, const msg_t *m)
{
	vf_distinct("nonce_len", "%s/%zu", mode_name[m->mode], m->nlen);
	vf_distinct("tag_len", "%s/%zu", mode_name[m->mode], m->tlen);
	vf_distinct("residue", "%s/a%zu/m%zu", mode_name[m->mode], m->alen & 15, m->mlen & 15);
	vf_distinct("impl_residue", "%s/a%zu/m%zu", lc->desc, m->alen & 15, m->mlen & 15);
	vf_max("max_alen", (long long)m->alen);
	vf_max("max_mlen", (long long)m->mlen);
}

static void
rand_message(lctx *lc, vf_rng *r, long long sidx, int mi)
{
	msg_t m;
	op_t op;
	split_t sa, sm;
	size_t nlen = pick_nlen(r, lc->mode), tlen = pick_tlen(r, lc->mode);
	size_t alen = pick_len(r), mlen = pick_len(r);
	int use_post_aad = lc->mode == M_EAX && lc->have_post && vf_below(r, 3) == 0;
	char part[64];

	snprintf(part, sizeof part, "rand/session=%lld/msg=%d", sidx, mi);
	if (use_post_aad) {
		alen = lc->post_aad_len;
		if (mlen == 0) mlen = 1 + vf_below(r, 40);
	}
	msg_alloc(&m, lc->mode, lc->key, lc->klen, nlen, alen, mlen, tlen, r);
	if (use_post_aad && alen) memcpy(m.aad, lc->post_aad, alen);
	msg_ref(&m);
	note_shapes(lc, &m);
	vf_stat("messages", 1);
	if (sidx == 0) {
		vf_sample("{\"part\":\"rand\",\"impl\":\"%s\",\"klen\":%zu,\"key\":\"%s\",\"nonce\":\"%s\",\"aad_len\":%zu,\"msg_len\":%zu,\"tag_len\":%zu,\"ref_tag\":\"%s\"}",
			lc->desc, m.klen, vf_hexs(m.key, m.klen), vf_hexs(m.nonce, m.nlen), m.alen, m.mlen, m.tlen, vf_hexs(m.tag, m.tlen));
	}

	if (vf_below(r, 8) == 0) lib_abandon(lc, r);

	/* encrypt with a random schedule */
	split_rand(r, &sa, alen); split_rand(r, &sm, mlen);
	op_for_msg(&op, &m, &sa, &sm);
	op_style(lc, r, &op, &m);
	if (lc->nmsg > 0) vf_stat("cmp_reuse", 1);
	if (op.variant == 1) vf_stat("cmp_eax_pre", 1);
	if (op.variant == 2) vf_stat("cmp_eax_post", 1);
	vf_distinct("schedule", "%s/%d/%d/v%d", mode_name[m.mode], sa.n, sm.n, op.variant);
	do_encrypt_cmp(lc, &m, &op, variant_mon(&op, "ref"), part, "cmp_ref_enc");

	/* decrypt with another schedule */
	split_rand(r, &sa, alen); split_rand(r, &sm, mlen);
	op_for_msg(&op, &m, &sa, &sm);
	op_style(lc, r, &op, &m);
	if (!op.full && vf_below(r, 3) == 0) op.tagbuf = 16;
	vf_stat("cmp_reuse", 1);
	if (op.variant == 1) vf_stat("cmp_eax_pre", 1);
	if (op.variant == 2) vf_stat("cmp_eax_post", 1);
	do_decrypt_cmp(lc, &m, &op, variant_mon(&op, "roundtrip"), part, "cmp_roundtrip");

	/* a further schedule (one-shot or random) */
	if (vf_below(r, 2) == 0) {
		if (vf_below(r, 2) == 0) { split_one(&sa, alen); split_one(&sm, mlen); }
		else { split_rand(r, &sa, alen); split_rand(r, &sm, mlen); }
		op_for_msg(&op, &m, &sa, &sm);
		op_style(lc, r, &op, &m);
		vf_stat("cmp_reuse", 1);
		if (op.variant == 1) vf_stat("cmp_eax_pre", 1);
		if (op.variant == 2) vf_stat("cmp_eax_post", 1);
		do_encrypt_cmp(lc, &m, &op, variant_mon(&op, "split"), part, "cmp_split_rand");
	}

	/* one random single-bit corruption */
	if (vf_below(r, 2) == 0) {
		unsigned char *n2 = vf_dup(m.nonce, m.nlen), *a2 = vf_dup(m.aad, m.alen);
		unsigned char *c2 = vf_dup(m.ct, m.mlen), t2[16];
		const char *field;
		int f, bit;

		memcpy(t2, m.tag, 16);
		for (;;) {
			f = (int)vf_below(r, 4);
			if (f == 0 && m.nlen == 0) continue;
			if (f == 1 && m.alen == 0) continue;
			if (f == 2 && m.mlen == 0) continue;
			break;
		}
		switch (f) {
		case 0: bit = (int)vf_below(r, (uint32_t)m.nlen * 8); n2[bit >> 3] ^= (unsigned char)(1 << (bit & 7)); field = "nonce"; break;
		case 1: bit = (int)vf_below(r, (uint32_t)m.alen * 8); a2[bit >> 3] ^= (unsigned char)(1 << (bit & 7)); field = "aad"; break;
		case 2: bit = (int)vf_below(r, (uint32_t)m.mlen * 8); c2[bit >> 3] ^= (unsigned char)(1 << (bit & 7)); field = "ct"; break;
		default: bit = (int)vf_below(r, (uint32_t)m.tlen * 8); t2[bit >> 3] ^= (unsigned char)(1 << (bit & 7)); field = "tag"; break;
		}
		split_rand(r, &sa, alen); split_rand(r, &sm, mlen);
		op_for_msg(&op, &m, &sa, &sm);
		op.aad = a2;
		op_style(lc, r, &op, &m);
		op.grab_post = 0;
		do_forgery(lc, &m, n2, a2, c2, t2, &op, field, bit, part, "cmp_flip_rand");
		free(n2); free(a2); free(c2);
	}
	msg_free(&m);
}

static void
part_rand(long long cases)
{
	long long done = 0, k = 0;

	while (done < cases) {
		long long sidx = g_worker + (k ++) * g_nworkers;
		vf_rng r;
		lctx lc;
		unsigned char key[32];
		size_t klen;
		int mode, nm, i, ci, idx, late_capture;

		vf_rng_init(&r, (uint64_t)g_seed, 0x10000000ull + (uint64_t)sidx);
		mode = (int)vf_below(&r, 3);
		ci = (int)vf_below(&r, (uint32_t)n_aes);
		if (mode == M_GCM) idx = ci * n_gh + (int)vf_below(&r, (uint32_t)n_gh);
		else if (mode == M_CCM) idx = n_aes * n_gh + ci;
		else idx = n_aes * n_gh + n_aes + ci;
		klen = 16 + 8 * (size_t)vf_below(&r, 3);
		vf_bytes(&r, key, sizeof key);
		lc_open(&lc, &combos[idx], key, klen);
		late_capture = vf_below(&r, 4) == 0;
		if (!late_capture) lc_capture(&lc);
		nm = (int)vf_range(&r, 1, 6);
		for (i = 0; i < nm && done < cases; i ++, done ++) {
			rand_message(&lc, &r, sidx, i);
			if (i == 0 && late_capture) lc_capture(&lc);
		}
		vf_stat("sessions", 1);
		vf_max("max_msgs_on_one_context", (long long)lc.nmsg);
		lc_close(&lc);
	}
}

/* ------------------------------------------------------------------ */
/* part split: exhaustive two-way splits */

static size_t
enum_nlen(vf_rng *r, int mode, int i)
{
	if (mode == M_CCM) return 7 + (size_t)(i % 7);
	if (mode == M_GCM && (i & 1) == 0) return 12;
	return vf_range(r, 1, 64);
}

static void
part_split(int split_max, int nkeys)
{
	int c, L, kk;

	for (c = 0; c < n_combo; c ++) {
		for (L = 0; L <= split_max; L ++) {
			for (kk = 0; kk < nkeys; kk ++) {
				long long idx = ((long long)c * 1000 + L) * 4 + kk;
				vf_rng r;
				lctx lc;
				unsigned char key[32];
				size_t klen, nlen, tlen;
				msg_t m;
				op_t op;
				split_t sa, sm;
				int s, which;
				char part[64];

				if (!mine()) continue;
				vf_rng_init(&r, (uint64_t)g_seed, 0x20000000ull + (uint64_t)idx);
				klen = 16 + 8 * (size_t)((L + kk + c) % 3);
				vf_bytes(&r, key, sizeof key);
				lc_open(&lc, &combos[c], key, klen);
				lc_capture(&lc);
				snprintf(part, sizeof part, "split/combo=%d/L=%d/k=%d", c, L, kk);
				for (which = 0; which < 2; which ++) {
					size_t alen = which == 0 ? (size_t)L : (size_t)((L * 3 + 1) % 29);
					size_t mlen = which == 0 ? (size_t)((L * 5 + 3) % 37) : (size_t)L;

					nlen = enum_nlen(&r, lc.mode, L + which);
					tlen = lc.mode == M_CCM ? 4 + 2 * (size_t)((L + which) % 7) : 16;
					msg_alloc(&m, lc.mode, lc.key, klen, nlen, alen, mlen, tlen, &r);
					msg_ref(&m);
					note_shapes(&lc, &m);
					vf_stat("messages", 1);
					for (s = 0; s <= L; s ++) {
						if (which == 0) { split_two(&sa, (size_t)s, (size_t)(L - s)); split_one(&sm, mlen); }
						else { split_one(&sa, alen); split_two(&sm, (size_t)s, (size_t)(L - s)); }
						op_for_msg(&op, &m, &sa, &sm);
						op.oop = (s & 1) && lc.mode != M_CCM;
						op.full = (s & 2) && lc.mode != M_CCM;
						/* EAX: alternate the pre-AAD shortcut where the documentation allows it */
						if (lc.mode == M_EAX && (s % 3) == 2 && alen >= 1 && mlen >= 1) { op.variant = 1; op.oop = 0; }
						vf_distinct("split2", "%s/%s/%d/%d", mode_name[lc.mode], which ? "msg" : "aad", L, s);
						do_encrypt_cmp(&lc, &m, &op, variant_mon(&op, "split"), part,
							which ? "cmp_split2_msg_enc" : "cmp_split2_aad");
						if (which == 1) {
							op_for_msg(&op, &m, &sa, &sm);
							op.oop = !(s & 1) && lc.mode != M_CCM;
							op.full = (s & 2) && lc.mode != M_CCM;
							do_decrypt_cmp(&lc, &m, &op, "split", part, "cmp_split2_msg_dec");
						}
					}
					msg_free(&m);
				}
				lc_close(&lc);
			}
		}
	}
}

/* ------------------------------------------------------------------ */
/* part flip: every single-bit corruption of short messages */

static void
part_flip(int nmsgs)
{
	int c, k;

	for (c = 0; c < n_combo; c ++) {
		for (k = 0; k < nmsgs; k ++) {
			long long idx = (long long)c * 100000 + k;
			vf_rng r;
			lctx lc;
			unsigned char key[32];
			size_t klen, nlen, tlen, alen, mlen, u;
			msg_t m;
			op_t op;
			split_t sa, sm;
			int f, bit;
			char part[64];

			if (!mine()) continue;
			vf_rng_init(&r, (uint64_t)g_seed, 0x30000000ull + (uint64_t)idx);
			klen = 16 + 8 * (size_t)((k + c) % 3);
			vf_bytes(&r, key, sizeof key);
			lc_open(&lc, &combos[c], key, klen);
			lc_capture(&lc);
			snprintf(part, sizeof part, "flip/combo=%d/k=%d", c, k);
			if (lc.mode == M_CCM) { nlen = 7 + (size_t)(k % 7); tlen = 4 + 2 * (size_t)((k / 7) % 7); }
			else { nlen = (k & 1) ? vf_range(&r, 1, 20) : 12; tlen = 4 + (size_t)(k % 13); }
			alen = vf_below(&r, 21);
			mlen = vf_below(&r, 21);
			if (k % 5 == 4) { alen = 15 + vf_below(&r, 3); mlen = 31 + vf_below(&r, 3); }
			msg_alloc(&m, lc.mode, lc.key, klen, nlen, alen, mlen, tlen, &r);
			msg_ref(&m);
			note_shapes(&lc, &m);
			vf_stat("messages", 1);
			if (c == 0 && k == 0) {
				vf_sample("{\"part\":\"flip\",\"impl\":\"%s\",\"key\":\"%s\",\"nonce\":\"%s\",\"aad\":\"%s\",\"ct\":\"%s\",\"tag\":\"%s\"}",
					lc.desc, vf_hexs(m.key, m.klen), vf_hexs(m.nonce, m.nlen), vf_hexs(m.aad, m.alen),
					vf_hexs(m.ct, m.mlen), vf_hexs(m.tag, m.tlen));
			}

			/* the untouched message is accepted */
			split_one(&sa, alen); split_one(&sm, mlen);
			op_for_msg(&op, &m, &sa, &sm);
			do_decrypt_cmp(&lc, &m, &op, "roundtrip", part, "cmp_flip_baseline");

			/* bytes after the requested tag length are not compared */
			if (lc.mode != M_CCM && tlen < 16) {
				op_for_msg(&op, &m, &sa, &sm);
				op.tagbuf = 16;
				op.oop = k & 1;
				do_decrypt_cmp(&lc, &m, &op, "trunc", part, "cmp_trunc_ignores_rest");
			}

			for (f = 0; f < 4; f ++) {
				size_t flen = f == 0 ? nlen : f == 1 ? alen : f == 2 ? mlen : tlen;
				const char *field = f == 0 ? "nonce" : f == 1 ? "aad" : f == 2 ? "ct" : "tag";

				for (bit = 0; bit < (int)(flen * 8); bit ++) {
					unsigned char *n2 = vf_dup(m.nonce, nlen), *a2 = vf_dup(m.aad, alen);
					unsigned char *c2 = vf_dup(m.ct, mlen), t2[16];
					unsigned char *tgt = f == 0 ? n2 : f == 1 ? a2 : f == 2 ? c2 : t2;

					memcpy(t2, m.tag, 16);
					tgt[bit >> 3] ^= (unsigned char)(1 << (bit & 7));
					if ((bit % 7) == 3) { split_rand(&r, &sa, alen); split_rand(&r, &sm, mlen); }
					else { split_one(&sa, alen); split_one(&sm, mlen); }
					op_for_msg(&op, &m, &sa, &sm);
					op.oop = (bit & 1) && lc.mode != M_CCM;
					op.full = (bit & 2) && lc.mode != M_CCM && tlen == 16;
					if (lc.mode == M_EAX && (bit % 5) == 4 && alen >= 1 && mlen >= 1) { op.variant = 1; op.oop = 0; }
					do_forgery(&lc, &m, n2, a2, c2, t2, &op, field, bit, part, "cmp_flip");
					vf_stat(f == 0 ? "flips_nonce" : f == 1 ? "flips_aad" : f == 2 ? "flips_ct" : "flips_tag", 1);
					free(n2); free(a2); free(c2);
				}
			}
			(void)u;
			msg_free(&m);
			lc_close(&lc);
		}
	}
}

/* ------------------------------------------------------------------ */
/* part ccm: br_ccm_reset limits, declared vs actual lengths */

static void
part_ccm(int ndecl)
{
	int ci, nl, tl, j;

	for (ci = 0; ci < n_aes; ci ++) {
		const combo_t *cb = &combos[n_aes * n_gh + ci];

		for (nl = 0; nl <= 20; nl ++) {
			long long idx = (long long)ci * 32 + nl;
			vf_rng r;
			lctx lc;
			unsigned char key[32], nonce[32];
			unsigned char *nb;
			size_t klen;
			unsigned q = (nl >= 7 && nl <= 13) ? 15u - (unsigned)nl : 2u;
			uint64_t dl[16], al[8];
			int ndl = 0, nal = 0, a, d;

			if (!mine()) continue;
			vf_rng_init(&r, (uint64_t)g_seed, 0x40000000ull + (uint64_t)idx);
			klen = 16 + 8 * (size_t)(nl % 3);
			vf_bytes(&r, key, sizeof key);
			vf_bytes(&r, nonce, sizeof nonce);
			lc_open(&lc, cb, key, klen);
			dl[ndl ++] = 0; dl[ndl ++] = 1; dl[ndl ++] = 255; dl[ndl ++] = 65535; dl[ndl ++] = 65536;
			dl[ndl ++] = 0xFFFFFFFFull; dl[ndl ++] = 0x100000000ull;
			dl[ndl ++] = 0x8000000000000000ull; dl[ndl ++] = 0xFFFFFFFFFFFFFFFFull;
			if (q < 8) {
				dl[ndl ++] = ((uint64_t)1 << (8 * q)) - 1;
				dl[ndl ++] = (uint64_t)1 << (8 * q);
				dl[ndl ++] = ((uint64_t)1 << (8 * q)) + 1;
			}
			dl[ndl ++] = vf_u64(&r);
			al[nal ++] = 0; al[nal ++] = 1; al[nal ++] = 0xFEFF; al[nal ++] = 0xFF00;
			al[nal ++] = 0xFFFFFFFFull; al[nal ++] = 0x100000000ull; al[nal ++] = 0xFFFFFFFFFFFFFFFFull;
			nb = vf_dup(nonce, (size_t)nl);
			for (tl = 0; tl <= 20; tl ++) {
				for (a = 0; a < nal; a ++) {
					for (d = 0; d < ndl; d ++) {
						int n_ok = nl >= 7 && nl <= 13;
						int t_ok = tl >= 4 && tl <= 16 && (tl & 1) == 0;
						int l_ok = q >= 8 || dl[d] < ((uint64_t)1 << (8 * q));
						int want = n_ok && t_ok && l_ok;
						int got = br_ccm_reset(lc.ctx, nb, (size_t)nl, al[a], dl[d], (size_t)tl);

						vf_stat("cmp_ccm_reset", 1);
						vf_stat(want ? "ccm_reset_expected_accept" : "ccm_reset_expected_refuse", 1);
						vf_distinct("ccm_reset", "n%d/t%d/%s", nl, tl, want ? "ok" : !n_ok ? "nonce" : !t_ok ? "tag" : "len");
						if (got != want) {
							const char *key2 = (got != 0 && got != 1) ? "C14:ccm-reset:returns-neither-0-nor-1"
								: want ? "C14:ccm-reset:rejects-valid"
								: !n_ok ? "C14:ccm-reset:accepts-bad-nonce-length"
								: !t_ok ? "C14:ccm-reset:accepts-bad-tag-length"
								: "C14:ccm-reset:accepts-unencodable-data-length";
							vf_viol(key2, "br_ccm_reset return value differs from the documented rule",
								"impl=%s nonce_len=%d tag_len=%d aad_len=%llu data_len=%llu got=%d want=%d",
								lc.desc, nl, tl, (unsigned long long)al[a], (unsigned long long)dl[d], got, want);
						}
					}
				}
				/* the context remains usable after refused / unfinished resets */
				if ((tl % 5) == 0) {
					msg_t m;
					op_t op;
					split_t sa, sm;

					msg_alloc(&m, M_CCM, lc.key, klen, vf_range(&r, 7, 13), vf_below(&r, 40), vf_below(&r, 40),
						4 + 2 * (size_t)vf_below(&r, 7), &r);
					msg_ref(&m);
					vf_stat("messages", 1);
					split_rand(&r, &sa, m.alen); split_rand(&r, &sm, m.mlen);
					op_for_msg(&op, &m, &sa, &sm);
					lc.nmsg ++;
					do_encrypt_cmp(&lc, &m, &op, "reuse", "ccm/after-reset-enum", "cmp_ccm_after_refusal");
					msg_free(&m);
				}
			}
			free(nb);
			lc_close(&lc);
		}

		for (j = 0; j < ndecl; j ++) {
			long long idx = (long long)ci * 100000 + j;
			vf_rng r;
			lctx lc;
			unsigned char key[32];
			size_t klen;
			msg_t m;
			op_t op;
			split_t sa, sm;
			unsigned char *d;
			int kind, rv;
			uint64_t da, dm;

			if (!mine()) continue;
			vf_rng_init(&r, (uint64_t)g_seed, 0x48000000ull + (uint64_t)idx);
			klen = 16 + 8 * (size_t)(j % 3);
			vf_bytes(&r, key, sizeof key);
			lc_open(&lc, cb, key, klen);
			msg_alloc(&m, M_CCM, lc.key, klen, vf_range(&r, 7, 13), vf_below(&r, 61), vf_below(&r, 61),
				8 + 2 * (size_t)vf_below(&r, 5), &r);
			msg_ref(&m);
			vf_stat("messages", 1);
			da = m.alen; dm = m.mlen;
			kind = (int)vf_below(&r, 6);
			switch (kind) {
			case 0: dm = m.mlen + 1 + vf_below(&r, 20); break;
			case 1: if (m.mlen > 0) dm = vf_below(&r, (uint32_t)m.mlen); else dm = 1; break;
			case 2: da = m.alen + 1 + vf_below(&r, 20); break;
			case 3: if (m.alen > 0) da = vf_below(&r, (uint32_t)m.alen); else da = 1; break;
			case 4: dm = m.mlen + 256; break;
			default: da = m.alen ^ 0x100; break;
			}
			split_rand(&r, &sa, m.alen); split_rand(&r, &sm, m.mlen);
			op_for_msg(&op, &m, &sa, &sm);
			op.decl_alen = da; op.decl_mlen = dm;
			d = vf_dup(m.msg, m.mlen);
			op.encrypt = 1; op.check = 0; op.data = d;
			rv = lib_process(&lc, &op);
			vf_stat("cmp_ccm_declared", 1);
			vf_distinct("ccm_declared", "kind%d", kind);
			if (rv < 0) {
				vf_viol("C14:ccm-reset:rejects-valid", "br_ccm_reset refused valid (if inexact) lengths",
					"part=ccm/declared %s decl_alen=%llu decl_mlen=%llu", msg_str(&lc, &m),
					(unsigned long long)da, (unsigned long long)dm);
			} else if (ref_verify(M_CCM, m.key, klen, m.nonce, m.nlen, m.aad, m.alen, d, m.mlen, op.tag, m.tlen)) {
				vf_viol("C14:ccm-declared:tag-ignores-declared-length",
					"tag made with wrong declared lengths verifies for the actual data",
					"part=ccm/declared %s decl_alen=%llu decl_mlen=%llu tag=%s", msg_str(&lc, &m),
					(unsigned long long)da, (unsigned long long)dm, vf_hexs(op.tag, m.tlen));
			} else {
				/* and the library, told the true lengths, rejects that tag */
				unsigned char t2[16];
				op_t op2;

				memcpy(t2, op.tag, m.tlen);
				op_for_msg(&op2, &m, &sa, &sm);
				op2.encrypt = 0; op2.check = 1; op2.data = d; op2.tagbuf = m.tlen;
				memcpy(op2.tag, t2, m.tlen);
				rv = lib_process(&lc, &op2);
				vf_stat("cmp_ccm_declared", 1);
				if (rv != 0) {
					vf_viol("C14:ccm-declared:check-accepts", "check_tag accepts a tag made with other declared lengths",
						"part=ccm/declared %s decl_alen=%llu decl_mlen=%llu", msg_str(&lc, &m),
						(unsigned long long)da, (unsigned long long)dm);
				}
			}
			free(d);
			msg_free(&m);
			lc_close(&lc);
		}
	}
}

/* ------------------------------------------------------------------ */
/* part edge: counter wrap through crafted nonces, long inputs */

static void
edge_case(lctx *lc, vf_rng *r, msg_t *m, const char *part, const char *cnt)
{
	op_t op;
	split_t sa, sm;

	msg_ref(m);
	note_shapes(lc, m);
	vf_stat("messages", 1);
	split_rand(r, &sa, m->alen); split_rand(r, &sm, m->mlen);
	op_for_msg(&op, m, &sa, &sm);
	op_style(lc, r, &op, m);
	op.grab_post = 0;
	do_encrypt_cmp(lc, m, &op, "edge", part, cnt);
	split_rand(r, &sa, m->alen); split_rand(r, &sm, m->mlen);
	op_for_msg(&op, m, &sa, &sm);
	op_style(lc, r, &op, m);
	op.grab_post = 0;
	do_decrypt_cmp(lc, m, &op, "edge", part, cnt);
}

static void
part_edge(int reps)
{
	static const size_t wl[] = { 0, 1, 16, 33, 65, 100, 160 };
	static const size_t longs[][2] = {
		{ 0, 4096 + 17 }, { 5, 5000 }, { 65279, 3 }, { 65280, 20 }, { 65281, 0 }, { 70000, 33 }, { 3, 65535 }, { 0, 65536 + 5 }
	};
	int c, e;

	for (c = 0; c < n_combo; c ++) {
		for (e = 0; e < reps; e ++) {
			long long idx = (long long)c * 64 + e;
			vf_rng r;
			lctx lc;
			unsigned char key[32];
			size_t klen;
			msg_t m;
			int d, i;
			char part[64];

			if (!mine()) continue;
			vf_rng_init(&r, (uint64_t)g_seed, 0x50000000ull + (uint64_t)idx);
			klen = 16 + 8 * (size_t)((c + e) % 3);
			vf_bytes(&r, key, sizeof key);
			lc_open(&lc, &combos[c], key, klen);
			lc_capture(&lc);
			snprintf(part, sizeof part, "edge/combo=%d/e=%d", c, e);

			if (lc.mode == M_GCM) {
				for (d = 0; d < 4; d ++) {
					for (i = 0; i < (int)(sizeof wl / sizeof wl[0]); i ++) {
						unsigned char j0[16];
						uint32_t cc = 0xFFFFFFFFu - (uint32_t)d;

						msg_alloc(&m, M_GCM, lc.key, klen, 16, vf_below(&r, 40), wl[i], 16, &r);
						vf_bytes(&r, j0, 12);
						j0[12] = (unsigned char)(cc >> 24); j0[13] = (unsigned char)(cc >> 16);
						j0[14] = (unsigned char)(cc >> 8); j0[15] = (unsigned char)cc;
						ref_gcm_craft_nonce(lc.key, klen, j0, m.nonce);
						edge_case(&lc, &r, &m, part, "cmp_edge_wrap");
						if (((br_gcm_context *)lc.ctx)->j0_2 == cc) vf_stat("edge_gcm_wrap_hit", 1);
						else vf_stat("edge_gcm_wrap_missed", 1);
						msg_free(&m);
					}
				}
			}
			if (lc.mode == M_EAX) {
				for (d = 0; d < 12; d ++) {
					for (i = 0; i < (int)(sizeof wl / sizeof wl[0]); i ++) {
						unsigned char n16[16];
						int keep = (d % 3) == 0 ? 0 : (d % 3) == 1 ? 8 : 12, u;

						msg_alloc(&m, M_EAX, lc.key, klen, 16, vf_below(&r, 40), wl[i], 16, &r);
						vf_bytes(&r, n16, 16);
						for (u = keep; u < 16; u ++) n16[u] = 0xFF;
						n16[15] = (unsigned char)(0xFF - (d / 3));
						ref_eax_craft_nonce(lc.key, klen, n16, m.nonce);
						edge_case(&lc, &r, &m, part, "cmp_edge_wrap");
						if (memcmp(((br_eax_context *)lc.ctx)->nonce, n16, 16) == 0) vf_stat("edge_eax_wrap_hit", 1);
						else vf_stat("edge_eax_wrap_missed", 1);
						msg_free(&m);
					}
				}
			}
			for (i = 0; i < (int)(sizeof longs / sizeof longs[0]); i ++) {
				size_t alen = longs[i][0], mlen = longs[i][1], nlen;

				nlen = pick_nlen(&r, lc.mode);
				if (lc.mode == M_CCM) {
					if (mlen == 65535) nlen = 13;
					else if (mlen > 65535 && nlen > 12) nlen = 12;
				}
				msg_alloc(&m, lc.mode, lc.key, klen, nlen, alen, mlen, pick_tlen(&r, lc.mode), &r);
				edge_case(&lc, &r, &m, part, "cmp_edge_long");
				msg_free(&m);
			}
			lc_close(&lc);
		}
	}
}

/* ------------------------------------------------------------------ */
/* part lenblock: the 64-bit length fields of the last GHASH block of GCM (model-level).
 *
 * Lengths of 2^29 bytes and more cannot be streamed in a quick run, so the byte counters of the context
 * (count_aad, count_ctr: fields declared in bearssl_aead.h) are advanced by 2^29 * k bytes (a multiple of the
 * block size, k in {1, 8, 15}) right after br_gcm_flip(); the bit lengths then need more than 32 bits.  The tag
 * must equal the spec-level GHASH over the same AAD / ciphertext with these lengths in the final block.  The
 * ciphertext must not change.  The model is first tied to OpenSSL (ordinary lengths) in every case. */

static void
part_lenblock(int reps)
{
	static const unsigned ks[3] = { 1, 8, 15 };
	int c, e, ki, which;

	for (c = 0; c < n_combo; c ++) {
		if (combos[c].mode != M_GCM) continue;
		for (e = 0; e < reps; e ++) for (ki = 0; ki < 3; ki ++) for (which = 1; which <= 3; which ++) {
			long long idx = (((long long)c * 64 + e) * 3 + ki) * 4 + which;
			vf_rng r;
			lctx lc;
			unsigned char key[32], mt[16], tag[16], *d, *a;
			size_t klen, nlen, alen, mlen, cut;
			uint64_t add_a, add_c;
			br_gcm_context *g;
			msg_t m;

			if (!mine()) continue;
			vf_rng_init(&r, (uint64_t)g_seed, 0x60000000ull + (uint64_t)idx);
			klen = 16 + 8 * (size_t)((c + e + ki) % 3);
			vf_bytes(&r, key, sizeof key);
			lc_open(&lc, &combos[c], key, klen);
			nlen = (which == 3 && ki == 1) ? 1 + vf_below(&r, 64) : 12;
			alen = vf_below(&r, 50);
			mlen = (ki == 2 && which == 1) ? 0 : vf_below(&r, 120);
			msg_alloc(&m, M_GCM, lc.key, klen, nlen, alen, mlen, 16, &r);
			msg_ref(&m);
			/* the model reproduces the OpenSSL tag for the true lengths */
			ref_gcm_tag_model(lc.key, klen, m.nonce, nlen, m.aad, alen, m.ct, mlen,
				(unsigned long long)alen << 3, (unsigned long long)mlen << 3, mt);
			if (memcmp(mt, m.tag, 16) != 0) {
				fprintf(stderr, "HARNESS_ASSERT gcm-tag-model-vs-evp\n");
				exit(3);
			}
			add_a = (which & 1) ? ((uint64_t)ks[ki] << 29) : 0;
			add_c = (which & 2) ? ((uint64_t)ks[(ki + (which == 3)) % 3] << 29) : 0;
			ref_gcm_tag_model(lc.key, klen, m.nonce, nlen, m.aad, alen, m.ct, mlen,
				((unsigned long long)alen + add_a) << 3, ((unsigned long long)mlen + add_c) << 3, mt);

			g = lc.ctx;
			a = vf_dup(m.aad, alen);
			d = vf_dup(m.msg, mlen);
			{
				unsigned char *nb = vf_dup(m.nonce, nlen);
				br_gcm_reset(g, nb, nlen);
				free(nb);
			}
			br_gcm_aad_inject(g, a, alen);
			br_gcm_flip(g);
			g->count_aad += add_a;
			g->count_ctr += add_c;
			cut = vf_below(&r, (uint32_t)mlen + 1);
			br_gcm_run(g, 1, d, cut);
			br_gcm_run(g, 1, d + cut, mlen - cut);
			memset(tag, 0, 16);
			br_gcm_get_tag(g, tag);
			vf_stat("cmp_gcm_length_block", 1);
			vf_distinct("lenblock", "%s/k%u/%s", lc.desc, ks[ki], which == 1 ? "aad" : which == 2 ? "data" : "both");
			if (memcmp(d, m.ct, mlen) != 0) {
				vf_viol("C14:lenblock:gcm:ciphertext", "ciphertext changed when the byte counters were advanced by a multiple of the block size",
					"%s add_aad=0x%llx add_data=0x%llx got=%s want=%s", msg_str(&lc, &m), (unsigned long long)add_a, (unsigned long long)add_c,
					vf_hexs(d, mlen), vf_hexs(m.ct, mlen));
			}
			if (memcmp(tag, mt, 16) != 0) {
				vf_viol("C14:lenblock:gcm:tag", "tag differs from the spec-level GHASH with bit lengths beyond 2^32 in the final block",
					"%s count_aad+=0x%llx count_ctr+=0x%llx got=%s want=%s", msg_str(&lc, &m), (unsigned long long)add_a, (unsigned long long)add_c,
					vf_hexs(tag, 16), vf_hexs(mt, 16));
			}
			if (idx % 97 == 0) vf_sample("{\"part\":\"lenblock\",\"impl\":\"%s\",\"count_aad_add\":\"0x%llx\",\"count_ctr_add\":\"0x%llx\",\"tag\":\"%s\"}",
				lc.desc, (unsigned long long)add_a, (unsigned long long)add_c, vf_hexs(tag, 16));
			free(a); free(d);
			msg_free(&m);
			lc_close(&lc);
		}
	}
}

/* ------------------------------------------------------------------ */

static void
ref_selftest(void)
{
	/* EAX paper test vectors: msg, key, nonce, header, cipher, tag */
	static const char *kat[] = {
		"", "233952dee4d5ed5f9b9c6d6ff80ff478", "62ec67f9c3a4a407fcb2a8c49031a8b3", "6bfb914fd07eae6b",
		"", "e037830e8389f27b025a2d6527e79d01",
		"f7fb", "91945d3f4dcbee0bf45ef52255f095a4", "becaf043b0a23d843194ba972c66debd", "fa3bfd4806eb53fa",
		"19dd", "5c4c9331049d0bdab0277408f67967e5",
		"1a47cb4933", "01f74ad64077f2e704c0f60ada3dd523", "70c3db4f0d26368400a10ed05d2bff5e", "234a3463c1264ac6",
		"d851d5bae0", "3a59f238a23e39199dc9266626c40f80",
		"40d0c07da5e4", "35b6d0580005bbc12b0587124557d2c2", "fdb6b06676eedc5c61d74276e1f8e816", "aeb96eaebe2970e9",
		"071dfe16c675", "cb0677e536f73afe6a14b74ee49844dd",
		NULL
	};
	int u;

	for (u = 0; kat[u]; u += 6) {
		unsigned char msg[64], key[32], nonce[64], aad[64], ct[64], tag[16], oc[64], ot[16];
		size_t ml = vf_unhex(msg, sizeof msg, kat[u]), kl = vf_unhex(key, sizeof key, kat[u + 1]);
		size_t nl = vf_unhex(nonce, sizeof nonce, kat[u + 2]), al = vf_unhex(aad, sizeof aad, kat[u + 3]);

		vf_unhex(ct, sizeof ct, kat[u + 4]);
		vf_unhex(tag, sizeof tag, kat[u + 5]);
		ref_eax(key, kl, nonce, nl, aad, al, msg, ml, oc, ot);
		if (memcmp(oc, ct, ml) != 0 || memcmp(ot, tag, 16) != 0) {
			fprintf(stderr, "HARNESS_ASSERT ref-eax-kat-%d\n", u / 6);
			exit(3);
		}
		vf_stat("ref_eax_kat_ok", 1);
	}
}

int
main(int argc, char **argv)
{
	const char *part = vf_arg(argc, argv, "--part", "all");
	int all = !strcmp(part, "all");

	g_seed = vf_argi(argc, argv, "--seed", 1);
	g_worker = (int)vf_argi(argc, argv, "--worker", 0);
	g_nworkers = (int)vf_argi(argc, argv, "--nworkers", 1);
	if (g_nworkers < 1) g_nworkers = 1;
	setvbuf(stdout, NULL, _IOFBF, 1 << 16);
	ref_init();
	ref_selftest();
	setup_impls();
	if (all || !strcmp(part, "rand")) part_rand(vf_argi(argc, argv, "--cases", 100));
	if (all || !strcmp(part, "split")) part_split((int)vf_argi(argc, argv, "--split-max", 80), (int)vf_argi(argc, argv, "--split-keys", 1));
	if (all || !strcmp(part, "flip")) part_flip((int)vf_argi(argc, argv, "--flip-msgs", 8));
	if (all || !strcmp(part, "ccm")) part_ccm((int)vf_argi(argc, argv, "--ccm-decl", 50));
	if (all || !strcmp(part, "edge")) part_edge((int)vf_argi(argc, argv, "--edge", 1));
	if (all || !strcmp(part, "lenblock")) part_lenblock((int)vf_argi(argc, argv, "--edge", 1));
	vf_done();
	return 0;
}
