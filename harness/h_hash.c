/*
 * C13: hashes, HMAC, PRFs, KDFs and DRBGs match their standards for any
 * call pattern.  Reference: OpenSSL libcrypto (EVP digests, HMAC(), legacy
 * MD5_CTX/SHA*_CTX for chaining-value injection, EVP_KDF, PKCS1_MGF1, EVP AES
 * single-block encryption) and spec-level code written here (Keccak sponge,
 * TLS P_hash, HKDF, SP 800-90A HMAC_DRBG, AESCTR_DRBG from bearssl_rand.h).
 *
 *   h_hash --part P --seed S --worker i --nworkers n [--cases N] [--nexh N] [--k K]
 *
 * parts: hash state inject multi shake hmac hmacct prf hkdf mgf1 hdrbg adrbg misc
 */
#define OPENSSL_SUPPRESS_DEPRECATED
#include <openssl/evp.h>
#include <openssl/hmac.h>
#include <openssl/md5.h>
#include <openssl/sha.h>
#include <openssl/kdf.h>
#include <openssl/rsa.h>
#include <openssl/objects.h>
#include <openssl/params.h>
#include <openssl/core_names.h>

#include "common.h"
#include "inner.h"

#pragma GCC diagnostic ignored "-Wdeprecated-declarations"

/* ------------------------------------------------------------------ */
/* globals */

static long long g_seed;
static int g_worker, g_nworkers;
static const char *g_part;
static long long g_item;

#define MINE()   ((int)(g_item ++ % g_nworkers) == g_worker)

static void
hfail(const char *what)
{
	fprintf(stderr, "HARNESS_ASSERT %s\n", what);
	exit(3);
}

static void *
xmalloc(size_t n)
{
	void *p = malloc(n ? n : 1);
	if (!p) hfail("oom");
	return p;
}

/* monitors */
enum {
	M_DIGEST, M_MIDOUT, M_STCOUNT, M_STVAL, M_SETSTATE, M_INJECT, M_DESC,
	M_MULTI, M_MULTI_ABSENT, M_SHAKE, M_HMAC, M_HMACLEN, M_HMACCT,
	M_PRF, M_HKDF, M_HKDFLEN, M_HKDFLIM, M_MGF1, M_HDRBG, M_ADRBG, M_ADRBG_X,
	M_OID, M_DET, M_UNMOD, M_NMON
};
static const char *mon_name[M_NMON] = {
	"digest", "midout", "state_count", "state_value", "set_state", "inject",
	"desc", "multihash", "multihash_absent", "shake", "hmac", "hmac_len",
	"hmac_outct", "prf", "hkdf", "hkdf_len", "hkdf_limit", "mgf1", "hmac_drbg",
	"aesctr_drbg", "aesctr_drbg_cross", "oid", "determinism", "unmodified"
};
static long long ncmp[M_NMON];

static int
chk(int mon, const char *cls, const void *got, const void *exp, size_t len,
	const char *fmt, ...)
{
	char key[160], what[400], cs[2600];
	va_list ap;
	size_t sl;

	ncmp[mon] ++;
	if (len == 0 || memcmp(got, exp, len) == 0) return 1;
	snprintf(key, sizeof key, "C13:%s:%s", mon_name[mon], cls);
	sl = len > 64 ? 64 : len;
	snprintf(what, sizeof what, "mismatch over %u bytes got=%s exp=%s",
		(unsigned)len, vf_hexs(got, sl), vf_hexs(exp, sl));
	va_start(ap, fmt);
	vsnprintf(cs, sizeof cs, fmt, ap);
	va_end(ap);
	vf_viol(key, what, "part=%s seed=%lld %s", g_part, g_seed, cs);
	return 0;
}

static int
chki(int mon, const char *cls, long long got, long long exp, const char *fmt, ...)
{
	char key[160], what[200], cs[2600];
	va_list ap;

	ncmp[mon] ++;
	if (got == exp) return 1;
	snprintf(key, sizeof key, "C13:%s:%s", mon_name[mon], cls);
	snprintf(what, sizeof what, "value got=%lld exp=%lld", got, exp);
	va_start(ap, fmt);
	vsnprintf(cs, sizeof cs, fmt, ap);
	va_end(ap);
	vf_viol(key, what, "part=%s seed=%lld %s", g_part, g_seed, cs);
	return 0;
}

static void
flush_counters(void)
{
	int i;
	long long tot = 0;
	char nm[64];

	for (i = 0; i < M_NMON; i ++) {
		if (ncmp[i] == 0) continue;
		snprintf(nm, sizeof nm, "cmp_%s", mon_name[i]);
		vf_stat(nm, ncmp[i]);
		tot += ncmp[i];
	}
	vf_stat("cmp_total", tot);
}

/* per-case rng: independent of the number of workers */
static void
case_rng(vf_rng *r, int part_id, long long idx)
{
	vf_rng_init(r, (uint64_t)g_seed, ((uint64_t)part_id << 40) + (uint64_t)idx);
}

/* ------------------------------------------------------------------ */
/* hash descriptors */

typedef struct {
	const char *name;
	const br_hash_class *vt;
	int id, kind;
	size_t hlen, slen, bs;
	const EVP_MD *md;
} hdesc;

enum { K_MD5, K_SHA1, K_SHA224, K_SHA256, K_SHA384, K_SHA512, K_MD5SHA1 };
#define NHASH 7
static hdesc HD[NHASH];

static void
hd_setup(void)
{
	static const struct { const char *n; const br_hash_class *vt; int id; size_t hl, sl, bs; } t[NHASH] = {
		{ "md5", &br_md5_vtable, 1, 16, 16, 64 },
		{ "sha1", &br_sha1_vtable, 2, 20, 20, 64 },
		{ "sha224", &br_sha224_vtable, 3, 28, 32, 64 },
		{ "sha256", &br_sha256_vtable, 4, 32, 32, 64 },
		{ "sha384", &br_sha384_vtable, 5, 48, 64, 128 },
		{ "sha512", &br_sha512_vtable, 6, 64, 64, 128 },
		{ "md5sha1", &br_md5sha1_vtable, 0, 36, 36, 64 },
	};
	int i;
	for (i = 0; i < NHASH; i ++) {
		HD[i].name = t[i].n; HD[i].vt = t[i].vt; HD[i].id = t[i].id;
		HD[i].kind = i; HD[i].hlen = t[i].hl; HD[i].slen = t[i].sl; HD[i].bs = t[i].bs;
	}
	{
		/* explicit fetch once: avoids an implicit fetch per reference call */
		static const char *en[NHASH] = { "MD5", "SHA1", "SHA224", "SHA256", "SHA384", "SHA512", "MD5-SHA1" };
		for (i = 0; i < NHASH; i ++) HD[i].md = EVP_MD_fetch(NULL, en[i], NULL);
	}
	for (i = 0; i < NHASH; i ++) {
		if (HD[i].md == NULL || (size_t)EVP_MD_get_size(HD[i].md) != HD[i].hlen) hfail("evp-md");
	}
}

static void
ref_digest(const hdesc *h, const void *data, size_t len, unsigned char *out)
{
	unsigned int ol = 0;
	static const unsigned char z = 0;
	if (!EVP_Digest(len ? data : &z, len, out, &ol, h->md, NULL) || ol != h->hlen) hfail("evp-digest");
}

/* HMAC(key, p1 || p2 || p3) with OpenSSL's HMAC implementation */
static void
ref_hmac3(const hdesc *h, const void *key, size_t klen,
	const void *p1, size_t l1, const void *p2, size_t l2, const void *p3, size_t l3,
	unsigned char *out)
{
	static HMAC_CTX *hx;
	static const unsigned char z = 0;
	unsigned int ol = 0;
	if (!hx && !(hx = HMAC_CTX_new())) hfail("hmac-ctx");
	if (!HMAC_Init_ex(hx, klen ? key : (const void *)&z, (int)klen, h->md, NULL)) hfail("hmac-init");
	if (l1 && !HMAC_Update(hx, p1, l1)) hfail("hmac-update");
	if (l2 && !HMAC_Update(hx, p2, l2)) hfail("hmac-update");
	if (l3 && !HMAC_Update(hx, p3, l3)) hfail("hmac-update");
	if (!HMAC_Final(hx, out, &ol) || ol != h->hlen) hfail("hmac-final");
}

static void
ref_hmac(const hdesc *h, const void *key, size_t klen, const void *data, size_t dlen, unsigned char *out)
{
	ref_hmac3(h, key, klen, data, dlen, NULL, 0, NULL, 0, out);
}

/* chaining-value injection into the legacy OpenSSL contexts */
static uint32_t rd32le(const unsigned char *p) { return p[0] | (p[1] << 8) | (p[2] << 16) | ((uint32_t)p[3] << 24); }
static uint32_t rd32be(const unsigned char *p) { return p[3] | (p[2] << 8) | (p[1] << 16) | ((uint32_t)p[0] << 24); }
static uint64_t rd64be(const unsigned char *p) { return ((uint64_t)rd32be(p) << 32) | rd32be(p + 4); }

static void
ref_inject_md5(const unsigned char *cv, uint64_t count, const void *d, size_t dl, unsigned char *out)
{
	MD5_CTX c;
	MD5_Init(&c);
	c.A = rd32le(cv); c.B = rd32le(cv + 4); c.C = rd32le(cv + 8); c.D = rd32le(cv + 12);
	c.Nl = (uint32_t)(count << 3); c.Nh = (uint32_t)(count >> 29); c.num = 0;
	MD5_Update(&c, d, dl);
	MD5_Final(out, &c);
}

static void
ref_inject_sha1(const unsigned char *cv, uint64_t count, const void *d, size_t dl, unsigned char *out)
{
	SHA_CTX c;
	SHA1_Init(&c);
	c.h0 = rd32be(cv); c.h1 = rd32be(cv + 4); c.h2 = rd32be(cv + 8);
	c.h3 = rd32be(cv + 12); c.h4 = rd32be(cv + 16);
	c.Nl = (uint32_t)(count << 3); c.Nh = (uint32_t)(count >> 29); c.num = 0;
	SHA1_Update(&c, d, dl);
	SHA1_Final(out, &c);
}

static void
ref_inject(const hdesc *h, const unsigned char *cv, uint64_t count,
	const void *d, size_t dl, unsigned char *out)
{
	int i;
	static const unsigned char z = 0;
	if (dl == 0) d = &z;
	switch (h->kind) {
	case K_MD5: ref_inject_md5(cv, count, d, dl, out); break;
	case K_SHA1: ref_inject_sha1(cv, count, d, dl, out); break;
	case K_MD5SHA1:
		ref_inject_md5(cv, count, d, dl, out);
		ref_inject_sha1(cv + 16, count, d, dl, out + 16);
		break;
	case K_SHA224: case K_SHA256: {
		SHA256_CTX c;
		if (h->kind == K_SHA224) SHA224_Init(&c); else SHA256_Init(&c);
		for (i = 0; i < 8; i ++) c.h[i] = rd32be(cv + 4 * i);
		c.Nl = (uint32_t)(count << 3); c.Nh = (uint32_t)(count >> 29); c.num = 0;
		if (h->kind == K_SHA224) { SHA224_Update(&c, d, dl); SHA224_Final(out, &c); }
		else { SHA256_Update(&c, d, dl); SHA256_Final(out, &c); }
		break; }
	default: {
		SHA512_CTX c;
		if (h->kind == K_SHA384) SHA384_Init(&c); else SHA512_Init(&c);
		for (i = 0; i < 8; i ++) c.h[i] = rd64be(cv + 8 * i);
		c.Nl = count << 3; c.Nh = count >> 61; c.num = 0;
		if (h->kind == K_SHA384) { SHA384_Update(&c, d, dl); SHA384_Final(out, &c); }
		else { SHA512_Update(&c, d, dl); SHA512_Final(out, &c); }
		break; }
	}
}

/* ------------------------------------------------------------------ */
/* random partition of [0,n) into np parts (cut points sorted, may coincide) */

static int
mk_cuts(vf_rng *r, size_t n, int np, size_t *cut)
{
	int i, j;
	cut[0] = 0;
	for (i = 1; i < np; i ++) cut[i] = vf_below(r, (uint32_t)n + 1);
	cut[np] = n;
	for (i = 1; i < np; i ++) {
		for (j = i + 1; j < np; j ++) {
			if (cut[j] < cut[i]) { size_t t = cut[i]; cut[i] = cut[j]; cut[j] = t; }
		}
	}
	return np;
}

/* a length biased towards padding/block boundaries */
static size_t
pick_len(vf_rng *r, size_t maxlen)
{
	static const int b[] = { 0, 55, 56, 63, 64, 111, 112, 119, 120, 127, 128, 135, 136, 167, 168, 191, 192, 255, 256 };
	uint32_t c = vf_below(r, 4);
	size_t v;
	if (c == 0) {
		int k = b[vf_below(r, sizeof b / sizeof b[0])] * (1 + (int)vf_below(r, 3));
		k += (int)vf_below(r, 5) - 2;
		v = (size_t)(k < 0 ? 0 : k);
	} else if (c == 1) {
		v = vf_below(r, 70);
	} else {
		v = vf_below(r, (uint32_t)maxlen + 1);
	}
	return v > maxlen ? maxlen : v;
}

#define PART_HASH 1
#define PART_STATE 2
#define PART_INJECT 3
#define PART_MULTI 4
#define PART_SHAKE 5
#define PART_HMAC 6
#define PART_HMACCT 7
#define PART_PRF 8
#define PART_HKDF 9
#define PART_MGF1 10
#define PART_HDRBG 11
#define PART_ADRBG 12
#define PART_MISC 13

#define NMAX 1100

/* ================================================================== */
/* part hash: digests under every partition, intermediate out()       */

typedef const br_hash_class **HC;
typedef const br_hash_class *const *HCC;

static void
proc_digest(int kind, const void *d, size_t n, unsigned char *out)
{
	/* procedural API, one update */
	switch (kind) {
	case K_MD5: { br_md5_context c; br_md5_init(&c); br_md5_update(&c, d, n); br_md5_out(&c, out); break; }
	case K_SHA1: { br_sha1_context c; br_sha1_init(&c); br_sha1_update(&c, d, n); br_sha1_out(&c, out); break; }
	case K_SHA224: { br_sha224_context c; br_sha224_init(&c); br_sha224_update(&c, d, n); br_sha224_out(&c, out); break; }
	case K_SHA256: { br_sha256_context c; br_sha256_init(&c); br_sha256_update(&c, d, n); br_sha256_out(&c, out); break; }
	case K_SHA384: { br_sha384_context c; br_sha384_init(&c); br_sha384_update(&c, d, n); br_sha384_out(&c, out); break; }
	case K_SHA512: { br_sha512_context c; br_sha512_init(&c); br_sha512_update(&c, d, n); br_sha512_out(&c, out); break; }
	default: { br_md5sha1_context c; br_md5sha1_init(&c); br_md5sha1_update(&c, d, n); br_md5sha1_out(&c, out); break; }
	}
}

static void
check_desc(const hdesc *h)
{
	uint32_t d = h->vt->desc;
	chki(M_DESC, h->name, (d >> BR_HASHDESC_ID_OFF) & BR_HASHDESC_ID_MASK, h->id, "field=ID");
	chki(M_DESC, h->name, (d >> BR_HASHDESC_OUT_OFF) & BR_HASHDESC_OUT_MASK, (long long)h->hlen, "field=OUT");
	chki(M_DESC, h->name, (d >> BR_HASHDESC_STATE_OFF) & BR_HASHDESC_STATE_MASK, (long long)h->slen, "field=STATE");
	chki(M_DESC, h->name, 1 << ((d >> BR_HASHDESC_LBLEN_OFF) & BR_HASHDESC_LBLEN_MASK), (long long)h->bs, "field=LBLEN");
}

static void
part_hash(long long nexh, long long k)
{
	int hi;
	unsigned char *msg = xmalloc(NMAX + 400);
	static unsigned char ref[NMAX + 401][64];
	vf_rng r;
	long long nparts = 0;

	/* base message depends on the seed only */
	case_rng(&r, PART_HASH, -1);
	vf_bytes(&r, msg, NMAX + 400);
	if (nexh > NMAX + 400) nexh = NMAX + 400;

	for (hi = 0; hi < NHASH; hi ++) {
		const hdesc *h = &HD[hi];
		const br_hash_class *vt = h->vt;
		size_t csz = vt->context_size;
		void *c1 = xmalloc(csz), *c2 = xmalloc(csz);
		unsigned char *o = xmalloc(h->hlen);
		long long n;
		int refdone = 0;

		if (g_worker == 0) check_desc(h);
		vf_distinct("config", "hash/%s", h->name);

		/* (A) exhaustive partitions into <= 3 updates, out() after each */
		for (n = 0; n <= nexh; n ++) {
			unsigned char *m;
			size_t a, b;

			if (!MINE()) continue;
			if (!refdone) {
				size_t i;
				for (i = 0; i <= (size_t)nexh; i ++) ref_digest(h, msg, i, ref[i]);
				refdone = 1;
			}
			m = vf_dup(msg, (size_t)n);
			for (a = 0; a <= (size_t)n; a ++) {
				vt->init((HC)c1);
				vt->update((HC)c1, m, a);
				vt->out((HCC)c1, o);
				chk(M_MIDOUT, h->name, o, ref[a], h->hlen, "exh3 h=%s n=%d a=%d msg=base", h->name, (int)n, (int)a);
				for (b = a; b <= (size_t)n; b ++) {
					memcpy(c2, c1, csz);
					vt->update((HC)c2, m + a, b - a);
					vt->out((HCC)c2, o);
					chk(M_MIDOUT, h->name, o, ref[b], h->hlen, "exh3 h=%s n=%d a=%d b=%d msg=base", h->name, (int)n, (int)a, (int)b);
					vt->update((HC)c2, m + b, (size_t)n - b);
					vt->out((HCC)c2, o);
					chk(M_DIGEST, h->name, o, ref[n], h->hlen, "exh3 h=%s n=%d a=%d b=%d msg=base", h->name, (int)n, (int)a, (int)b);
					nparts ++;
				}
			}
			free(m);
		}

		/* (B) every length 0..NMAX: procedural one-shot + k random partitions */
		for (n = 0; n <= NMAX; n ++) {
			unsigned char *m, e[64], e2[64];
			long long j;

			if (!MINE()) continue;
			case_rng(&r, PART_HASH, (long long)hi * 100000 + n);
			m = xmalloc((size_t)n);
			vf_bytes(&r, m, (size_t)n);
			ref_digest(h, m, (size_t)n, e);
			proc_digest(h->kind, m, (size_t)n, o);
			chk(M_DIGEST, h->name, o, e, h->hlen, "oneshot h=%s n=%d msg=%s", h->name, (int)n, vf_hexs(m, (size_t)n));
			if (n == 64 + hi) vf_sample("{\"part\":\"hash\",\"hash\":\"%s\",\"len\":%d,\"digest\":\"%s\"}", h->name, (int)n, vf_hexs(o, h->hlen));
			for (j = 0; j < k; j ++) {
				size_t cut[8];
				int np = 1 + (int)vf_below(&r, 6), i;
				mk_cuts(&r, (size_t)n, np, cut);
				vt->init((HC)c1);
				for (i = 0; i < np; i ++) {
					size_t pl = cut[i + 1] - cut[i];
					unsigned char *p = vf_dup(m + cut[i], pl);
					uint32_t z = vf_below(&r, 6);
					if (z == 0) vt->update((HC)c1, NULL, 0);
					if (z == 1) vt->update((HC)c1, p, 0);
					vt->update((HC)c1, p, pl);
					free(p);
					if (vf_below(&r, 3) == 0) {
						vt->out((HCC)c1, o);
						ref_digest(h, m, cut[i + 1], e2);
						chk(M_MIDOUT, h->name, o, e2, h->hlen, "rnd h=%s n=%d prefix=%d msg=%s", h->name, (int)n, (int)cut[i + 1], vf_hexs(m, (size_t)n));
					}
				}
				vt->out((HCC)c1, o);
				chk(M_DIGEST, h->name, o, e, h->hlen, "rnd h=%s n=%d np=%d cuts=%d,%d,%d,%d,%d msg=%s", h->name, (int)n, np,
					(int)cut[1], (int)cut[2 > np ? np : 2], (int)cut[3 > np ? np : 3], (int)cut[4 > np ? np : 4], (int)cut[5 > np ? np : 5], vf_hexs(m, (size_t)n));
				/* out() twice gives the same value and leaves the context unchanged */
				memcpy(c2, c1, csz);
				vt->out((HCC)c1, o);
				chk(M_UNMOD, h->name, c1, c2, csz, "out-modifies-context h=%s n=%d", h->name, (int)n);
				nparts ++;
			}
			free(m);
		}
		free(c1); free(c2); free(o);
	}
	vf_stat("partitions", nparts);
	vf_stat("cases", nparts);
	free(msg);
}

/* ================================================================== */
/* part state: state()/set_state() save-restore at block boundaries   */

static void
part_state(long long step)
{
	int hi;
	unsigned char *msg = xmalloc(NMAX);
	vf_rng r;
	long long ncase = 0;

	case_rng(&r, PART_STATE, -1);
	vf_bytes(&r, msg, NMAX);
	for (hi = 0; hi < NHASH; hi ++) {
		const hdesc *h = &HD[hi];
		const br_hash_class *vt = h->vt;
		size_t csz = vt->context_size;
		void *c1 = xmalloc(csz), *c2 = xmalloc(csz);
		unsigned char *o = xmalloc(h->hlen), *stb = xmalloc(h->slen), *stb0 = xmalloc(h->slen);
		long long n;

		vf_distinct("config", "state/%s", h->name);
		for (n = 0; n <= NMAX; n += step) {
			unsigned char e[64];
			unsigned char *m;
			size_t p, inc;
			uint64_t cnt;

			if (!MINE()) continue;
			m = vf_dup(msg, (size_t)n);
			ref_digest(h, m, (size_t)n, e);
			vt->init((HC)c1);
			p = 0;
			inc = 1 + (size_t)(n % 7);
			for (;;) {
				/* c1 holds m[0:p] */
				memset(stb, 0xEE, h->slen);
				cnt = vt->state((HCC)c1, stb);
				chki(M_STCOUNT, h->name, (long long)cnt, (long long)p, "h=%s n=%d p=%d", h->name, (int)n, (int)p);
				if (p % h->bs == 0) {
					memcpy(stb0, stb, h->slen);
					/* restore into a fresh context and continue */
					memset(c2, 0xA7, csz);
					vt->init((HC)c2);
					vt->set_state((HC)c2, stb, cnt);
					vt->update((HC)c2, m + p, (size_t)n - p);
					vt->out((HCC)c2, o);
					chk(M_SETSTATE, h->name, o, e, h->hlen, "h=%s n=%d boundary=%d msg=base", h->name, (int)n, (int)p);
					ncase ++;
				} else {
					/* documented: running state after the last complete block */
					chk(M_STVAL, h->name, stb, stb0, h->slen, "h=%s n=%d p=%d", h->name, (int)n, (int)p);
				}
				if (p >= (size_t)n) break;
				{
					/* advance to the next block boundary or by a small step */
					size_t nb = (p / h->bs + 1) * h->bs, q;
					q = (p % h->bs == 0 && (n & 1)) ? p + inc : nb;
					if (q > nb) q = nb;
					if (q > (size_t)n) q = (size_t)n;
					vt->update((HC)c1, m + p, q - p);
					p = q;
				}
			}
			free(m);
		}
		free(c1); free(c2); free(o); free(stb); free(stb0);
	}
	vf_stat("cases", ncase);
	vf_stat("restores", ncase);
	free(msg);
}

/* ================================================================== */
/* part inject: arbitrary (chaining value, count) vs legacy OpenSSL    */

static void
part_inject(long long cases)
{
	long long idx;

	for (idx = 0; idx < cases; idx ++) {
		vf_rng r;
		const hdesc *h;
		unsigned char cvb[64], e[64];
		unsigned char *cv, *d, *o;
		void *c;
		uint64_t count, room;
		size_t dlen, np, cut[8];
		int cls, i, wide;
		uint32_t kk;

		if (!MINE()) continue;
		case_rng(&r, PART_INJECT, idx);
		h = &HD[idx % NHASH];
		wide = (h->bs == 128);
		cls = (int)((idx / NHASH) % 8);
		kk = vf_below(&r, 6);
		dlen = pick_len(&r, 700);
		room = ~(uint64_t)0;   /* max bytes that may follow */
		switch (cls) {
		case 0: count = ((uint64_t)1 << 29) - kk * h->bs; break;           /* 2^32-bit carry */
		case 1: count = ((uint64_t)1 << 32) - kk * h->bs; break;
		case 2:                                                          /* top of the 64-bit bit counter */
			kk ++;
			count = ((uint64_t)1 << 61) - kk * h->bs;
			if (!wide) room = kk * h->bs - 1;
			break;
		case 3:
			if (wide) { kk ++; count = (uint64_t)0 - kk * h->bs; room = kk * h->bs - 1; }
			else { count = ((uint64_t)vf_u32(&r) << 6) ; }
			break;
		case 4: count = 0; break;
		case 5: count = kk * h->bs; break;
		default:
			count = (vf_u64(&r) >> (4 + vf_below(&r, 50))) & ~(uint64_t)(h->bs - 1);
			if (!wide && count + 1024 >= ((uint64_t)1 << 61)) count &= ((uint64_t)1 << 60) - 1;
			break;
		}
		if (dlen > room) dlen = (size_t)room;
		vf_bytes(&r, cvb, sizeof cvb);
		cv = vf_dup(cvb, h->slen);
		d = xmalloc(dlen);
		vf_bytes(&r, d, dlen);
		o = xmalloc(h->hlen);
		c = xmalloc(h->vt->context_size);
		memset(c, 0x5C, h->vt->context_size);
		h->vt->init((HC)c);
		h->vt->set_state((HC)c, cv, count);
		np = 1 + vf_below(&r, 3);
		mk_cuts(&r, dlen, (int)np, cut);
		for (i = 0; i < (int)np; i ++) h->vt->update((HC)c, d + cut[i], cut[i + 1] - cut[i]);
		h->vt->out((HCC)c, o);
		ref_inject(h, cv, count, d, dlen, e);
		chk(M_INJECT, h->name, o, e, h->hlen, "h=%s cv=%s count=0x%llx dlen=%d data=%s", h->name,
			vf_hexs(cv, h->slen), (unsigned long long)count, (int)dlen, vf_hexs(d, dlen));
		{
			/* state() gives back what was set plus the injected length */
			unsigned char *sb = xmalloc(h->slen);
			uint64_t c2;
			void *cc = xmalloc(h->vt->context_size);
			h->vt->init((HC)cc);
			h->vt->set_state((HC)cc, cv, count);
			c2 = h->vt->state((HCC)cc, sb);
			chki(M_STCOUNT, h->name, (long long)c2, (long long)count, "after-set_state h=%s", h->name);
			chk(M_STVAL, h->name, sb, cv, h->slen, "after-set_state h=%s count=0x%llx", h->name, (unsigned long long)count);
			free(sb); free(cc);
		}
		vf_distinct("config", "inject/%s/class%d", h->name, cls);
		if (idx < 3) vf_sample("{\"part\":\"inject\",\"hash\":\"%s\",\"count\":\"0x%llx\",\"dlen\":%d,\"digest\":\"%s\"}",
			h->name, (unsigned long long)count, (int)dlen, vf_hexs(o, h->hlen));
		vf_stat("cases", 1);
		free(cv); free(d); free(o); free(c);
	}
}

/* ================================================================== */
/* part multi: multi-hasher                                           */

static void
multi_check(const br_multihash_context *mc, int mask, const unsigned char *m, size_t plen,
	unsigned char refs[7][64], const char *tag, int n, int a, int b)
{
	int id;
	for (id = 1; id <= 6; id ++) {
		const hdesc *h = &HD[id - 1];
		unsigned char *o = xmalloc(h->hlen);
		size_t rl;
		memset(o, 0xC3, h->hlen);
		rl = br_multihash_out(mc, id, o);
		if (mask & (1 << (id - 1))) {
			unsigned char e[64];
			const unsigned char *ep = e;
			if (refs) ep = refs[id - 1]; else ref_digest(h, m, plen, e);
			chki(M_MULTI, h->name, (long long)rl, (long long)h->hlen, "%s retlen mask=%d n=%d", tag, mask, n);
			chk(M_MULTI, h->name, o, ep, h->hlen, "%s mask=%d n=%d prefix=%d a=%d b=%d msg=%s", tag, mask, n, (int)plen, a, b,
				refs ? "base" : vf_hexs(m, plen));
		} else {
			unsigned char f[64];
			memset(f, 0xC3, sizeof f);
			chki(M_MULTI_ABSENT, h->name, (long long)rl, 0, "%s mask=%d", tag, mask);
			chk(M_MULTI_ABSENT, h->name, o, f, h->hlen, "%s dst-written mask=%d", tag, mask);
		}
		free(o);
	}
}

static void
multi_setup(br_multihash_context *mc, int mask)
{
	int id;
	br_multihash_zero(mc);
	for (id = 1; id <= 6; id ++) {
		if (mask & (1 << (id - 1))) br_multihash_setimpl(mc, id, HD[id - 1].vt);
	}
	br_multihash_init(mc);
}

static void
part_multi(long long nexh, long long cases, int three)
{
	unsigned char *msg = xmalloc(NMAX);
	static unsigned char ref[NMAX + 1][7][64];
	vf_rng r;
	long long n, idx, nparts = 0;
	size_t i;
	int hi;
	br_multihash_context *mc = xmalloc(sizeof *mc), *mc1 = xmalloc(sizeof *mc), *mc2 = xmalloc(sizeof *mc);

	case_rng(&r, PART_MULTI, -1);
	vf_bytes(&r, msg, NMAX);
	if (nexh > NMAX) nexh = NMAX;
	for (i = 0; i <= (size_t)nexh; i ++) for (hi = 0; hi < 6; hi ++) ref_digest(&HD[hi], msg, i, ref[i][hi]);

	/* exhaustive two-way (or three-way) partitions, all six functions */
	vf_distinct("config", "multi/exh/mask63");
	for (n = 0; n <= nexh; n ++) {
		unsigned char *m;
		size_t a, b;
		if (!MINE()) continue;
		m = vf_dup(msg, (size_t)n);
		for (a = 0; a <= (size_t)n; a ++) {
			multi_setup(mc1, 63);
			br_multihash_update(mc1, m, a);
			multi_check(mc1, 63, m, a, ref[a], "exh", (int)n, (int)a, -1);
			if (!three) {
				br_multihash_update(mc1, m + a, (size_t)n - a);
				multi_check(mc1, 63, m, (size_t)n, ref[n], "exh", (int)n, (int)a, -1);
				nparts ++;
				continue;
			}
			for (b = a; b <= (size_t)n; b ++) {
				memcpy(mc2, mc1, sizeof *mc);
				br_multihash_update(mc2, m + a, b - a);
				br_multihash_update(mc2, m + b, (size_t)n - b);
				multi_check(mc2, 63, m, (size_t)n, ref[n], "exh3", (int)n, (int)a, (int)b);
				nparts ++;
			}
		}
		free(m);
	}

	/* random: any subset, any length, 1..6 parts, context reuse */
	for (idx = 0; idx < cases; idx ++) {
		int mask, np, j, round;
		size_t len, cut[8];
		unsigned char *m;

		if (!MINE()) continue;
		case_rng(&r, PART_MULTI, idx);
		mask = (int)(idx % 64);
		vf_distinct("config", "multi/rnd/mask%d", mask);
		memset(mc, 0x99, sizeof *mc);
		br_multihash_zero(mc);
		for (j = 1; j <= 6; j ++) {
			if (mask & (1 << (j - 1))) br_multihash_setimpl(mc, j, HD[j - 1].vt);
		}
		for (j = 1; j <= 6; j ++) {
			const br_hash_class *g = br_multihash_getimpl(mc, j);
			chki(M_MULTI, HD[j - 1].name, g == ((mask & (1 << (j - 1))) ? HD[j - 1].vt : NULL), 1, "getimpl mask=%d", mask);
		}
		for (round = 0; round < 2; round ++) {
			br_multihash_init(mc);
			len = (idx % 3 == 0) ? pick_len(&r, NMAX) : vf_below(&r, NMAX + 1);
			m = xmalloc(len);
			vf_bytes(&r, m, len);
			np = 1 + (int)vf_below(&r, 6);
			mk_cuts(&r, len, np, cut);
			for (j = 0; j < np; j ++) {
				unsigned char *p = vf_dup(m + cut[j], cut[j + 1] - cut[j]);
				if (vf_below(&r, 5) == 0) br_multihash_update(mc, NULL, 0);
				br_multihash_update(mc, p, cut[j + 1] - cut[j]);
				free(p);
				if (vf_below(&r, 3) == 0) multi_check(mc, mask, m, cut[j + 1], NULL, "rnd-mid", (int)len, -1, -1);
			}
			multi_check(mc, mask, m, len, NULL, "rnd", (int)len, -1, -1);
			free(m);
			nparts ++;
		}
	}
	/* injected (count, chaining values): the bit-length carries of every function, reached by writing the
	   fields of the context structure (declared in bearssl_hash.h, "not supposed to be accessed directly":
	   this is a model-level check). Layout assumption, calibrated below against br_multihash_init(): the
	   state of function id is stored in the serialisation of its state() method at val_32 + {0, 16, 36, 68}
	   bytes (MD5, SHA-1, SHA-224, SHA-256) resp. val_64 + {0, 64} bytes (SHA-384, SHA-512); count = bytes
	   injected so far. Count classes as in part inject, multiples of the 128-byte buffer. */
	{
		static const size_t off[6] = { 0, 16, 36, 68, 0, 64 };
		long long ninj = cases / 4;
		int layout_ok = 1, id;
		multi_setup(mc, 63);
		for (id = 1; id <= 6; id ++) {
			const hdesc *h = &HD[id - 1];
			unsigned char iv[64];
			void *c = xmalloc(h->vt->context_size);
			const unsigned char *base = id >= 5 ? (const unsigned char *)mc->val_64 : (const unsigned char *)mc->val_32;
			h->vt->init((HC)c);
			h->vt->state((HCC)c, iv);
			if (memcmp(base + off[id - 1], iv, h->slen) != 0) layout_ok = 0;
			free(c);
		}
		if (!layout_ok) {
			vf_stat("multi_inject_layout_unknown", 1);
			ninj = 0;
		}
		for (idx = 0; idx < ninj; idx ++) {
			unsigned char cv[6][64], *d;
			uint64_t count, room = ~(uint64_t)0;
			uint32_t kk;
			size_t dlen, cut[8];
			int mask, cls, np, j, narrow;

			if (!MINE()) continue;
			case_rng(&r, PART_MULTI, 3000000 + idx);
			cls = (int)(idx % 6);
			mask = 1 + (int)((idx / 6) % 63);
			if (cls == 3) mask &= 0x30;                 /* top of the 128-bit counter region: SHA-384/512 only */
			if (mask == 0) mask = 0x30;
			narrow = (mask & 0x0F) != 0;
			kk = vf_below(&r, 6);
			switch (cls) {
			case 0: count = ((uint64_t)1 << 29) - kk * 128; break;        /* bit count crosses 2^32 */
			case 1: count = ((uint64_t)1 << 32) - kk * 128; break;
			case 2:                                                         /* bit count reaches 2^64 - ... */
				kk ++;
				count = ((uint64_t)1 << 61) - kk * 128;
				if (narrow) room = kk * 128 - 1;
				break;
			case 3: kk ++; count = (uint64_t)0 - kk * 128; room = kk * 128 - 1; break;
			case 4: count = kk * 128; break;
			default:
				count = (vf_u64(&r) >> (4 + vf_below(&r, 50))) & ~(uint64_t)127;
				if (narrow && count + 2048 >= ((uint64_t)1 << 61)) count &= ((uint64_t)1 << 60) - 1;
				break;
			}
			dlen = pick_len(&r, 700);
			if (dlen > room) dlen = (size_t)room;
			d = xmalloc(dlen);
			vf_bytes(&r, d, dlen);
			memset(mc, 0x99, sizeof *mc);
			multi_setup(mc, mask);
			for (id = 1; id <= 6; id ++) {
				unsigned char *base = id >= 5 ? (unsigned char *)mc->val_64 : (unsigned char *)mc->val_32;
				vf_bytes(&r, cv[id - 1], HD[id - 1].slen);
				if (mask & (1 << (id - 1))) memcpy(base + off[id - 1], cv[id - 1], HD[id - 1].slen);
			}
			mc->count = count;
			np = 1 + (int)vf_below(&r, 4);
			mk_cuts(&r, dlen, np, cut);
			for (j = 0; j < np; j ++) br_multihash_update(mc, d + cut[j], cut[j + 1] - cut[j]);
			for (id = 1; id <= 6; id ++) {
				const hdesc *h = &HD[id - 1];
				unsigned char o[64], e[64];
				size_t rl;
				if (!(mask & (1 << (id - 1)))) continue;
				rl = br_multihash_out(mc, id, o);
				ref_inject(h, cv[id - 1], count, d, dlen, e);
				chki(M_MULTI, h->name, (long long)rl, (long long)h->hlen, "inject retlen mask=%d", mask);
				chk(M_MULTI, h->name, o, e, h->hlen, "inject h=%s mask=%d cv=%s count=0x%llx dlen=%d data=%s", h->name, mask,
					vf_hexs(cv[id - 1], h->slen), (unsigned long long)count, (int)dlen, vf_hexs(d, dlen));
				vf_stat("cmp_multihash_inject", 1);
			}
			vf_distinct("config", "multi/inject/class%d/%s", cls, narrow ? ((mask & 0x30) ? "mixed" : "narrow") : "wide");
			nparts ++;
			free(d);
		}
	}
	vf_stat("cases", nparts);
	vf_stat("partitions", nparts);
	free(msg); free(mc); free(mc1); free(mc2);
}

/* ================================================================== */
/* part shake: SHAKE vs EVP XOF and a spec-level Keccak sponge         */

static uint64_t kr_rc[24];
static int kr_rot[25];

static void
kr_setup(void)
{
	uint8_t R = 1;
	int round, j, t, x, y;
	for (round = 0; round < 24; round ++) {
		uint64_t rc = 0;
		for (j = 0; j < 7; j ++) {
			if (R & 1) rc ^= (uint64_t)1 << ((1 << j) - 1);
			R = (uint8_t)((R & 0x80) ? ((R << 1) ^ 0x71) : (R << 1));
		}
		kr_rc[round] = rc;
	}
	x = 1; y = 0; kr_rot[0] = 0;
	for (t = 0; t < 24; t ++) {
		int nx;
		kr_rot[x + 5 * y] = ((t + 1) * (t + 2) / 2) % 64;
		nx = y; y = (2 * x + 3 * y) % 5; x = nx;
	}
}

static uint64_t rol64(uint64_t v, int n) { return n ? (v << n) | (v >> (64 - n)) : v; }

static void
kr_f(uint64_t *A)
{
	int round, x, y;
	for (round = 0; round < 24; round ++) {
		uint64_t C[5], D[5], B[25];
		for (x = 0; x < 5; x ++) C[x] = A[x] ^ A[x + 5] ^ A[x + 10] ^ A[x + 15] ^ A[x + 20];
		for (x = 0; x < 5; x ++) D[x] = C[(x + 4) % 5] ^ rol64(C[(x + 1) % 5], 1);
		for (x = 0; x < 25; x ++) A[x] ^= D[x % 5];
		for (x = 0; x < 5; x ++) for (y = 0; y < 5; y ++)
			B[y + 5 * ((2 * x + 3 * y) % 5)] = rol64(A[x + 5 * y], kr_rot[x + 5 * y]);
		for (y = 0; y < 5; y ++) for (x = 0; x < 5; x ++)
			A[x + 5 * y] = B[x + 5 * y] ^ (~B[(x + 1) % 5 + 5 * y] & B[(x + 2) % 5 + 5 * y]);
		A[0] ^= kr_rc[round];
	}
}

/* SHAKE with capacity 2*level bits */
static void
ref_shake(int level, const unsigned char *in, size_t inlen, unsigned char *out, size_t outlen)
{
	uint64_t A[25];
	unsigned char blk[200];
	size_t rate = 200 - (size_t)level / 4, i, k;
	memset(A, 0, sizeof A);
	for (;;) {
		size_t c = inlen < rate ? inlen : rate;
		memset(blk, 0, sizeof blk);
		memcpy(blk, in, c);
		if (c < rate) { blk[c] ^= 0x1F; blk[rate - 1] ^= 0x80; }
		for (i = 0; i < rate / 8; i ++) {
			uint64_t w = 0;
			for (k = 0; k < 8; k ++) w |= (uint64_t)blk[8 * i + k] << (8 * k);
			A[i] ^= w;
		}
		kr_f(A);
		in += c; inlen -= c;
		if (c < rate) break;
	}
	for (;;) {
		for (i = 0; i < rate && outlen > 0; i ++, outlen --) *out ++ = (unsigned char)(A[i / 8] >> (8 * (i % 8)));
		if (outlen == 0) break;
		kr_f(A);
	}
}

static void
ref_shake_evp(int level, const unsigned char *in, size_t inlen, unsigned char *out, size_t outlen)
{
	EVP_MD_CTX *c = EVP_MD_CTX_new();
	static const unsigned char z = 0;
	if (!c || !EVP_DigestInit_ex(c, level == 128 ? EVP_shake128() : EVP_shake256(), NULL)
		|| !EVP_DigestUpdate(c, inlen ? in : &z, inlen)
		|| !EVP_DigestFinalXOF(c, out, outlen)) hfail("evp-shake");
	EVP_MD_CTX_free(c);
}

static void
shake_case(vf_rng *r, int level, size_t inlen, size_t outlen, const char *tag)
{
	unsigned char *in = xmalloc(inlen), *e = xmalloc(outlen), *e2 = xmalloc(outlen), *o = xmalloc(outlen);
	br_shake_context *sc = xmalloc(sizeof *sc);
	size_t cut[8], ocut[8];
	int np, onp, j;
	char cls[16];

	vf_bytes(r, in, inlen);
	snprintf(cls, sizeof cls, "%d", level);
	ref_shake(level, in, inlen, e, outlen);
	if ((level == 128 || level == 256) && outlen > 0) {
		ref_shake_evp(level, in, inlen, e2, outlen);
		if (memcmp(e, e2, outlen) != 0) hfail("keccak-reference-disagrees-with-evp");
		vf_stat("ref_keccak_vs_evp", 1);
	}
	memset(sc, 0x3C, sizeof *sc);
	br_shake_init(sc, level);
	np = 1 + (int)vf_below(r, 5);
	mk_cuts(r, inlen, np, cut);
	for (j = 0; j < np; j ++) {
		unsigned char *p = vf_dup(in + cut[j], cut[j + 1] - cut[j]);
		if (vf_below(r, 6) == 0) br_shake_inject(sc, p, 0);
		br_shake_inject(sc, p, cut[j + 1] - cut[j]);
		free(p);
	}
	br_shake_flip(sc);
	onp = 1 + (int)vf_below(r, 5);
	mk_cuts(r, outlen, onp, ocut);
	memset(o, 0x77, outlen);
	for (j = 0; j < onp; j ++) {
		size_t l = ocut[j + 1] - ocut[j];
		unsigned char *q = xmalloc(l);
		br_shake_produce(sc, q, l);
		memcpy(o + ocut[j], q, l);
		free(q);
	}
	chk(M_SHAKE, cls, o, e, outlen, "%s level=%d inlen=%d outlen=%d np=%d onp=%d in=%s", tag, level, (int)inlen, (int)outlen, np, onp, vf_hexs(in, inlen));
	vf_stat("cases", 1);
	if (inlen == 5 && level == 128) vf_sample("{\"part\":\"shake\",\"level\":%d,\"in\":\"%s\",\"outlen\":%d,\"out\":\"%s\"}", level, vf_hexs(in, inlen), (int)outlen, vf_hexs(o, outlen > 32 ? 32 : outlen));
	free(in); free(e); free(e2); free(o); free(sc);
}

static void
part_shake(long long cases, int alllevels)
{
	vf_rng r;
	long long idx;
	int lv, level;
	size_t n;

	kr_setup();
	/* every input length up to 2 rates + 3, for the standard levels (and all levels) */
	for (lv = 0; lv < 24; lv ++) {
		size_t rate;
		level = 32 * (lv + 1);
		if (!alllevels && level != 128 && level != 256 && level != 32 && level != 768 && level != 512) continue;
		rate = 200 - (size_t)level / 4;
		vf_distinct("config", "shake/level%d", level);
		for (n = 0; n <= 2 * rate + 3; n ++) {
			if (!MINE()) continue;
			case_rng(&r, PART_SHAKE, 1000000 + (long long)level * 1000 + (long long)n);
			shake_case(&r, level, n, (n % 5 == 0) ? vf_below(&r, 1001) : vf_below(&r, 80), "exh-inlen");
		}
	}
	for (idx = 0; idx < cases; idx ++) {
		if (!MINE()) continue;
		case_rng(&r, PART_SHAKE, idx);
		level = (idx % 4 == 3) ? 32 * (1 + (int)vf_below(&r, 24)) : ((idx & 1) ? 128 : 256);
		vf_distinct("config", "shake/level%d", level);
		shake_case(&r, level, pick_len(&r, 700), (size_t)(idx % 1001), "rnd");
	}
}

/* ================================================================== */
/* part hmac                                                          */

static int g_hmac_nh = 6;   /* 7 when the reference supports HMAC over MD5-SHA1 */

static void
hmac_probe(void)
{
	unsigned char o[64];
	unsigned int ol = 0;
	HMAC_CTX *hx = HMAC_CTX_new();
	if (hx && HMAC_Init_ex(hx, "k", 1, HD[K_MD5SHA1].md, NULL) && HMAC_Update(hx, (const unsigned char *)"d", 1)
		&& HMAC_Final(hx, o, &ol) && ol == 36) g_hmac_nh = 7;
	HMAC_CTX_free(hx);
}

static void
part_hmac(long long cases)
{
	long long idx;

	hmac_probe();
	vf_stat("hmac_hashes", 0);
	for (idx = 0; idx < cases; idx ++) {
		vf_rng r;
		const hdesc *h;
		size_t klen, dlen, req, explen, cut[8], rl;
		unsigned char *key, *d, *o, e[64];
		br_hmac_key_context *kc;
		br_hmac_context *hc, *snap;
		int np, j, kcls, round;

		if (!MINE()) continue;
		case_rng(&r, PART_HMAC, idx);
		h = &HD[idx % g_hmac_nh];
		kcls = (int)((idx / g_hmac_nh) % 9);
		switch (kcls) {
		case 0: klen = 0; break;
		case 1: klen = 1; break;
		case 2: klen = h->bs - 1; break;
		case 3: klen = h->bs; break;
		case 4: klen = h->bs + 1; break;
		case 5: klen = 200; break;
		case 6: klen = h->hlen; break;
		case 7: klen = vf_below(&r, 300); break;
		default: klen = 256 + vf_below(&r, 300); break;
		}
		vf_distinct("config", "hmac/%s/key%d", h->name, kcls);
		key = xmalloc(klen);
		vf_bytes(&r, key, klen);
		kc = xmalloc(sizeof *kc);
		memset(kc, 0x11, sizeof *kc);
		br_hmac_key_init(kc, h->vt, key, klen);
		chki(M_HMACLEN, h->name, br_hmac_key_get_digest(kc) == h->vt, 1, "key_get_digest");
		hc = xmalloc(sizeof *hc);
		snap = xmalloc(sizeof *snap);
		for (round = 0; round < 2; round ++) {
			/* the key context is reused for the second round */
			req = (vf_below(&r, 5) < 3) ? 0 : vf_below(&r, (uint32_t)h->hlen + 6);
			explen = (req == 0 || req >= h->hlen) ? h->hlen : req;
			memset(hc, 0x22, sizeof *hc);
			br_hmac_init(hc, kc, req);
			chki(M_HMACLEN, h->name, (long long)br_hmac_size(hc), (long long)explen, "hmac_size req=%d", (int)req);
			chki(M_HMACLEN, h->name, br_hmac_get_digest(hc) == h->vt, 1, "get_digest");
			dlen = pick_len(&r, 600);
			d = xmalloc(dlen);
			vf_bytes(&r, d, dlen);
			np = 1 + (int)vf_below(&r, 4);
			mk_cuts(&r, dlen, np, cut);
			o = xmalloc(explen);
			for (j = 0; j < np; j ++) {
				unsigned char *p = vf_dup(d + cut[j], cut[j + 1] - cut[j]);
				if (vf_below(&r, 6) == 0) br_hmac_update(hc, NULL, 0);
				br_hmac_update(hc, p, cut[j + 1] - cut[j]);
				free(p);
				if (vf_below(&r, 3) == 0) {
					memcpy(snap, hc, sizeof *hc);
					rl = br_hmac_out(hc, o);
					ref_hmac(h, key, klen, d, cut[j + 1], e);
					chki(M_HMACLEN, h->name, (long long)rl, (long long)explen, "out-ret req=%d", (int)req);
					chk(M_HMAC, h->name, o, e, explen, "mid h=%s klen=%d key=%s prefix=%d dlen=%d data=%s", h->name, (int)klen, vf_hexs(key, klen), (int)cut[j + 1], (int)dlen, vf_hexs(d, dlen));
					chk(M_UNMOD, "hmac_out", hc, snap, sizeof *hc, "h=%s", h->name);
				}
			}
			rl = br_hmac_out(hc, o);
			ref_hmac(h, key, klen, d, dlen, e);
			chki(M_HMACLEN, h->name, (long long)rl, (long long)explen, "out-ret req=%d", (int)req);
			chk(M_HMAC, h->name, o, e, explen, "h=%s klen=%d key=%s req=%d np=%d dlen=%d data=%s", h->name, (int)klen, vf_hexs(key, klen), (int)req, np, (int)dlen, vf_hexs(d, dlen));
			if (idx < 2 && round == 0) vf_sample("{\"part\":\"hmac\",\"hash\":\"%s\",\"klen\":%d,\"dlen\":%d,\"mac\":\"%s\"}", h->name, (int)klen, (int)dlen, vf_hexs(o, explen));
			vf_stat("cases", 1);
			free(d); free(o);
		}
		free(key); free(kc); free(hc); free(snap);
	}
}

/* ================================================================== */
/* part hmacct: br_hmac_outCT == HMAC(data[0:len]) for all triples     */

static void
part_hmacct(long long mmax, long long cases, int nprefix)
{
	static const int exh_h[3] = { K_MD5, K_SHA1, K_SHA256 };
	static const int plist[] = { 13, 0, 64, 55, 80, 1, 56, 63, 77, 29 };
	int s, pi;
	long long idx, ntrip = 0;
	vf_rng r;

	if (nprefix > (int)(sizeof plist / sizeof plist[0])) nprefix = (int)(sizeof plist / sizeof plist[0]);
	/* exhaustive: every (min <= len <= max <= mmax) */
	for (s = 0; s < 3; s ++) for (pi = 0; pi < nprefix; pi ++) {
		const hdesc *h = &HD[exh_h[s]];
		unsigned char key[64], pre[80], D[700];
		unsigned char (*R)[64] = NULL;
		size_t klen, p = (size_t)plist[pi];
		br_hmac_key_context kc;
		br_hmac_context *hc = NULL, *snap = NULL;
		long long mx;

		case_rng(&r, PART_HMACCT, 5000000 + s * 100 + pi);
		klen = 16 + vf_below(&r, 49);
		vf_bytes(&r, key, klen);
		vf_bytes(&r, pre, sizeof pre);
		vf_bytes(&r, D, sizeof D);
		vf_distinct("config", "hmacct/exh/%s/prefix%d", h->name, (int)p);
		for (mx = 0; mx <= mmax; mx ++) {
			unsigned char *buf, *o;
			size_t len, mn;

			if (!MINE()) continue;
			if (R == NULL) {
				size_t i;
				R = xmalloc((size_t)(mmax + 1) * 64);
				for (i = 0; i <= (size_t)mmax; i ++) ref_hmac3(h, key, klen, pre, p, D, i, NULL, 0, R[i]);
				br_hmac_key_init(&kc, h->vt, key, klen);
				hc = xmalloc(sizeof *hc);
				snap = xmalloc(sizeof *snap);
				br_hmac_init(hc, &kc, 0);
				br_hmac_update(hc, pre, p);
				memcpy(snap, hc, sizeof *hc);
			}
			buf = vf_dup(D, (size_t)mx);
			o = xmalloc(h->hlen);
			for (len = 0; len <= (size_t)mx; len ++) {
				for (mn = 0; mn <= len; mn ++) {
					size_t rl = br_hmac_outCT(hc, buf, len, mn, (size_t)mx, o);
					if (rl != h->hlen) chki(M_HMACLEN, h->name, (long long)rl, (long long)h->hlen, "outCT-ret");
					chk(M_HMACCT, h->name, o, R[len], h->hlen, "exh h=%s prefix=%d min=%d len=%d max=%d klen=%d key=%s pre=%s data=%s", h->name, (int)p, (int)mn, (int)len, (int)mx,
						(int)klen, vf_hexs(key, klen), vf_hexs(pre, p), vf_hexs(D, (size_t)mx));
					ntrip ++;
				}
			}
			chk(M_UNMOD, "hmac_outCT", hc, snap, sizeof *hc, "h=%s", h->name);
			free(buf); free(o);
		}
		free(R); free(hc); free(snap);
	}

	/* sampled: all six hashes, prefix 0..80 (sometimes longer), max up to 3 blocks + 20 */
	for (idx = 0; idx < cases; idx ++) {
		const hdesc *h;
		unsigned char *key, *pre, *D, *buf, *o, e[64];
		size_t klen, p, mx, req, explen;
		br_hmac_key_context kc;
		br_hmac_context *hc, *snap;
		int t;

		if (!MINE()) continue;
		case_rng(&r, PART_HMACCT, idx);
		h = &HD[idx % 6];
		klen = (idx % 7 == 0) ? vf_below(&r, 300) : 16 + vf_below(&r, 49);
		key = xmalloc(klen); vf_bytes(&r, key, klen);
		p = (idx % 11 == 0) ? vf_below(&r, 400) : vf_below(&r, 81);
		pre = xmalloc(p); vf_bytes(&r, pre, p);
		mx = vf_below(&r, (uint32_t)(3 * h->bs + 21));
		if (idx % 13 == 0) mx = vf_below(&r, 1200);
		D = xmalloc(mx); vf_bytes(&r, D, mx);
		req = (vf_below(&r, 4) == 0) ? 1 + vf_below(&r, (uint32_t)h->hlen) : 0;
		explen = req ? req : h->hlen;
		br_hmac_key_init(&kc, h->vt, key, klen);
		hc = xmalloc(sizeof *hc); snap = xmalloc(sizeof *snap);
		br_hmac_init(hc, &kc, req);
		{
			/* prefix injected in one or two updates, as the record layer does */
			size_t c = vf_below(&r, (uint32_t)p + 1);
			br_hmac_update(hc, pre, c);
			br_hmac_update(hc, pre + c, p - c);
		}
		memcpy(snap, hc, sizeof *hc);
		buf = vf_dup(D, mx);
		o = xmalloc(explen);
		vf_distinct("config", "hmacct/rnd/%s", h->name);
		for (t = 0; t < 8; t ++) {
			size_t len = vf_below(&r, (uint32_t)mx + 1), mn, rl;
			if (t == 0) len = mx;
			if (t == 1) len = 0;
			mn = vf_below(&r, (uint32_t)len + 1);
			if (t == 2) mn = len;
			ref_hmac3(h, key, klen, pre, p, D, len, NULL, 0, e);
			memset(o, 0x6B, explen);
			rl = br_hmac_outCT(hc, buf, len, mn, mx, o);
			chki(M_HMACLEN, h->name, (long long)rl, (long long)explen, "outCT-ret req=%d", (int)req);
			chk(M_HMACCT, h->name, o, e, explen, "rnd h=%s prefix=%d min=%d len=%d max=%d req=%d klen=%d key=%s pre=%s data=%s", h->name, (int)p, (int)mn, (int)len, (int)mx, (int)req,
				(int)klen, vf_hexs(key, klen), vf_hexs(pre, p), vf_hexs(D, mx));
			ntrip ++;
		}
		chk(M_UNMOD, "hmac_outCT", hc, snap, sizeof *hc, "h=%s", h->name);
		/* the context still works normally afterwards */
		br_hmac_update(hc, D, mx);
		br_hmac_out(hc, o);
		ref_hmac3(h, key, klen, pre, p, D, mx, NULL, 0, e);
		chk(M_HMAC, h->name, o, e, explen, "after-outCT h=%s", h->name);
		if (idx < 2) vf_sample("{\"part\":\"hmacct\",\"hash\":\"%s\",\"prefix\":%d,\"max\":%d,\"mac_full\":\"%s\"}", h->name, (int)p, (int)mx, vf_hexs(o, explen));
		free(key); free(pre); free(D); free(buf); free(o); free(hc); free(snap);
	}
	/* record-sized arguments, as the CBC record layer calls it: max in [16384, 17500], min = max - {0, 1, 255, 256, 300}
	   (max - min = 256 + padding slack in TLS), len anywhere in [min, max], 13-byte pseudo-header already injected */
	{
		static const size_t dmin[5] = { 0, 1, 255, 256, 300 };
		long long nbig = cases >= 100000 ? 2000 : 200;
		for (idx = 0; idx < nbig; idx ++) {
			const hdesc *h;
			unsigned char key[64], pre[13], *D, *buf, *o, e[64];
			size_t klen, mx, mn, len, rl;
			br_hmac_key_context kc;
			br_hmac_context *hc, *snap;

			if (!MINE()) continue;
			case_rng(&r, PART_HMACCT, 7000000 + idx);
			h = &HD[idx % 6];
			klen = h->hlen > 48 ? 48 : h->hlen;       /* TLS MAC keys: 16 / 20 / 32 / 48 bytes */
			vf_bytes(&r, key, klen);
			vf_bytes(&r, pre, sizeof pre);
			mx = 16384 + vf_below(&r, 17500 - 16384 + 1);
			mn = mx - dmin[(idx / 6) % 5];
			switch ((idx / 30) % 4) {
			case 0: len = mn; break;
			case 1: len = mx; break;
			default: len = mn + vf_below(&r, (uint32_t)(mx - mn) + 1); break;
			}
			D = xmalloc(mx); vf_bytes(&r, D, mx);
			buf = vf_dup(D, mx);
			br_hmac_key_init(&kc, h->vt, key, klen);
			hc = xmalloc(sizeof *hc); snap = xmalloc(sizeof *snap);
			br_hmac_init(hc, &kc, 0);
			br_hmac_update(hc, pre, sizeof pre);
			memcpy(snap, hc, sizeof *hc);
			o = xmalloc(h->hlen);
			memset(o, 0x6B, h->hlen);
			ref_hmac3(h, key, klen, pre, sizeof pre, D, len, NULL, 0, e);
			rl = br_hmac_outCT(hc, buf, len, mn, mx, o);
			chki(M_HMACLEN, h->name, (long long)rl, (long long)h->hlen, "outCT-ret record-size");
			chk(M_HMACCT, h->name, o, e, h->hlen, "record-size h=%s case=%lld prefix=13 min=%d len=%d max=%d key=%s pre=%s (data = stream of the case)",
				h->name, idx, (int)mn, (int)len, (int)mx, vf_hexs(key, klen), vf_hexs(pre, sizeof pre));
			chk(M_UNMOD, "hmac_outCT", hc, snap, sizeof *hc, "h=%s", h->name);
			vf_distinct("config", "hmacct/record/%s/d%d", h->name, (int)(mx - mn));
			vf_stat("outct_record_size_triples", 1);
			ntrip ++;
			free(D); free(buf); free(o); free(hc); free(snap);
		}
	}
	vf_stat("cases", ntrip);
	vf_stat("outct_triples", ntrip);
}

/* ================================================================== */
/* part prf: TLS 1.0 / 1.2 PRF                                         */

/* P_hash(secret, lseed) XORed into out (RFC 2246 section 5, RFC 5246 section 5) */
static void
ref_phash(const hdesc *h, const unsigned char *sec, size_t slen,
	const unsigned char *ls, size_t lslen, unsigned char *out, size_t olen)
{
	unsigned char A[64], t[64];
	size_t i;
	ref_hmac(h, sec, slen, ls, lslen, A);
	while (olen > 0) {
		size_t c = olen < h->hlen ? olen : h->hlen;
		ref_hmac3(h, sec, slen, A, h->hlen, ls, lslen, NULL, 0, t);
		for (i = 0; i < c; i ++) out[i] ^= t[i];
		out += c; olen -= c;
		ref_hmac(h, sec, slen, A, h->hlen, t);
		memcpy(A, t, h->hlen);
	}
}

/* returns 1 if EVP produced a value */
static int
ref_prf_evp(const char *mdname, const unsigned char *sec, size_t slen,
	const unsigned char *label, size_t llen, const unsigned char *seed, size_t sdlen,
	unsigned char *out, size_t olen)
{
	EVP_KDF *kdf;
	EVP_KDF_CTX *kc;
	OSSL_PARAM pr[6], *p = pr;
	int ok;
	static unsigned char z = 0;

	if (olen == 0 || llen + sdlen > 1000) return 0;
	{
		static EVP_KDF *ckdf;
		if (!ckdf) ckdf = EVP_KDF_fetch(NULL, "TLS1-PRF", NULL);
		kdf = ckdf;
	}
	if (!kdf) return 0;
	kc = EVP_KDF_CTX_new(kdf);
	if (!kc) return 0;
	*p ++ = OSSL_PARAM_construct_utf8_string(OSSL_KDF_PARAM_DIGEST, (char *)mdname, 0);
	*p ++ = OSSL_PARAM_construct_octet_string(OSSL_KDF_PARAM_SECRET, slen ? (void *)sec : (void *)&z, slen);
	if (llen) *p ++ = OSSL_PARAM_construct_octet_string(OSSL_KDF_PARAM_SEED, (void *)label, llen);
	if (sdlen) *p ++ = OSSL_PARAM_construct_octet_string(OSSL_KDF_PARAM_SEED, (void *)seed, sdlen);
	*p = OSSL_PARAM_construct_end();
	ok = EVP_KDF_derive(kc, out, olen, pr) > 0;
	EVP_KDF_CTX_free(kc);
	return ok;
}

static void
part_prf(long long cases)
{
	long long idx;
	static const char *pn[3] = { "tls10", "tls12_sha256", "tls12_sha384" };
	static const br_tls_prf_impl pf[3] = { &br_tls10_prf, &br_tls12_sha256_prf, &br_tls12_sha384_prf };

	for (idx = 0; idx < cases; idx ++) {
		vf_rng r;
		int w, nch, j;
		size_t slen, llen, olen, sdlen, pos;
		unsigned char *sec, *seed, *dst, *e, *e2;
		char *label;
		br_tls_prf_seed_chunk ch[5];
		unsigned char *chd[5];
		unsigned char *ls;

		if (!MINE()) continue;
		case_rng(&r, PART_PRF, idx);
		w = (int)(idx % 3);
		slen = (size_t)((idx / 3) % 81);
		if (idx % 17 == 0) slen = 81 + vf_below(&r, 200);
		sec = xmalloc(slen); vf_bytes(&r, sec, slen);
		llen = (idx % 19 == 0) ? 0 : 1 + vf_below(&r, 30);
		label = xmalloc(llen + 1);
		for (j = 0; j < (int)llen; j ++) label[j] = (char)(0x20 + vf_below(&r, 0x5F));
		label[llen] = 0;
		nch = (idx % 23 == 0) ? 0 : ((idx % 29 == 0) ? 4 : 1 + (int)vf_below(&r, 3));
		sdlen = 0;
		for (j = 0; j < nch; j ++) {
			size_t cl = (vf_below(&r, 5) == 0) ? 0 : vf_below(&r, 100);
			chd[j] = xmalloc(cl);
			vf_bytes(&r, chd[j], cl);
			ch[j].data = (cl == 0 && vf_below(&r, 2)) ? NULL : chd[j];
			ch[j].len = cl;
			sdlen += cl;
		}
		seed = xmalloc(sdlen);
		for (j = 0, pos = 0; j < nch; j ++) { memcpy(seed + pos, chd[j], ch[j].len); pos += ch[j].len; }
		switch (vf_below(&r, 4)) {
		case 0: olen = vf_below(&r, 70); break;
		case 1: olen = (size_t)(idx % 1001); break;
		default: olen = vf_below(&r, 1001); break;
		}
		dst = xmalloc(olen);
		memset(dst, 0xD1, olen);
		pf[w](dst, olen, sec, slen, label, (size_t)nch, ch);

		/* reference from the RFC text */
		e = xmalloc(olen); e2 = xmalloc(olen);
		memset(e, 0, olen);
		ls = xmalloc(llen + sdlen);
		memcpy(ls, label, llen);
		memcpy(ls + llen, seed, sdlen);
		if (w == 0) {
			size_t half = (slen + 1) / 2;
			ref_phash(&HD[K_MD5], sec, half, ls, llen + sdlen, e, olen);
			ref_phash(&HD[K_SHA1], sec + slen - half, half, ls, llen + sdlen, e, olen);
		} else {
			ref_phash(&HD[w == 1 ? K_SHA256 : K_SHA384], sec, slen, ls, llen + sdlen, e, olen);
		}
		chk(M_PRF, pn[w], dst, e, olen, "prf=%s slen=%d secret=%s label=\"%s\" nchunks=%d seed=%s olen=%d", pn[w], (int)slen, vf_hexs(sec, slen), label, nch, vf_hexs(seed, sdlen), (int)olen);
		if (ref_prf_evp(w == 0 ? "MD5-SHA1" : (w == 1 ? "SHA256" : "SHA384"), sec, slen,
			(unsigned char *)label, llen, seed, sdlen, e2, olen)) {
			chk(M_PRF, pn[w], dst, e2, olen, "evp prf=%s slen=%d secret=%s label=\"%s\" nchunks=%d seed=%s olen=%d", pn[w], (int)slen, vf_hexs(sec, slen), label, nch, vf_hexs(seed, sdlen), (int)olen);
			vf_stat("prf_evp_checked", 1);
		} else {
			vf_stat("prf_evp_skipped", 1);
		}
		if (idx % 8 == 0) {
			unsigned char *d2 = xmalloc(olen);
			pf[w](d2, olen, sec, slen, label, (size_t)nch, ch);
			chk(M_DET, pn[w], d2, dst, olen, "prf rerun");
			free(d2);
		}
		vf_distinct("config", "prf/%s/chunks%d", pn[w], nch);
		if (idx < 3) vf_sample("{\"part\":\"prf\",\"prf\":\"%s\",\"slen\":%d,\"label\":\"%s\",\"chunks\":%d,\"olen\":%d,\"out\":\"%s\"}", pn[w], (int)slen, "(random ascii)", nch, (int)olen, vf_hexs(dst, olen > 24 ? 24 : olen));
		vf_stat("cases", 1);
		for (j = 0; j < nch; j ++) free(chd[j]);
		free(sec); free(label); free(seed); free(dst); free(e); free(e2); free(ls);
	}
}

/* ================================================================== */
/* part hkdf                                                          */

static size_t
ref_hkdf(const hdesc *h, const unsigned char *salt, size_t saltlen, int nosalt,
	const unsigned char *ikm, size_t ikmlen, const unsigned char *info, size_t infolen,
	unsigned char *out, size_t olen)
{
	unsigned char prk[64], T[64], zs[64];
	unsigned char *buf = xmalloc(h->hlen + infolen + 1);
	size_t done = 0, tl = 0;
	unsigned ctr = 0;

	if (nosalt) { memset(zs, 0, sizeof zs); salt = zs; saltlen = h->hlen; }
	ref_hmac(h, salt, saltlen, ikm, ikmlen, prk);
	while (done < olen && ctr < 255) {
		size_t c;
		ctr ++;
		memcpy(buf, T, tl);
		memcpy(buf + tl, info, infolen);
		buf[tl + infolen] = (unsigned char)ctr;
		ref_hmac(h, prk, h->hlen, buf, tl + infolen + 1, T);
		tl = h->hlen;
		c = olen - done < h->hlen ? olen - done : h->hlen;
		memcpy(out + done, T, c);
		done += c;
	}
	free(buf);
	return done;
}

static int
ref_hkdf_evp(const hdesc *h, const unsigned char *salt, size_t saltlen,
	const unsigned char *ikm, size_t ikmlen, const unsigned char *info, size_t infolen,
	unsigned char *out, size_t olen)
{
	EVP_KDF *kdf;
	EVP_KDF_CTX *kc;
	OSSL_PARAM pr[6], *p = pr;
	int ok;

	if (olen == 0 || ikmlen == 0 || infolen > 900) return 0;
	{
		static EVP_KDF *ckdf;
		if (!ckdf) ckdf = EVP_KDF_fetch(NULL, "HKDF", NULL);
		kdf = ckdf;
	}
	if (!kdf) return 0;
	kc = EVP_KDF_CTX_new(kdf);
	if (!kc) return 0;
	*p ++ = OSSL_PARAM_construct_utf8_string(OSSL_KDF_PARAM_DIGEST, (char *)EVP_MD_get0_name(h->md), 0);
	*p ++ = OSSL_PARAM_construct_octet_string(OSSL_KDF_PARAM_KEY, (void *)ikm, ikmlen);
	if (saltlen) *p ++ = OSSL_PARAM_construct_octet_string(OSSL_KDF_PARAM_SALT, (void *)salt, saltlen);
	if (infolen) *p ++ = OSSL_PARAM_construct_octet_string(OSSL_KDF_PARAM_INFO, (void *)info, infolen);
	*p = OSSL_PARAM_construct_end();
	ok = EVP_KDF_derive(kc, out, olen, pr) > 0;
	EVP_KDF_CTX_free(kc);
	return ok;
}

static void
part_hkdf(long long cases)
{
	long long idx;

	for (idx = 0; idx < cases; idx ++) {
		vf_rng r;
		const hdesc *h;
		int scls, np, onp, j, over, limit_hit;
		size_t saltlen, ikmlen, infolen, olen, cut[8], ocut[8], got, explen, lim;
		unsigned char *salt, *ikm, *info, *o, *e, *e2;
		br_hkdf_context *hc;

		if (!MINE()) continue;
		case_rng(&r, PART_HKDF, idx);
		h = &HD[idx % 6];
		scls = (int)((idx / 6) % 5);
		switch (scls) {
		case 0: saltlen = 0; break;                      /* absent salt */
		case 1: saltlen = 0; break;                      /* empty salt */
		case 2: saltlen = h->hlen; break;
		case 3: saltlen = h->bs + 1 + vf_below(&r, 100); break;
		default: saltlen = 1 + vf_below(&r, 200); break;
		}
		salt = xmalloc(saltlen); vf_bytes(&r, salt, saltlen);
		ikmlen = (idx % 31 == 0) ? 0 : pick_len(&r, 300);
		ikm = xmalloc(ikmlen); vf_bytes(&r, ikm, ikmlen);
		infolen = (idx % 7 == 0) ? 0 : vf_below(&r, 100);
		info = xmalloc(infolen); vf_bytes(&r, info, infolen);
		lim = 255 * h->hlen;
		over = (idx % 41 == 5);
		olen = (idx & 1) ? (size_t)(idx % 1001) : vf_below(&r, 1001);
		if (idx % 47 == 9) olen = lim + vf_below(&r, 100);   /* one call over the limit */
		explen = olen > lim ? lim : olen;
		vf_distinct("config", "hkdf/%s/salt%d%s", h->name, scls, over ? "/limit" : "");

		hc = xmalloc(sizeof *hc);
		memset(hc, 0x42, sizeof *hc);
		br_hkdf_init(hc, h->vt, scls == 0 ? BR_HKDF_NO_SALT : salt, saltlen);
		np = 1 + (int)vf_below(&r, 4);
		mk_cuts(&r, ikmlen, np, cut);
		for (j = 0; j < np; j ++) {
			unsigned char *p = vf_dup(ikm + cut[j], cut[j + 1] - cut[j]);
			br_hkdf_inject(hc, p, cut[j + 1] - cut[j]);
			free(p);
		}
		br_hkdf_flip(hc);
		onp = 1 + (int)vf_below(&r, 5);
		mk_cuts(&r, olen, onp, ocut);
		if (over) {
			/* first call stops short of the limit, second reaches or crosses it,
			   third asks for more after the limit was signalled */
			size_t d = vf_below(&r, 41), x = vf_below(&r, 51), y = 1 + vf_below(&r, 40);
			onp = 3;
			ocut[0] = 0; ocut[1] = lim - d; ocut[2] = lim + x; ocut[3] = lim + x + y;
			olen = ocut[3];
			explen = lim;
		}
		o = xmalloc(olen);
		memset(o, 0x8E, olen);
		got = 0;
		limit_hit = 0;
		for (j = 0; j < onp; j ++) {
			size_t l = ocut[j + 1] - ocut[j], rl, ex;
			unsigned char *q = xmalloc(l);
			unsigned char *inf = vf_dup(info, infolen);
			rl = br_hkdf_produce(hc, inf, infolen, q, l);
			if (limit_hit) {
				/* the documented total is 255*hlen: nothing more may come out */
				chki(M_HKDFLIM, "output-after-limit", (long long)rl, 0, "h=%s limit=%d already produced=%d, asked %d more after a short return", h->name, (int)lim, (int)got, (int)l);
				free(q); free(inf);
				continue;
			}
			ex = l < lim - got ? l : lim - got;
			chki(M_HKDFLEN, h->name, (long long)rl, (long long)ex, "produce-ret h=%s call=%d asked=%d before=%d limit=%d", h->name, j, (int)l, (int)got, (int)lim);
			if (rl > l) rl = l;
			if (got + rl > olen) rl = olen - got;
			memcpy(o + got, q, rl);
			got += rl;
			if (l > ex) limit_hit = 1;
			free(q); free(inf);
		}
		chki(M_HKDFLEN, h->name, (long long)got, (long long)explen, "total h=%s requested=%d limit=%d", h->name, (int)olen, (int)lim);
		e = xmalloc(olen); e2 = xmalloc(olen);
		ref_hkdf(h, salt, saltlen, scls == 0, ikm, ikmlen, info, infolen, e, olen);
		chk(M_HKDF, h->name, o, e, explen < got ? explen : got, "h=%s salt=%s(%s) ikm=%s info=%s olen=%d np=%d onp=%d", h->name,
			scls == 0 ? "absent" : "given", vf_hexs(salt, saltlen), vf_hexs(ikm, ikmlen), vf_hexs(info, infolen), (int)olen, np, onp);
		if (ref_hkdf_evp(h, salt, saltlen, ikm, ikmlen, info, infolen, e2, explen)) {
			chk(M_HKDF, h->name, o, e2, explen < got ? explen : got, "evp h=%s salt=%s(%s) ikm=%s info=%s olen=%d", h->name,
				scls == 0 ? "absent" : "given", vf_hexs(salt, saltlen), vf_hexs(ikm, ikmlen), vf_hexs(info, infolen), (int)olen);
			vf_stat("hkdf_evp_checked", 1);
		} else {
			vf_stat("hkdf_evp_skipped", 1);
		}
		if (idx < 2) vf_sample("{\"part\":\"hkdf\",\"hash\":\"%s\",\"saltlen\":%d,\"ikmlen\":%d,\"infolen\":%d,\"olen\":%d,\"okm\":\"%s\"}", h->name, (int)saltlen, (int)ikmlen, (int)infolen, (int)olen, vf_hexs(o, got > 24 ? 24 : got));
		vf_stat("cases", 1);
		free(salt); free(ikm); free(info); free(o); free(e); free(e2); free(hc);
	}
}

/* ================================================================== */
/* part mgf1                                                          */

static void
part_mgf1(long long cases)
{
	long long idx;

	for (idx = 0; idx < cases; idx ++) {
		vf_rng r;
		const hdesc *h;
		size_t slen, len, i;
		unsigned char *seed, *data, *orig, *mask;

		if (!MINE()) continue;
		case_rng(&r, PART_MGF1, idx);
		h = &HD[idx % NHASH];
		slen = (idx % 9 == 0) ? 0 : vf_below(&r, 200);
		len = (idx & 1) ? (size_t)(idx % 1001) : vf_below(&r, 1001);
		seed = xmalloc(slen); vf_bytes(&r, seed, slen);
		orig = xmalloc(len); vf_bytes(&r, orig, len);
		data = vf_dup(orig, len);
		mask = xmalloc(len);
		br_mgf1_xor(data, len, h->vt, seed, slen);
		if (len > 0) {
			static unsigned char z = 0;
			if (PKCS1_MGF1(mask, (long)len, slen ? seed : &z, (long)slen, h->md) != 0) hfail("PKCS1_MGF1");
			for (i = 0; i < len; i ++) mask[i] ^= orig[i];
		}
		chk(M_MGF1, h->name, data, mask, len, "h=%s seed=%s len=%d", h->name, vf_hexs(seed, slen), (int)len);
		vf_distinct("config", "mgf1/%s", h->name);
		if (idx < 2) vf_sample("{\"part\":\"mgf1\",\"hash\":\"%s\",\"seedlen\":%d,\"len\":%d}", h->name, (int)slen, (int)len);
		vf_stat("cases", 1);
		free(seed); free(data); free(orig); free(mask);
	}
	/* more than 256 blocks of output: the 32-bit block counter carries out of its low byte.
	   Lengths 256*hlen + {-1, 0, 1, hlen+1} (and 512*hlen+1 for MD5 / SHA-1) for every function */
	for (idx = 0; idx < 6 * 5; idx ++) {
		static const int dl[4] = { -1, 0, 1, 0 };
		vf_rng r;
		const hdesc *h = &HD[idx % 6];
		int v = (int)(idx / 6);
		size_t slen, len, i;
		unsigned char *seed, *data, *orig, *mask;

		if (!MINE()) continue;
		if (v == 4 && h->hlen > 20) continue;
		case_rng(&r, PART_MGF1, 9000000 + idx);
		len = v == 4 ? 512 * h->hlen + 1 : v == 3 ? 257 * h->hlen + 1 : (size_t)((long)(256 * h->hlen) + dl[v]);
		slen = (idx & 1) ? h->hlen : vf_below(&r, 200);
		seed = xmalloc(slen); vf_bytes(&r, seed, slen);
		orig = xmalloc(len); vf_bytes(&r, orig, len);
		data = vf_dup(orig, len);
		mask = xmalloc(len);
		br_mgf1_xor(data, len, h->vt, seed, slen);
		{
			static unsigned char z = 0;
			if (PKCS1_MGF1(mask, (long)len, slen ? seed : &z, (long)slen, h->md) != 0) hfail("PKCS1_MGF1");
			for (i = 0; i < len; i ++) mask[i] ^= orig[i];
		}
		/* the interesting bytes are the last ones: compare the tail first so that the report shows it */
		if (chk(M_MGF1, h->name, data + len - (h->hlen + 2), mask + len - (h->hlen + 2), h->hlen + 2, "long-tail h=%s seed=%s len=%d", h->name, vf_hexs(seed, slen), (int)len))
			chk(M_MGF1, h->name, data, mask, len, "long h=%s seed=%s len=%d", h->name, vf_hexs(seed, slen), (int)len);
		vf_distinct("config", "mgf1/%s/long%d", h->name, v);
		vf_stat("mgf1_over_256_blocks", 1);
		vf_stat("cases", 1);
		free(seed); free(data); free(orig); free(mask);
	}
}

/* ================================================================== */
/* part hdrbg: HMAC_DRBG (SP 800-90A rev.1, 10.1.2), no reseed counter  */

typedef struct { unsigned char K[64], V[64]; const hdesc *h; } ref_hdrbg;

static void
ref_hdrbg_update(ref_hdrbg *d, const unsigned char *data, size_t len)
{
	size_t hl = d->h->hlen;
	unsigned char sep = 0x00, t[64];
	ref_hmac3(d->h, d->K, hl, d->V, hl, &sep, 1, data, len, t);
	memcpy(d->K, t, hl);
	ref_hmac(d->h, d->K, hl, d->V, hl, t);
	memcpy(d->V, t, hl);
	if (len == 0) return;
	sep = 0x01;
	ref_hmac3(d->h, d->K, hl, d->V, hl, &sep, 1, data, len, t);
	memcpy(d->K, t, hl);
	ref_hmac(d->h, d->K, hl, d->V, hl, t);
	memcpy(d->V, t, hl);
}

static void
ref_hdrbg_init(ref_hdrbg *d, const hdesc *h, const unsigned char *seed, size_t len)
{
	d->h = h;
	memset(d->K, 0x00, sizeof d->K);
	memset(d->V, 0x01, sizeof d->V);
	ref_hdrbg_update(d, seed, len);
}

static void
ref_hdrbg_generate(ref_hdrbg *d, unsigned char *out, size_t len)
{
	size_t hl = d->h->hlen;
	unsigned char t[64];
	while (len > 0) {
		size_t c = len < hl ? len : hl;
		ref_hmac(d->h, d->K, hl, d->V, hl, t);
		memcpy(d->V, t, hl);
		memcpy(out, t, c);
		out += c; len -= c;
	}
	ref_hdrbg_update(d, NULL, 0);
}

static void
part_hdrbg(long long cases)
{
	long long idx;
	int nh;

	hmac_probe();
	nh = g_hmac_nh;
	for (idx = 0; idx < cases; idx ++) {
		vf_rng r;
		const hdesc *h;
		br_hmac_drbg_context *dc, *dc2;
		ref_hdrbg rd;
		unsigned char *seed;
		size_t slen;
		int nops, j, viavt;
		char trace[400];
		size_t tp = 0;

		if (!MINE()) continue;
		case_rng(&r, PART_HDRBG, idx);
		h = &HD[idx % nh];
		slen = (idx % 13 == 0) ? 0 : vf_below(&r, 120);
		seed = xmalloc(slen); vf_bytes(&r, seed, slen);
		dc = xmalloc(sizeof *dc); dc2 = xmalloc(sizeof *dc2);
		memset(dc, 0x37, sizeof *dc);
		viavt = (int)(idx & 1);
		if (viavt) br_hmac_drbg_vtable.init(&dc->vtable, h->vt, seed, slen);
		else br_hmac_drbg_init(dc, h->vt, seed, slen);
		br_hmac_drbg_init(dc2, h->vt, seed, slen);
		chki(M_HDRBG, h->name, br_hmac_drbg_get_hash(dc) == h->vt, 1, "get_hash");
		ref_hdrbg_init(&rd, h, seed, slen);
		nops = 1 + (int)vf_below(&r, 6);
		trace[0] = 0;
		for (j = 0; j < nops; j ++) {
			if (vf_below(&r, 3) == 0) {
				size_t ul = (vf_below(&r, 4) == 0) ? 0 : vf_below(&r, 120);
				unsigned char *u = xmalloc(ul);
				vf_bytes(&r, u, ul);
				if (viavt) dc->vtable->update(&dc->vtable, u, ul); else br_hmac_drbg_update(dc, u, ul);
				br_hmac_drbg_update(dc2, u, ul);
				ref_hdrbg_update(&rd, u, ul);
				tp += (size_t)snprintf(trace + tp, sizeof trace - tp, "U%d:%s,", (int)ul, vf_hexs(u, ul > 8 ? 8 : ul));
				free(u);
			} else {
				size_t gl = (vf_below(&r, 3) == 0) ? vf_below(&r, 70) : vf_below(&r, 1001);
				unsigned char *o = xmalloc(gl), *o2 = xmalloc(gl), *e = xmalloc(gl);
				memset(o, 0x19, gl);
				if (viavt) dc->vtable->generate(&dc->vtable, o, gl); else br_hmac_drbg_generate(dc, o, gl);
				br_hmac_drbg_generate(dc2, o2, gl);
				ref_hdrbg_generate(&rd, e, gl);
				tp += (size_t)snprintf(trace + tp, sizeof trace - tp, "G%d,", (int)gl);
				chk(M_HDRBG, h->name, o, e, gl, "h=%s seed=%s ops=%s (op %d)", h->name, vf_hexs(seed, slen), trace, j);
				chk(M_DET, "hmac_drbg", o2, o, gl, "h=%s second instance differs", h->name);
				if (idx < 2 && gl > 0) vf_sample("{\"part\":\"hdrbg\",\"hash\":\"%s\",\"seedlen\":%d,\"ops\":\"%s\",\"out\":\"%s\"}", h->name, (int)slen, trace, vf_hexs(o, gl > 16 ? 16 : gl));
				free(o); free(o2); free(e);
			}
			if (tp > sizeof trace - 40) tp = sizeof trace - 40;
		}
		vf_distinct("config", "hdrbg/%s", h->name);
		vf_stat("cases", 1);
		free(seed); free(dc); free(dc2);
	}
}

/* ================================================================== */
/* part adrbg: AESCTR_DRBG as described in bearssl_rand.h               */

static void
ref_aes(const unsigned char *key, size_t klen, const unsigned char *in, unsigned char *out)
{
	EVP_CIPHER_CTX *c = EVP_CIPHER_CTX_new();
	int ol = 0;
	unsigned char tmp[32];
	if (!c || !EVP_EncryptInit_ex(c, klen == 16 ? EVP_aes_128_ecb() : EVP_aes_256_ecb(), NULL, key, NULL)
		|| !EVP_CIPHER_CTX_set_padding(c, 0)
		|| !EVP_EncryptUpdate(c, tmp, &ol, in, 16) || ol != 16) hfail("evp-aes");
	memcpy(out, tmp, 16);
	EVP_CIPHER_CTX_free(c);
}

typedef struct { unsigned char K[16]; uint32_t cc; EVP_CIPHER_CTX *ecb; } ref_adrbg;
static unsigned char g_hinit = 0x5A;   /* calibrated: the header leaves the constant open */

static void
ref_adrbg_rekey(ref_adrbg *d)
{
	if (!d->ecb) d->ecb = EVP_CIPHER_CTX_new();
	if (!d->ecb || !EVP_EncryptInit_ex(d->ecb, EVP_aes_128_ecb(), NULL, d->K, NULL)
		|| !EVP_CIPHER_CTX_set_padding(d->ecb, 0)) hfail("evp-aes128");
	d->cc = 0;
}

static void
ref_adrbg_update(ref_adrbg *d, const unsigned char *seed, size_t len)
{
	unsigned char s[16], G[16], H[16], ones[16], m[16], key[32], x[16], eg[16], eh[16];
	int first = 1, i;
	memset(ones, 0xFF, 16);
	ref_aes(d->K, 16, ones, s);
	memset(G, 0xB6, 16);
	memset(H, g_hinit, 16);
	for (;;) {
		if (first) { memcpy(m, s, 16); first = 0; }
		else {
			size_t c;
			if (len == 0) break;
			c = len < 16 ? len : 16;
			memset(m, 0, 16);
			memcpy(m, seed, c);
			seed += c; len -= c;
		}
		memcpy(key, H, 16); memcpy(key + 16, m, 16);
		ref_aes(key, 32, G, eg);
		memcpy(x, G, 16); x[0] ^= 0x01;
		ref_aes(key, 32, x, eh);
		for (i = 0; i < 16; i ++) { H[i] = eh[i] ^ x[i]; }
		for (i = 0; i < 16; i ++) { G[i] = eg[i] ^ G[i]; }
	}
	memcpy(d->K, H, 16);
	ref_adrbg_rekey(d);
}

static void
ref_adrbg_init(ref_adrbg *d, const unsigned char *seed, size_t len)
{
	memset(d->K, 0, 16);
	d->ecb = NULL;
	ref_adrbg_rekey(d);
	ref_adrbg_update(d, seed, len);
}

static void
ref_adrbg_generate(ref_adrbg *d, unsigned char *out, size_t len)
{
	while (len > 0) {
		unsigned char blk[16], ks[16];
		size_t c = len < 16 ? len : 16;
		int ol = 0;
		memset(blk, 0, 12);
		blk[12] = (unsigned char)(d->cc >> 24); blk[13] = (unsigned char)(d->cc >> 16);
		blk[14] = (unsigned char)(d->cc >> 8); blk[15] = (unsigned char)d->cc;
		if (!EVP_EncryptUpdate(d->ecb, ks, &ol, blk, 16) || ol != 16) hfail("evp-aes-run");
		memcpy(out, ks, c);
		out += c; len -= c;
		d->cc ++;
		if (d->cc == 32768) ref_adrbg_update(d, NULL, 0);
	}
}

static void
part_adrbg(long long cases, long long bigcases)
{
	const br_block_ctr_class *impl[5];
	const char *iname[5];
	int ni = 0, i;
	long long idx;

	impl[ni] = &br_aes_big_ctr_vtable; iname[ni ++] = "big";
	impl[ni] = &br_aes_small_ctr_vtable; iname[ni ++] = "small";
	impl[ni] = &br_aes_ct_ctr_vtable; iname[ni ++] = "ct";
	impl[ni] = &br_aes_ct64_ctr_vtable; iname[ni ++] = "ct64";
	if (br_aes_x86ni_ctr_get_vtable() != NULL) { impl[ni] = br_aes_x86ni_ctr_get_vtable(); iname[ni ++] = "x86ni"; }
	vf_max("aesctr_impls", ni);

	/* calibration of the one constant the header does not fix (the comment in
	   aesctr_drbg.c says A5, the code uses 5A): which one reproduces the output? */
	{
		br_aesctr_drbg_context dc;
		ref_adrbg rd;
		unsigned char o[16], e[16];
		int found = 0;
		br_aesctr_drbg_init(&dc, impl[0], NULL, 0);
		br_aesctr_drbg_generate(&dc, o, 16);
		g_hinit = 0xA5; ref_adrbg_init(&rd, NULL, 0); ref_adrbg_generate(&rd, e, 16);
		if (memcmp(o, e, 16) == 0) { found = 1; vf_distinct("aesctr_hinit", "A5"); }
		else {
			g_hinit = 0x5A; ref_adrbg_init(&rd, NULL, 0); ref_adrbg_generate(&rd, e, 16);
			if (memcmp(o, e, 16) == 0) { found = 1; vf_distinct("aesctr_hinit", "5A"); }
		}
		if (!found) {
			ncmp[M_ADRBG] ++;
			vf_viol("C13:aesctr_drbg:calibration", "output for the empty seed matches the documented construction with neither H_init=A5 nor 5A", "part=adrbg got=%s", vf_hexs(o, 16));
		}
	}

	for (idx = 0; idx < cases + bigcases; idx ++) {
		vf_rng r;
		br_aesctr_drbg_context *dc[5];
		ref_adrbg rd;
		unsigned char *seed;
		size_t slen;
		int nops, j, big = idx >= cases;
		int taint = 0, aligned_only = (int)((idx >> 1) & 1);
		int limit_case = idx >= cases && ((idx - cases) & 1), limit_k = (int)(((idx - cases) >> 1) % 6);
		char trace[400], cls[48];
		size_t tp = 0;

		if (!MINE()) continue;
		case_rng(&r, PART_ADRBG, idx);
		slen = (idx % 11 == 0) ? 0 : ((idx % 5 == 0) ? 16 * (1 + vf_below(&r, 4)) : vf_below(&r, 100));
		seed = xmalloc(slen); vf_bytes(&r, seed, slen);
		for (i = 0; i < ni; i ++) {
			dc[i] = xmalloc(sizeof **dc);
			memset(dc[i], 0x4D, sizeof **dc);
			if ((idx + i) & 1) br_aesctr_drbg_vtable.init(&dc[i]->vtable, impl[i], slen ? seed : NULL, slen);
			else br_aesctr_drbg_init(dc[i], impl[i], slen ? seed : NULL, slen);
		}
		ref_adrbg_init(&rd, seed, slen);
		nops = 1 + (int)vf_below(&r, 6);
		if (limit_case) { aligned_only = 0; if (nops < 3) nops = 3; }
		trace[0] = 0;
		for (j = 0; j < nops; j ++) {
			if (vf_below(&r, 3) == 0 && !(limit_case && j < 2)) {
				size_t ul = (vf_below(&r, 4) == 0) ? 0 : vf_below(&r, 100);
				unsigned char *u = xmalloc(ul);
				vf_bytes(&r, u, ul);
				for (i = 0; i < ni; i ++) {
					if ((idx + i) & 1) dc[i]->vtable->update(&dc[i]->vtable, ul ? u : NULL, ul);
					else br_aesctr_drbg_update(dc[i], ul ? u : NULL, ul);
				}
				ref_adrbg_update(&rd, u, ul);
				taint = 0;   /* update() rekeys and resets the counter */
				tp += (size_t)snprintf(trace + tp, sizeof trace - tp, "U%d:%s,", (int)ul, vf_hexs(u, ul > 8 ? 8 : ul));
				free(u);
			} else {
				size_t gl = (vf_below(&r, 3) == 0) ? vf_below(&r, 70) : vf_below(&r, 1001);
				unsigned char *o0 = NULL, *e;
				if (big && j == 0) gl = 32768 * 16 - vf_below(&r, 64) + vf_below(&r, 2) * (16 + vf_below(&r, 200));
				if (big && j == 1) gl = 70000 + vf_below(&r, 3000);
				/* every second forced-update case: the request that ends one partial block beyond the counter limit: after
				   32768 - k blocks, 16k + r bytes are asked for (k = 0..5, 0 < r < 16) */
				if (limit_case && j == 0) gl = (size_t)(32768 - limit_k) * 16;
				if (limit_case && j == 1) { gl = 16 * (size_t)limit_k + 1 + vf_below(&r, 15); vf_stat("adrbg_partial_block_at_limit", 1); vf_distinct("adrbg_limit_k", "%d", limit_k); }
				if (aligned_only) gl &= ~(size_t)15;
				e = xmalloc(gl);
				ref_adrbg_generate(&rd, e, gl);
				tp += (size_t)snprintf(trace + tp, sizeof trace - tp, "G%d,", (int)gl);
				for (i = 0; i < ni; i ++) {
					unsigned char *o = xmalloc(gl);
					/* class: requests that follow a request whose length was not a
					   multiple of 16 are keyed separately */
					snprintf(cls, sizeof cls, "%s%s", iname[i], taint ? "-after-partial-block" : "");
					memset(o, 0x19, gl);
					if ((idx + i) & 1) dc[i]->vtable->generate(&dc[i]->vtable, o, gl);
					else br_aesctr_drbg_generate(dc[i], o, gl);
					if (gl > 64) {
						/* report only the first differing 64-byte window */
						size_t k = 0;
						while (k + 64 < gl && memcmp(o + k, e + k, 64) == 0) k += 64;
						chk(M_ADRBG, cls, o + k, e + k, gl - k > 64 ? 64 : gl - k, "impl=%s seed=%s ops=%s (op %d, offset %d)", iname[i], vf_hexs(seed, slen), trace, j, (int)k);
						if (memcmp(o, e, gl) != 0 && memcmp(o + k, e + k, gl - k > 64 ? 64 : gl - k) == 0) hfail("window");
					} else {
						chk(M_ADRBG, cls, o, e, gl, "impl=%s seed=%s ops=%s (op %d)", iname[i], vf_hexs(seed, slen), trace, j);
					}
					if (i == 0) o0 = o;
					else {
						ncmp[M_ADRBG_X] ++;
						if (memcmp(o, o0, gl) != 0) chk(M_ADRBG_X, cls, o, o0, gl > 64 ? 64 : gl, "impl=%s differs from big; seed=%s ops=%s", iname[i], vf_hexs(seed, slen), trace);
						free(o);
					}
				}
				if (gl & 15) taint = 1;
				if (idx < 2 && gl > 0) vf_sample("{\"part\":\"adrbg\",\"seedlen\":%d,\"ops\":\"%s\",\"out\":\"%s\"}", (int)slen, trace, vf_hexs(o0, gl > 16 ? 16 : gl));
				free(o0); free(e);
			}
			if (tp > sizeof trace - 40) tp = sizeof trace - 40;
		}
		vf_distinct("config", "adrbg/%s%s", big ? "forced-update" : "short", aligned_only ? "/whole-blocks" : "/any-length");
		vf_stat("cases", 1);
		if (big) vf_stat("adrbg_forced_update_cases", 1);
		EVP_CIPHER_CTX_free(rd.ecb);
		free(seed);
		for (i = 0; i < ni; i ++) free(dc[i]);
	}
	for (i = 0; i < ni; i ++) vf_distinct("config", "adrbg/impl-%s", iname[i]);
}

/* ================================================================== */
/* part misc: OIDs and digest sizes                                    */

static void
part_misc(void)
{
	static const int nid[7] = { 0, NID_md5, NID_sha1, NID_sha224, NID_sha256, NID_sha384, NID_sha512 };
	int id;

	if (g_worker != 0) return;
	for (id = 1; id <= 6; id ++) {
		const ASN1_OBJECT *ob = OBJ_nid2obj(nid[id]);
		size_t len = 12345;
		const unsigned char *oid = br_digest_OID(id, &len);
		if (!ob) hfail("obj");
		chki(M_OID, HD[id - 1].name, (long long)len, (long long)OBJ_length(ob), "oid-length id=%d", id);
		if (oid && len == OBJ_length(ob)) chk(M_OID, HD[id - 1].name, oid, OBJ_get0_data(ob), len, "oid-bytes id=%d", id);
		else chki(M_OID, HD[id - 1].name, oid != NULL, 1, "oid-null id=%d", id);
		chki(M_OID, HD[id - 1].name, (long long)br_digest_size_by_ID(id), (long long)HD[id - 1].hlen, "size-by-id id=%d", id);
		vf_distinct("config", "misc/oid/%s", HD[id - 1].name);
	}
	{
		size_t len = 12345;
		const unsigned char *oid = br_digest_OID(br_md5sha1_ID, &len);
		chki(M_OID, "md5sha1", oid == NULL && len == 0, 1, "md5sha1 has no OID");
		chki(M_OID, "md5sha1", (long long)br_digest_size_by_ID(br_md5sha1_ID), 36, "size-by-id md5sha1");
		len = 12345;
		oid = br_digest_OID(7, &len);
		chki(M_OID, "unknown", oid == NULL && len == 0, 1, "id 7 has no OID");
	}
	vf_stat("cases", 8);
}

/* ================================================================== */

int
main(int argc, char **argv)
{
	long long cases, nexh, k;

	g_part = vf_arg(argc, argv, "--part", "hash");
	g_seed = vf_argi(argc, argv, "--seed", 1);
	g_worker = (int)vf_argi(argc, argv, "--worker", 0);
	g_nworkers = (int)vf_argi(argc, argv, "--nworkers", 1);
	cases = vf_argi(argc, argv, "--cases", 100);
	nexh = vf_argi(argc, argv, "--nexh", 64);
	k = vf_argi(argc, argv, "--k", 2);
	if (g_nworkers < 1 || g_worker < 0 || g_worker >= g_nworkers) hfail("args");
	hd_setup();

	if (!strcmp(g_part, "hash")) part_hash(nexh, k);
	else if (!strcmp(g_part, "state")) part_state(k < 1 ? 1 : k);
	else if (!strcmp(g_part, "inject")) part_inject(cases);
	else if (!strcmp(g_part, "multi")) part_multi(nexh, cases, (int)k);
	else if (!strcmp(g_part, "shake")) part_shake(cases, (int)k);
	else if (!strcmp(g_part, "hmac")) part_hmac(cases);
	else if (!strcmp(g_part, "hmacct")) part_hmacct(nexh, cases, (int)k);
	else if (!strcmp(g_part, "prf")) part_prf(cases);
	else if (!strcmp(g_part, "hkdf")) part_hkdf(cases);
	else if (!strcmp(g_part, "mgf1")) part_mgf1(cases);
	else if (!strcmp(g_part, "hdrbg")) part_hdrbg(cases);
	else if (!strcmp(g_part, "adrbg")) part_adrbg(cases, k);
	else if (!strcmp(g_part, "misc")) part_misc();
	else hfail("unknown-part");

	flush_counters();
	vf_done();
	return 0;
}
