/*
 * C02: fault enumeration on the protected record stream. After a clean
 * handshake the receiver is snapshotted; the sender's records are recorded;
 * then every single-bit flip of every record, every record-level edit and a
 * family of forged records (recforge) are replayed against the restored
 * receiver. Oracle: delivered bytes are a prefix of what was sent and never
 * include anything from the first touched record onwards; the engine fails
 * (CLOSED, error != 0) once a touched record has been received in full.
 */
#include "tlsmon.h"

typedef struct { const tp_suite_info *s; unsigned version; } sv_pair;
static sv_pair sv[200];
static int nsv;

#define MAXREC 64
typedef struct {
	size_t woff, wlen;     /* position and length (with header) in the wire stream */
	size_t poff, plen;     /* plaintext offset and length */
} recinfo;

static tp_pair P;
static tm_pairmon PM;
static recinfo recs[MAXREC];
static int nrecs;
static unsigned char wire[1 << 17];
static size_t wire_len;
static int sender_dir;            /* 0: client sends, server receives */
static size_t plain_total;
static size_t plain_base;          /* application bytes the receiver had already been given when the recording started */
static tp_ep *RX;
static tp_snap rx_snap;
static tp_fifo sink;
static int collecting;
static int scen;                  /* 0: records right after the handshake; 1: after a renegotiation (second epoch); 2: the receiver has asked
                                     for closure before the records arrive; 3: the stream ends with the sender's close_notify */

static void
rec_hook(void *arg, const rm_record *r, const unsigned char *plain)
{
	(void)arg; (void)plain;
	if (!collecting || r->dir != sender_dir) return;
	if (nrecs >= MAXREC) return;
	recs[nrecs].wlen = r->wire_len + 5;
	recs[nrecs].woff = nrecs ? recs[nrecs - 1].woff + recs[nrecs - 1].wlen : 0;
	recs[nrecs].plen = r->type == 23 ? r->plain_len : 0;
	recs[nrecs].poff = nrecs ? recs[nrecs - 1].poff + recs[nrecs - 1].plen : 0;
	nrecs ++;
}

static long long n_faults, n_rejected, n_waiting, n_accepted_ok;
static uint64_t far_delta;        /* feed(): the receiver's record counter is moved forward by this much after the restore */
static int cur_enc;

static uint64_t *
seq_field_in(br_ssl_engine_context *e, int enc)
{
	if (enc <= 2) return &e->in.cbc.seq;
	if (enc == 9) return &e->in.chapol.seq;
	if (enc >= 5 && enc <= 8) return &e->in.ccm.seq;
	return &e->in.gcm.seq;
}
static char fault_desc[300];
static char base_case[600];

/*
 * Feed a byte stream to the restored receiver, reading application data as
 * it appears. Returns delivered length; *consumed = bytes the engine took.
 * fail_by: if >= 0, the engine must be closed with an error once that many
 * stream bytes have been consumed (checked when that point is crossed).
 */
static unsigned char delivered[1 << 16];

static size_t
feed(const unsigned char *stream, size_t len, int chunk_policy, vf_rng *r,
	size_t *consumed, size_t fail_by, int *failed_in_time)
{
	size_t off = 0, dl = 0;
	int guard = 0;
	*failed_in_time = 1;
	tp_snap_restore(&rx_snap, RX);
	if (far_delta) *seq_field_in(RX->eng, cur_enc) += far_delta;
	sink.rd = sink.wr = 0;
	while (guard ++ < 200000) {
		unsigned st = br_ssl_engine_current_state(RX->eng);
		size_t l;
		unsigned char *b;
		if (st & BR_SSL_CLOSED) break;
		if ((b = br_ssl_engine_recvapp_buf(RX->eng, &l)) != NULL) {
			if (dl + l <= sizeof delivered) memcpy(delivered + dl, b, l);
			dl += l;
			br_ssl_engine_recvapp_ack(RX->eng, l);
			tp_calls ++; tp_check(RX, "recvapp_ack");
			continue;
		}
		if (st & BR_SSL_SENDREC) {
			tp_act_sendrec(RX, &sink, 100000);
			continue;
		}
		if ((st & BR_SSL_RECVREC) && off < len) {
			size_t k;
			b = br_ssl_engine_recvrec_buf(RX->eng, &l);
			if (l > len - off) l = len - off;
			k = tp_chunk(r, chunk_policy, l);
			memcpy(b, stream + off, k);
			off += k;
			br_ssl_engine_recvrec_ack(RX->eng, k);
			tp_calls ++; tp_check(RX, "recvrec_ack");
			if (off >= fail_by && !tp_ep_closed(RX)) {
				/* give the engine the chance to hand out / send what it has, then judge */
				if (br_ssl_engine_recvapp_buf(RX->eng, &l) == NULL
					&& !(br_ssl_engine_current_state(RX->eng) & BR_SSL_SENDREC))
				{
					*failed_in_time = 0;
				}
			}
			continue;
		}
		break;
	}
	*consumed = off;
	return dl;
}

/*
 * Judge one faulted stream.
 *  limit_p: plaintext offset of the first touched record (nothing at or after it may be delivered)
 *  must_fail_by: stream offset of the end of the first touched record if all length fields are intact, else (size_t)-1
 *  complete: 1 if the stream ends on a record boundary of its own (modified) framing
 */
static void
judge(const unsigned char *stream, size_t len, size_t limit_p, size_t must_fail_by,
	int expect_accept_all, size_t expect_len, vf_rng *r)
{
	size_t consumed, dl, i;
	int in_time, chunk = (int)vf_below(r, 8) == 0 ? TP_CHUNK_SMALL : TP_CHUNK_WHOLE;
	char what[400];

	n_faults ++;
	snprintf(tp_case, sizeof tp_case, "%s fault=%s", base_case, fault_desc);
	dl = feed(stream, len, chunk, r, &consumed, must_fail_by, &in_time);
	/* (1) prefix */
	for (i = 0; i < dl && i < sizeof delivered; i ++) {
		if (delivered[i] != tp_stream_byte(RX->rx_key, plain_base + i)) {
			snprintf(what, sizeof what, "delivered byte %zu is not the byte the sender wrote", i);
			TP_VIOL("delivered-not-prefix", what);
			return;
		}
	}
	if (scen == 2) {
		/* closing receiver: nothing is delivered any more, whatever arrives */
		if (dl != 0) { TP_VIOL("delivered-after-local-close", "application data was delivered after the receiver had asked for closure"); return; }
		expect_len = 0;
	}
	if (expect_accept_all && scen == 3 && stream == wire) {
		/* untouched stream ending with close_notify: everything delivered, then an orderly end */
		if (dl != expect_len || !tp_ep_closed(RX) || br_ssl_engine_last_error(RX->eng) != 0) {
			snprintf(what, sizeof what, "untouched stream with close_notify: delivered %zu of %zu, closed=%d err=%d",
				dl, expect_len, tp_ep_closed(RX), br_ssl_engine_last_error(RX->eng));
			TP_VIOL("conformant-record-refused", what);
		} else n_accepted_ok ++;
		return;
	}
	if (expect_accept_all) {
		if (dl != expect_len || tp_ep_closed(RX)) {
			snprintf(what, sizeof what, "conformant record not accepted: delivered %zu of %zu, err=%d",
				dl, expect_len, br_ssl_engine_last_error(RX->eng));
			TP_VIOL("conformant-record-refused", what);
		} else {
			n_accepted_ok ++;
		}
		return;
	}
	if (dl > limit_p) {
		snprintf(what, sizeof what, "delivered %zu bytes although the first touched record starts at plaintext offset %zu", dl, limit_p);
		TP_VIOL("tampered-record-accepted", what);
		return;
	}
	/* (2) failure */
	if (tp_ep_closed(RX)) {
		if (br_ssl_engine_last_error(RX->eng) == 0) {
			TP_VIOL("closed-without-error", "engine closed with error 0 on a tampered stream");
			return;
		}
		if (!in_time) {
			TP_VIOL("failure-too-late", "engine was still alive after the touched record had been received in full");
			return;
		}
		n_rejected ++;
		return;
	}
	/* still open: only acceptable if it is waiting for the rest of a record */
	{
		/* parse the modified stream's own framing */
		size_t pos = 0;
		while (pos + 5 <= len) {
			size_t rl = ((size_t)stream[pos + 3] << 8) | stream[pos + 4];
			if (pos + 5 + rl > len) break;
			pos += 5 + rl;
		}
		if (pos == len || consumed != len || must_fail_by != (size_t)-1) {
			snprintf(what, sizeof what, "engine still open (state=%u) after a complete tampered stream; consumed %zu of %zu",
				br_ssl_engine_current_state(RX->eng), consumed, len);
			TP_VIOL("tampered-stream-not-rejected", what);
			return;
		}
		n_waiting ++;
	}
}

static unsigned char work[1 << 17];

int
main(int argc, char **argv)
{
	long long seed = vf_argi(argc, argv, "--seed", 1);
	int worker = (int)vf_argi(argc, argv, "--worker", 0);
	int nworkers = (int)vf_argi(argc, argv, "--nworkers", 1);
	int npairs = (int)vf_argi(argc, argv, "--pairs", 75);
	int rounds = (int)vf_argi(argc, argv, "--rounds", 1);
	int pi, round;
	size_t i;
	unsigned v;

	tp_prop = "C02";
	for (i = 0; i < TP_NSUITES; i ++) for (v = 0x0301; v <= 0x0303; v ++) {
		if (tp_suites[i].tls12only && v != 0x0303) continue;
		sv[nsv].s = &tp_suites[i]; sv[nsv].version = v; nsv ++;
	}
	tp_fifo_init(&sink);

	for (round = 0; round < rounds; round ++)
	for (pi = worker; pi < npairs && pi < nsv; pi += nworkers) {
		const sv_pair *pv = &sv[pi];
		vf_rng r;
		tp_cfg cc, sc;
		tp_pair P2;
		tm_pairmon PM2;
		uint16_t sl[1];
		int nwrites, w, k, layout;
		size_t rec2_len = 0;
		static unsigned char rec2[4096];
		rm_cipher base_cs;

		vf_rng_init(&r, (uint64_t)seed, (uint64_t)(pi * 131 + round));
		sender_dir = (pi + (round >> 1)) & 1;
		scen = (round & 1) ? 1 + ((pi + (round >> 1)) % 3) : 0;
		layout = (int)vf_below(&r, 3);
		tp_cfg_default(&cc, 0); tp_cfg_default(&sc, 1);
		cc.layout = sc.layout = layout;
		if (layout == TP_LAYOUT_MONO) cc.buflen = sc.buflen = BR_SSL_BUFSIZE_MONO;
		else if (layout == TP_LAYOUT_SPLIT1) cc.buflen = sc.buflen = BR_SSL_BUFSIZE_BIDI;
		else { cc.buflen = sc.buflen = BR_SSL_BUFSIZE_INPUT; cc.buflen_out = sc.buflen_out = BR_SSL_BUFSIZE_OUTPUT; }
		sl[0] = pv->s->id;
		cc.suites = sl; cc.nsuites = 1; cc.vmin = cc.vmax = pv->version;
		sc.keykind = tp_key_for_suite(pv->s, 0);
		/* the receiver under attack uses each implementation set in turn (round-robin over pairs and rounds) */
		cc.impl_set = sc.impl_set = (pi + round + (int)seed) % 4;
		vf_distinct("impl_sets", "%04x %d", pv->s->id, cc.impl_set);
		vf_bytes(&r, cc.seed, 32); vf_bytes(&r, sc.seed, 32);
		snprintf(base_case, sizeof base_case, "seed=%lld pair=%d round=%d scenario=%d suite=%s(%04x) ver=%04x sender=%s layout=%d",
			seed, pi, round, scen, pv->s->name, pv->s->id, pv->version, sender_dir ? "server" : "client", layout);
		snprintf(tp_case, sizeof tp_case, "%s", base_case);

		tp_pair_init(&P, (uint64_t)seed, (uint64_t)pi, TP_CHUNK_WHOLE);
		P.c.tx_key = vf_u64(&r); P.s.tx_key = vf_u64(&r);
		tm_pair_attach(&PM, &P);
		PM.m.rec_hook = rec_hook;
		PM.m.check_app = 0;
		if (!tp_ep_start(&P.c, &cc) || !tp_ep_start(&P.s, &sc)) { TP_VIOL("setup:reset-failed", "reset"); goto next; }
		P.c.tx_key = PM.m.key[0]; P.c.rx_key = PM.m.key[1];
		P.s.tx_key = PM.m.key[1]; P.s.rx_key = PM.m.key[0];
		if (!tp_handshake(&P, 1000000)) { TP_VIOL("setup:handshake-incomplete", "reference handshake failed"); goto next; }
		vf_stat("cases", 1);
		RX = sender_dir == 0 ? &P.s : &P.c;
		if (scen == 1) {
			/* second epoch: a completed renegotiation (asked for by either side) precedes the attacked records */
			int e0 = PM.m.rm.cs[0].epoch, e1 = PM.m.rm.cs[1].epoch;
			tp_run_data(&P, 20, 20, TP_W_WHOLE, 100000);
			tp_settle(&P, 100000);
			if (!tp_act_reneg((pi & 2) ? &P.s : &P.c)) { TP_VIOL("setup:renegotiation-refused", "renegotiation refused on an idle connection"); goto next; }
			tp_settle(&P, 2000000);
			if (!tp_ep_ready(&P.c) || !tp_ep_ready(&P.s) || PM.m.rm.cs[0].epoch != e0 + 1 || PM.m.rm.cs[1].epoch != e1 + 1) {
				TP_VIOL("setup:renegotiation-incomplete", "reference renegotiation did not complete"); goto next;
			}
			vf_stat("scenario_second_epoch", 1);
		}
		if (scen == 2) {
			/* the receiver's application has asked for closure: what arrives now is discarded, not delivered - but still
			   has to authenticate */
			br_ssl_engine_close(RX->eng);
			tp_calls ++; tp_check(RX, "close");
			vf_stat("scenario_receiver_closing", 1);
		}
		{
			tp_ep *TX = sender_dir == 0 ? &P.c : &P.s;
			tp_fifo *f = sender_dir == 0 ? &P.c2s : &P.s2c;
			/* cipher state of the sender direction right after the handshake (for recforge) */
			base_cs = PM.m.rm.cs[sender_dir];
			tp_snap_take(&rx_snap, RX);
			/* sender writes 3..5 short records */
			nrecs = 0; collecting = 1;
			plain_base = TX->tx_done;
			nwrites = 3 + (int)vf_below(&r, 3);
			for (w = 0; w < nwrites; w ++) {
				size_t wl = 1 + vf_below(&r, rounds > 1 ? 120 : 40);
				tp_act_write(TX, wl);
				tp_act_flush(TX, 0);
				while (br_ssl_engine_current_state(TX->eng) & BR_SSL_SENDREC) {
					size_t got = tp_act_sendrec(TX, f, 100000);
					tm_tap(&PM.m, sender_dir, f->data + f->wr - got, got);
				}
			}
			if (scen == 3) {
				/* the sender's application closes: its close_notify is the last record of the attacked stream */
				tp_act_close(TX);
				while (br_ssl_engine_current_state(TX->eng) & BR_SSL_SENDREC) {
					size_t got = tp_act_sendrec(TX, f, 100000);
					tm_tap(&PM.m, sender_dir, f->data + f->wr - got, got);
				}
				vf_stat("scenario_sender_close_notify", 1);
			}
			collecting = 0;
			wire_len = tp_fifo_len(f);
			memcpy(wire, f->data + f->rd, wire_len);
			plain_total = TX->tx_done - plain_base;
		}
		if (nrecs == 0 || recs[nrecs - 1].woff + recs[nrecs - 1].wlen != wire_len
			|| recs[nrecs - 1].poff + recs[nrecs - 1].plen != plain_total)
		{
			TP_VIOL("setup:record-accounting", "independent decoder and sender disagree on the records produced");
			goto next;
		}
		vf_stat("records_recorded", nrecs);

		/* (0) canary: untouched stream delivers everything */
		snprintf(fault_desc, sizeof fault_desc, "none(canary)");
		judge(wire, wire_len, 0, (size_t)-1, 1, plain_total, &r);
		vf_stat("canary_runs", 1);

		/* (a) every bit of every record */
		for (k = 0; k < nrecs; k ++) {
			size_t b;
			for (b = 0; b < recs[k].wlen * 8; b ++) {
				size_t byte = recs[k].woff + (b >> 3);
				int in_len = (b >> 3) == 3 || (b >> 3) == 4;
				memcpy(work, wire, wire_len);
				work[byte] ^= (unsigned char)(1u << (b & 7));
				snprintf(fault_desc, sizeof fault_desc, "bitflip rec=%d byte=%zu bit=%d", k, b >> 3, (int)(b & 7));
				judge(work, wire_len, recs[k].poff,
					in_len ? (size_t)-1 : recs[k].woff + recs[k].wlen, 0, 0, &r);
				vf_stat("faults_bitflip", 1);
			}
		}
		/* (b) record-level edits */
		for (k = 0; k < nrecs; k ++) {
			size_t o = recs[k].woff, l = recs[k].wlen, t;
			/* drop record k */
			memcpy(work, wire, o);
			memcpy(work + o, wire + o + l, wire_len - o - l);
			snprintf(fault_desc, sizeof fault_desc, "drop rec=%d", k);
			if (k + 1 < nrecs) {
				judge(work, wire_len - l, recs[k].poff, o + recs[k + 1].wlen, 0, 0, &r);
				vf_stat("faults_edit", 1);
			}
			/* duplicate record k right after itself: the copy is the touched record */
			memcpy(work, wire, o + l);
			memcpy(work + o + l, wire + o, l);
			memcpy(work + o + 2 * l, wire + o + l, wire_len - o - l);
			snprintf(fault_desc, sizeof fault_desc, "duplicate rec=%d", k);
			if (!(scen == 3 && k == nrecs - 1)) {     /* (a copy of the final close_notify arrives after the orderly end) */
				judge(work, wire_len + l, recs[k].poff + recs[k].plen, o + 2 * l, 0, 0, &r);
				vf_stat("faults_edit", 1);
			}
			/* swap k and k+1 */
			if (k + 1 < nrecs) {
				size_t l2 = recs[k + 1].wlen;
				memcpy(work, wire, wire_len);
				memcpy(work + o, wire + o + l, l2);
				memcpy(work + o + l2, wire + o, l);
				snprintf(fault_desc, sizeof fault_desc, "swap rec=%d,%d", k, k + 1);
				judge(work, wire_len, recs[k].poff, o + l2, 0, 0, &r);
				vf_stat("faults_edit", 1);
			}
			/* replay each earlier record j at position k */
			{
				int j;
				for (j = 0; j < k; j ++) {
					size_t lj = recs[j].wlen;
					memcpy(work, wire, o);
					memcpy(work + o, wire + recs[j].woff, lj);
					memcpy(work + o + lj, wire + o, wire_len - o);
					snprintf(fault_desc, sizeof fault_desc, "replay rec=%d at=%d", j, k);
					judge(work, wire_len + lj, recs[k].poff, o + lj, 0, 0, &r);
					vf_stat("faults_edit", 1);
				}
			}
			/* truncate the stream at every byte inside record k */
			for (t = 1; t < l; t ++) {
				snprintf(fault_desc, sizeof fault_desc, "truncate rec=%d at=%zu", k, t);
				judge(wire, o + t, recs[k].poff, (size_t)-1, 0, 0, &r);
				vf_stat("faults_truncate", 1);
			}
		}
		/* replay from far back: the receiver is where it would be 2^16, 2^32, 2^48 or 2^63 records later (its counter is
		   moved, nothing else: a 64-bit counter cannot be driven there by sending records) and is given the untouched
		   records captured that many records earlier: the sequence number is part of what is authenticated, in full */
		cur_enc = pv->s->enc;
		if (scen != 2) {
			static const int dist[4] = { 16, 32, 48, 63 };
			int di;
			for (di = 0; di < 4; di ++) {
				far_delta = (uint64_t)1 << dist[di];
				snprintf(fault_desc, sizeof fault_desc, "replay of the whole recorded stream 2^%d records later", dist[di]);
				judge(wire, wire_len, 0, recs[0].wlen, 0, 0, &r);
				far_delta = 0;
				vf_stat("faults_far_replay", 1);
			}
		}
		/* cross-connection splice: record k of a second connection with the same suite */
		{
			tp_cfg cc2 = cc, sc2 = sc;
			vf_bytes(&r, cc2.seed, 32); vf_bytes(&r, sc2.seed, 32);
			tp_pair_init(&P2, (uint64_t)seed + 77, (uint64_t)pi, TP_CHUNK_WHOLE);
			tm_pair_attach(&PM2, &P2);
			if (tp_ep_start(&P2.c, &cc2) && tp_ep_start(&P2.s, &sc2)) {
				P2.c.tx_key = PM.m.key[0]; P2.s.tx_key = PM.m.key[1];
				P2.c.rx_key = PM.m.key[1]; P2.s.rx_key = PM.m.key[0];
				if (tp_handshake(&P2, 1000000)) {
					tp_ep *TX2 = sender_dir == 0 ? &P2.c : &P2.s;
					tp_fifo *f2 = sender_dir == 0 ? &P2.c2s : &P2.s2c;
					/* same plaintext as record 0 of the first connection */
					tp_act_write(TX2, recs[0].plen ? recs[0].plen : recs[1].plen);
					tp_act_flush(TX2, 0);
					while (br_ssl_engine_current_state(TX2->eng) & BR_SSL_SENDREC) tp_act_sendrec(TX2, f2, 100000);
					rec2_len = tp_fifo_len(f2);
					if (rec2_len <= sizeof rec2) memcpy(rec2, f2->data + f2->rd, rec2_len); else rec2_len = 0;
				}
			}
			rm_free(&PM2.m.rm);
			tp_pair_free(&P2);
			if (rec2_len > 0) {
				memcpy(work, rec2, rec2_len);
				memcpy(work + rec2_len, wire, wire_len);
				snprintf(fault_desc, sizeof fault_desc, "splice first record(s) of another connection (same suite, same plaintext) in front");
				judge(work, wire_len + rec2_len, 0, (size_t)-1 == 0 ? 0 : rec2_len, 0, 0, &r);
				vf_stat("faults_splice", 1);
			}
		}
		/* (c) forged records built by the independent record layer */
		{
			unsigned char plain[64];
			size_t pl = 23, fl;
			rm_forge_opts fo;
			rm_cipher cs;
			for (i = 0; i < pl; i ++) plain[i] = tp_stream_byte(RX->rx_key, plain_base + i);
			if (base_cs.enc <= 2) {
				int pad;
				size_t bl = base_cs.enc == 0 ? 8 : 16;
				for (pad = 0; pad < 256; pad ++) {
					size_t minpad = bl - 1 - ((pl + base_cs.mac_len) % bl);
					int j;
					if ((size_t)pad < minpad || ((size_t)pad - minpad) % bl != 0) continue;
					/* conformant record with this padding length: must be accepted.
					   TLS 1.0 allows long padding too (RFC 2246 6.2.3.2). */
					cs = base_cs; rm_forge_defaults(&fo); fo.padlen = pad;
					fl = rm_seal(&cs, 23, plain, pl, &fo, &r, 1, work);
					snprintf(fault_desc, sizeof fault_desc, "forged conformant CBC record padlen=%d", pad);
					judge(work, fl, 0, (size_t)-1, 1, pl, &r);
					vf_stat("forged_conformant", 1);
					/* every single wrong padding byte */
					for (j = 0; j <= pad; j ++) {
						cs = base_cs; rm_forge_defaults(&fo); fo.padlen = pad; fo.bad_pad_index = j;
						fl = rm_seal(&cs, 23, plain, pl, &fo, &r, 1, work);
						snprintf(fault_desc, sizeof fault_desc, "forged CBC record padlen=%d wrong padding byte index-from-end=%d", pad, j);
						judge(work, fl, 0, fl, 0, 0, &r);
						vf_stat("forged_bad", 1);
					}
					/* every wrong MAC byte (only for a few padding lengths: cost) */
					if (pad == (int)minpad || pad == 255 || (size_t)pad == minpad + bl) {
						for (j = 0; j < (int)base_cs.mac_len; j ++) {
							cs = base_cs; rm_forge_defaults(&fo); fo.padlen = pad; fo.bad_mac_index = j;
							fl = rm_seal(&cs, 23, plain, pl, &fo, &r, 1, work);
							snprintf(fault_desc, sizeof fault_desc, "forged CBC record padlen=%d wrong MAC byte %d", pad, j);
							judge(work, fl, 0, fl, 0, 0, &r);
							vf_stat("forged_bad", 1);
						}
					}
				}
				/* padding longer than the record: a one-block record whose last byte claims more */
				{
					unsigned char blk[64];
					size_t nb = bl * 2, q;
					unsigned char iv[16];
					cs = base_cs;
					for (q = 0; q < nb; q ++) blk[q] = 0xFF;   /* pad byte 255 > record */
					if (cs.version >= 0x0302) vf_bytes(&r, iv, bl); else memcpy(iv, cs.iv, bl);
					rm_cbc(1, cs.enc, cs.key, iv, blk, nb);
					work[0] = 23; work[1] = (unsigned char)(cs.version >> 8); work[2] = (unsigned char)cs.version;
					if (cs.version >= 0x0302) { memcpy(work + 5, iv, bl); memcpy(work + 5 + bl, blk, nb); q = bl + nb; }
					else { memcpy(work + 5, blk, nb); q = nb; }
					work[3] = (unsigned char)(q >> 8); work[4] = (unsigned char)q;
					snprintf(fault_desc, sizeof fault_desc, "forged CBC record whose padding length exceeds the record");
					judge(work, q + 5, 0, q + 5, 0, 0, &r);
					vf_stat("forged_bad", 1);
				}
				/* wrong sequence number */
				cs = base_cs; rm_forge_defaults(&fo); fo.use_seq = 1; fo.seq = base_cs.seq + 1;
				fl = rm_seal(&cs, 23, plain, pl, &fo, &r, 1, work);
				snprintf(fault_desc, sizeof fault_desc, "forged CBC record MACed with sequence number +1");
				judge(work, fl, 0, fl, 0, 0, &r);
				vf_stat("forged_bad", 1);
			} else {
				int j;
				size_t tl = rm_tag_len(base_cs.enc);
				/* conformant */
				cs = base_cs; rm_forge_defaults(&fo);
				fl = rm_seal(&cs, 23, plain, pl, &fo, &r, 1, work);
				snprintf(fault_desc, sizeof fault_desc, "forged conformant AEAD record");
				judge(work, fl, 0, (size_t)-1, 1, pl, &r);
				vf_stat("forged_conformant", 1);
				if (base_cs.enc != 9) {
					/* any explicit nonce value is conformant for GCM/CCM */
					cs = base_cs; rm_forge_defaults(&fo); fo.use_expl = 1; vf_bytes(&r, fo.expl, 8);
					fl = rm_seal(&cs, 23, plain, pl, &fo, &r, 1, work);
					snprintf(fault_desc, sizeof fault_desc, "forged conformant AEAD record with random explicit nonce");
					judge(work, fl, 0, (size_t)-1, 1, pl, &r);
					vf_stat("forged_conformant", 1);
					/* explicit nonce altered after sealing */
					for (j = 0; j < 8; j ++) {
						cs = base_cs; rm_forge_defaults(&fo);
						fl = rm_seal(&cs, 23, plain, pl, &fo, &r, 1, work);
						work[5 + j] ^= 0x10;
						snprintf(fault_desc, sizeof fault_desc, "forged AEAD record, explicit nonce byte %d altered after sealing", j);
						judge(work, fl, 0, fl, 0, 0, &r);
						vf_stat("forged_bad", 1);
					}
				}
				/* wrong / reused sequence number */
				for (j = 0; j < 3; j ++) {
					cs = base_cs; rm_forge_defaults(&fo); fo.use_seq = 1;
					fo.seq = j == 0 ? base_cs.seq + 1 : (j == 1 ? base_cs.seq - 1 : 0);
					if (fo.seq == base_cs.seq) continue;
					if (base_cs.enc != 9) { fo.use_expl = 1; memset(fo.expl, 0, 8); fo.expl[7] = (unsigned char)base_cs.seq; }
					fl = rm_seal(&cs, 23, plain, pl, &fo, &r, 1, work);
					snprintf(fault_desc, sizeof fault_desc, "forged AEAD record sealed under sequence number %llu instead of %llu",
						(unsigned long long)fo.seq, (unsigned long long)base_cs.seq);
					judge(work, fl, 0, fl, 0, 0, &r);
					vf_stat("forged_bad", 1);
				}
				/* every wrong tag byte, truncated tag */
				for (j = 0; j < (int)tl; j ++) {
					cs = base_cs; rm_forge_defaults(&fo); fo.bad_mac_index = j;
					fl = rm_seal(&cs, 23, plain, pl, &fo, &r, 1, work);
					snprintf(fault_desc, sizeof fault_desc, "forged AEAD record wrong tag byte %d", j);
					judge(work, fl, 0, fl, 0, 0, &r);
					vf_stat("forged_bad", 1);
				}
				for (j = 1; j <= (int)tl; j ++) {
					cs = base_cs; rm_forge_defaults(&fo); fo.tag_trunc = j;
					fl = rm_seal(&cs, 23, plain, pl, &fo, &r, 1, work);
					snprintf(fault_desc, sizeof fault_desc, "forged AEAD record with tag truncated by %d bytes", j);
					judge(work, fl, 0, fl, 0, 0, &r);
					vf_stat("forged_bad", 1);
				}
			}
			/* sequence numbers that differ from the right one only in a high bit; longer records: a wrong MAC / tag
			   byte and (CBC) a wrong padding byte for plaintexts of 0, 1, 255, 256, 300, 4095, 16383 and 16384 bytes,
			   each next to its conformant twin (the receiver has full-size buffers) */
			{
				static const int hb[4] = { 16, 32, 48, 63 };
				static const size_t lens[8] = { 0, 1, 255, 256, 300, 4095, 16383, 16384 };
				static unsigned char bigp[16384];
				int q;
				size_t li;
				for (q = 0; q < 4; q ++) {
					cs = base_cs; rm_forge_defaults(&fo); fo.use_seq = 1; fo.seq = base_cs.seq ^ ((uint64_t)1 << hb[q]);
					if (base_cs.enc > 2 && base_cs.enc != 9) { fo.use_expl = 1; memset(fo.expl, 0, 8); fo.expl[7] = (unsigned char)base_cs.seq; }
					fl = rm_seal(&cs, 23, plain, pl, &fo, &r, 1, work);
					snprintf(fault_desc, sizeof fault_desc, "forged record sealed under the right sequence number with bit %d flipped", hb[q]);
					judge(work, fl, 0, fl, 0, 0, &r);
					vf_stat("forged_bad", 1);
				}
				if (RX->buf_len >= 16384 + 325) for (li = 0; li < 8; li ++) {
					size_t L = lens[li], z;
					int variant;
					if ((li + (size_t)pi) % 2 && L > 300) continue;        /* the large ones for every second pair */
					for (z = 0; z < L; z ++) bigp[z] = tp_stream_byte(RX->rx_key, plain_base + z);
					for (variant = 0; variant < 3; variant ++) {
						cs = base_cs; rm_forge_defaults(&fo);
						if (variant == 1) fo.bad_mac_index = (int)vf_below(&r, (uint32_t)(base_cs.enc <= 2 ? base_cs.mac_len : rm_tag_len(base_cs.enc)));
						if (variant == 2) { if (base_cs.enc > 2) continue; fo.padlen = (int)(((base_cs.enc == 0 ? 8 : 16) - 1 - ((L + base_cs.mac_len) % (base_cs.enc == 0 ? 8 : 16))) + (base_cs.enc == 0 ? 8 : 16)); fo.bad_pad_index = (int)vf_below(&r, (uint32_t)fo.padlen + 1); }
						fl = rm_seal(&cs, 23, bigp, L, &fo, &r, 1, work);
						snprintf(fault_desc, sizeof fault_desc, "forged %zu-byte record, %s", L, variant == 0 ? "conformant" : variant == 1 ? "one wrong MAC/tag byte" : "one wrong padding byte");
						if (variant == 0) {
							if (L == 0 && base_cs.enc <= 2 && base_cs.version == 0x0301) { /* empty record: fine */ }
							judge(work, fl, 0, (size_t)-1, 1, L, &r);
							vf_stat("forged_conformant", 1);
						} else {
							judge(work, fl, 0, fl, 0, 0, &r);
							vf_stat("forged_bad", 1);
						}
						vf_stat("forged_long_records", 1);
					}
				}
			}
			/* replay of a record of the handshake epoch is covered by 'replay'; here: a
			   conformant record followed by its exact copy */
			cs = base_cs; rm_forge_defaults(&fo);
			fl = rm_seal(&cs, 23, plain, pl, &fo, &r, 1, work);
			memcpy(work + fl, work, fl);
			snprintf(fault_desc, sizeof fault_desc, "forged conformant record sent twice");
			judge(work, 2 * fl, pl, 2 * fl, 0, 0, &r);
			vf_stat("forged_bad", 1);
		}
		/* (d) injected records made of thin air (no key needed): every record type, header-only
		   and short bodies, at every record boundary including before the first and after the
		   last record */
		{
			static const int types[] = { 20, 21, 22, 23, 24, 0, 255 };
			static const int lens[] = { 0, 1, 2, 7, 8, 15, 16, 17, 24, 32, 48, 64 };
			size_t ti, li;
			for (k = 0; k <= nrecs - (scen == 3); k ++) {      /* (nothing is judged after the sender's close_notify) */
				size_t o = k < nrecs ? recs[k].woff : wire_len;
				size_t lim = k < nrecs ? recs[k].poff : plain_total;
				for (ti = 0; ti < sizeof types / sizeof types[0]; ti ++) for (li = 0; li < sizeof lens / sizeof lens[0]; li ++) {
					size_t bl = (size_t)lens[li];
					unsigned ver = pv->version;
					uint32_t vv = vf_below(&r, 6);
					/* keep the sweep affordable: all lengths for application data and for length 0, a sample otherwise */
					if (!(types[ti] == 23 || bl == 0 || vf_below(&r, 4) == 0)) continue;
					if (vv == 0) ver = 0x0300; else if (vv == 1) ver = 0x0304;
					memcpy(work, wire, o);
					work[o] = (unsigned char)types[ti];
					work[o + 1] = (unsigned char)(ver >> 8); work[o + 2] = (unsigned char)ver;
					work[o + 3] = 0; work[o + 4] = (unsigned char)bl;
					vf_bytes(&r, work + o + 5, bl);
					if (bl > 0 && vf_below(&r, 3) == 0) memset(work + o + 5, 0, bl);
					memcpy(work + o + 5 + bl, wire + o, wire_len - o);
					snprintf(fault_desc, sizeof fault_desc, "inject unprotected record type=%d version=%04x length=%zu before record %d of %d",
						types[ti], ver, bl, k, nrecs);
					judge(work, wire_len + 5 + bl, lim, o + 5 + bl, 0, 0, &r);
					vf_stat("faults_inject", 1);
					vf_distinct("inject_shape", "%04x enc%d type%d len%zu", pv->version, base_cs.enc, types[ti], bl);
				}
			}
		}
		/* random double edits */
		{
			int q;
			for (q = 0; q < 200 * rounds; q ++) {
				size_t p1 = vf_below(&r, (uint32_t)wire_len), p2 = vf_below(&r, (uint32_t)wire_len);
				size_t first = p1 < p2 ? p1 : p2;
				int kk = 0, in_len = 0;
				memcpy(work, wire, wire_len);
				work[p1] ^= (unsigned char)(1 + vf_below(&r, 255));
				work[p2] ^= (unsigned char)(1 + vf_below(&r, 255));
				if (memcmp(work, wire, wire_len) == 0) continue;
				while (kk + 1 < nrecs && recs[kk + 1].woff <= first) kk ++;
				for (w = 0; w < nrecs; w ++) {
					if ((p1 >= recs[w].woff + 3 && p1 <= recs[w].woff + 4)
						|| (p2 >= recs[w].woff + 3 && p2 <= recs[w].woff + 4)) in_len = 1;
				}
				snprintf(fault_desc, sizeof fault_desc, "double edit bytes %zu,%zu", p1, p2);
				judge(work, wire_len, recs[kk].poff, in_len ? (size_t)-1 : recs[kk].woff + recs[kk].wlen, 0, 0, &r);
				vf_stat("faults_double", 1);
			}
		}
		vf_distinct("suite_version", "%04x/%04x", pv->s->id, pv->version);
		vf_distinct("config", "%04x/%04x/%d/l%d", pv->s->id, pv->version, sender_dir, layout);
		vf_sample("{\"suite\":\"%s\",\"version\":\"%04x\",\"receiver\":\"%s\",\"records\":%d,\"wire_bytes\":%zu,\"plain_bytes\":%zu,\"last_fault\":\"%s\"}",
			pv->s->name, pv->version, sender_dir ? "client" : "server", nrecs, wire_len, plain_total, fault_desc);
	next:
		tp_snap_free(&rx_snap);
		rm_free(&PM.m.rm);
		tp_pair_free(&P);
	}
	vf_stat("faults", n_faults);
	vf_stat("faults_rejected_with_error", n_rejected);
	vf_stat("faults_left_engine_waiting_for_record_bytes", n_waiting);
	vf_stat("conformant_accepted", n_accepted_ok);
	vf_stat("monitored_calls", tp_calls);
	vf_done();
	return 0;
}
