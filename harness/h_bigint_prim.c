/*
 * C09 (a): constant-time word primitives of inner.h and br_divrem() against
 * their C-level definitions computed with 64-bit arithmetic.
 *
 *   h_bigint_prim --seed S --worker i --nworkers n --cases N [--stream j]
 *
 * Work: (1) the full cross product of an edge set (rows dealt to the workers,
 * independent of the seed); (2) N random pairs per worker.  For each pair
 * (x, y) every primitive is evaluated; br_divrem gets (hi, lo, d) triples
 * derived from the pair and a third value, inside its documented domain
 * (hi < d, and hi == d where the quotient is documented as truncated).
 * Built a second time with -DBR_CT_MUL31=1 -DBR_CT_MUL15=1 to cover the
 * alternate definitions of MUL31 / MUL31_lo / MUL15.
 */
#if defined(PRIM_EXTRA_TU) && !defined(PRIM_INCLUDED)
/* listed as an extra source of h_bigint_primct only so that the build cache sees changes */
typedef int h_bigint_prim_is_included_elsewhere;
#else
#include "common.h"
#include "inner.h"

static vf_rng R;
static long long n_pairs, n_cmp, n_div, n_div_eq, n_div_unjudged;

static void
fail(const char *prim, uint32_t x, uint32_t y, uint32_t z, uint64_t got, uint64_t exp)
{
	char key[96];
	snprintf(key, sizeof key, "C09:prim:%s", prim);
	vf_viol(key, "primitive differs from its C-level definition",
		"x=0x%08x y=0x%08x z=0x%08x got=0x%llx exp=0x%llx", (unsigned)x, (unsigned)y, (unsigned)z,
		(unsigned long long)got, (unsigned long long)exp);
}

#define CHK(name, got, exp) do { uint64_t g_ = (uint64_t)(got), e_ = (uint64_t)(exp); n_cmp ++; \
	if (g_ != e_) fail(name, x, y, z, g_, e_); } while (0)

static void
divcase(uint32_t hi, uint32_t lo, uint32_t d)
{
	uint32_t x = hi, y = lo, z = d;   /* names used by CHK */
	uint32_t q, r = 0xDEADBEEF;
	uint64_t n = ((uint64_t)hi << 32) | lo;

	q = br_divrem(hi, lo, d, &r);
	if (d == 0 || hi > d) {
		/* outside the documented domain: executed (sanitizers armed), not judged */
		n_div_unjudged ++;
		return;
	}
	if (hi < d) {
		n_div ++;
		CHK("br_divrem-q", q, n / d);
		CHK("br_divrem-r", r, n % d);
		CHK("br_div", br_div(hi, lo, d), n / d);
		CHK("br_rem", br_rem(hi, lo, d), n % d);
	} else {
		/* hi == d: "the quotient does not fit on 32 bits; returned value is thus truncated" */
		n_div_eq ++;
		CHK("br_divrem-q-trunc", q, (uint32_t)(n / d));
		CHK("br_divrem-r-trunc", r, n % d);
	}
}

static void
pair(uint32_t x, uint32_t y, uint32_t z)
{
	int32_t sx = (int32_t)x, sy = (int32_t)y;
	uint32_t x31 = x & 0x7FFFFFFF, y31 = y & 0x7FFFFFFF;
	unsigned a = z & 31, b = 31 - a;
	uint32_t xa = x & (((uint32_t)1 << a) - 1), yb = y & (((uint32_t)1 << b) - 1);
	uint32_t x15 = x & 0x7FFF, y16 = y & 0xFFFF;

	n_pairs ++;
	CHK("MUX1", MUX(1, x, y), x);
	CHK("MUX0", MUX(0, x, y), y);
	CHK("EQ", EQ(x, y), x == y);
	CHK("NEQ", NEQ(x, y), x != y);
	CHK("GT", GT(x, y), x > y);
	CHK("GE", GE(x, y), x >= y);
	CHK("LT", LT(x, y), x < y);
	CHK("LE", LE(x, y), x <= y);
	CHK("CMP", (int64_t)CMP(x, y), (int64_t)((x > y) - (x < y)));
	CHK("MIN", MIN(x, y), x < y ? x : y);
	CHK("MAX", MAX(x, y), x > y ? x : y);
	CHK("EQ0", EQ0(sx), sx == 0);
	CHK("GT0", GT0(sx), sx > 0);
	CHK("GE0", GE0(sx), sx >= 0);
	CHK("LT0", LT0(sx), sx < 0);
	CHK("LE0", LE0(sx), sx <= 0);
	CHK("EQ0", EQ0(sy), sy == 0);
	CHK("GT0", GT0(sy), sy > 0);
	CHK("GE0", GE0(sy), sy >= 0);
	CHK("LT0", LT0(sy), sy < 0);
	CHK("LE0", LE0(sy), sy <= 0);
	{
		uint32_t bl = 0, t = x;
		while (t) { bl ++; t >>= 1; }
		CHK("BIT_LENGTH", BIT_LENGTH(x), bl);
	}
	CHK("MUL", MUL(x, y), (uint64_t)x * (uint64_t)y);
	CHK("MUL31", MUL31(x31, y31), (uint64_t)x31 * (uint64_t)y31);
	CHK("MUL31_lo", MUL31_lo(x31, y31), ((uint64_t)x31 * (uint64_t)y31) & 0x7FFFFFFF);
	/* MUL15: operand lengths sum to at most 31 bits */
	CHK("MUL15", MUL15(xa, yb), (uint64_t)xa * (uint64_t)yb);
	CHK("MUL15", MUL15(x15, y16), (uint64_t)x15 * (uint64_t)y16);
	CHK("MUL15", MUL15(x15, y & 0x7FFF), (uint64_t)x15 * (uint64_t)(y & 0x7FFF));

	/* division: d = x, lo = y */
	if (x != 0) {
		divcase(z % x, y, x);
		divcase(x - 1, y, x);
		divcase(0, y, x);
		divcase(x, y, x);
		divcase(z, y, x);       /* any relation of hi and d */
	} else {
		divcase(z, y, 0);
	}
	if (z != 0) divcase(x % z, y, z);
}

int
main(int argc, char **argv)
{
	long long worker = vf_argi(argc, argv, "--worker", 0);
	long long nworkers = vf_argi(argc, argv, "--nworkers", 1);
	long long cases = vf_argi(argc, argv, "--cases", 100000);
	uint32_t edge[400];
	int ne = 0, i, j, k;
	long long c;
	uint32_t x, y, z;

	vf_rng_init(&R, (uint64_t)vf_argi(argc, argv, "--seed", 1), 0xABCD0000ull + (uint64_t)worker
		+ 4096 * (uint64_t)vf_argi(argc, argv, "--stream", 0));

	for (k = 0; k < 32; k ++) {
		uint32_t p = (uint32_t)1 << k;
		uint32_t cand[5];
		cand[0] = p; cand[1] = p - 1; cand[2] = p + 1; cand[3] = ~p; cand[4] = (uint32_t)0 - p;
		for (i = 0; i < 5; i ++) {
			for (j = 0; j < ne; j ++) if (edge[j] == cand[i]) break;
			if (j == ne) edge[ne ++] = cand[i];
		}
	}
	{
		static const uint32_t more[] = { 0x55555555, 0xAAAAAAAA, 0x0000FFFF, 0xFFFF0000, 0x00FF00FF,
			0x7FFF7FFF, 0x80008000, 0x12345678, 0xFFFFFFFE, 0x7FFFFFFE, 0x80000002, 0x0001FFFF,
			0x33333333, 0xCCCCCCCC, 0x0F0F0F0F, 0xF0F0F0F0, 0xFFFF7FFF, 0x00008001 };
		for (i = 0; i < (int)(sizeof more / sizeof more[0]); i ++) {
			for (j = 0; j < ne; j ++) if (edge[j] == more[i]) break;
			if (j == ne) edge[ne ++] = more[i];
		}
	}
	vf_max("edge_values", ne);

	/* NOT: its whole domain */
	x = y = z = 0;
	CHK("NOT", NOT(0), 1);
	CHK("NOT", NOT(1), 0);

	/* (1) cross product of the edge set; third value walks through the set too */
	for (i = (int)worker; i < ne; i += (int)nworkers) {
		for (j = 0; j < ne; j ++) {
			pair(edge[i], edge[j], edge[(i * 7 + j * 13 + 5) % ne]);
			pair(edge[i], edge[j], vf_u32(&R));
			vf_stat("edge_pairs", 1);
		}
		vf_distinct("edge_row", "%08x", (unsigned)edge[i]);
	}

	/* (2) random pairs, with some structure mixed in */
	for (c = 0; c < cases; c ++) {
		uint64_t v = vf_u64(&R);
		x = (uint32_t)v;
		y = (uint32_t)(v >> 32);
		z = vf_u32(&R);
		switch (c & 7) {
		case 1: y = x + (z & 3) - 1; break;                 /* neighbours */
		case 2: x >>= (z & 31); break;                        /* random bit length */
		case 3: y >>= (z >> 5) & 31; x >>= (z & 31); break;
		case 4: y = (y & 0xFFFF) | (x & 0xFFFF0000); break; /* equal high halves */
		case 5: x = edge[x % (uint32_t)ne]; break;
		default: break;
		}
		pair(x, y, z);
	}
	vf_stat("random_pairs", cases);
	vf_stat("pairs", n_pairs);
	vf_stat("cmp_prim", n_cmp);
	vf_stat("divrem_in_domain", n_div);
	vf_stat("divrem_hi_eq_d", n_div_eq);
	vf_stat("unjudged_divrem_outside_domain", n_div_unjudged);
#if BR_CT_MUL31
	vf_distinct("mulcfg", "ct_mul31");
#else
	vf_distinct("mulcfg", "default_mul31");
#endif
	vf_sample("{\"prim\":\"last pair\",\"x\":%u,\"y\":%u,\"z\":%u,\"GT\":%u,\"br_div(z%%x,y,x)\":%u}",
		(unsigned)x, (unsigned)y, (unsigned)z, (unsigned)GT(x, y), x ? (unsigned)br_div(z % x, y, x) : 0u);
	vf_done();
	return 0;
}
#endif
