/*
 * E1 "tlspair": BearSSL endpoints built from the tree under test, joined by
 * in-memory byte FIFOs, driven by a seeded scheduler, with the C06 coherence
 * monitor run after every library call and a position-coded application
 * stream oracle.
 */
#ifndef TLSPAIR_H__
#define TLSPAIR_H__

#include "common.h"
#include "bearssl.h"
#include "../fixtures/tls_fixtures.h"

#ifdef BR_VERIF
extern int br_verif_seeder_mode;
extern unsigned char br_verif_seed[32];
extern unsigned long br_verif_seeder_calls;
extern unsigned long long br_verif_t0_steps;
#endif

/* ------------------------------------------------------------------ */
/* violation prefix (property id) is set by each harness */
static const char *tp_prop = "C01";
static char tp_case[1024] = "";   /* description of the running case, for reports */
__attribute__((constructor)) static void tp_case_init_(void) { vf_cur_case = tp_case; }
static long long tp_calls = 0;    /* monitored library calls */

#ifndef TP_VIOL
#define TP_VIOL(mon, what)   do { \
		char tp_k_[128]; \
		snprintf(tp_k_, sizeof tp_k_, "%s:%s", tp_prop, (mon)); \
		vf_viol(tp_k_, (what), "%s", tp_case); \
	} while (0)
#endif

/* ------------------------------------------------------------------ */
/* suites */

typedef struct {
	uint16_t id;
	const char *name;
	int kx;        /* 0 RSA, 1 ECDHE_RSA, 2 ECDHE_ECDSA, 3 ECDH_RSA, 4 ECDH_ECDSA */
	int enc;       /* 0 3DES-CBC, 1 AES128-CBC, 2 AES256-CBC, 3 AES128-GCM, 4 AES256-GCM,
	                  5 AES128-CCM, 6 AES256-CCM, 7 AES128-CCM8, 8 AES256-CCM8, 9 CHACHA */
	int mac;       /* CBC: 2 SHA1, 4 SHA256, 5 SHA384; AEAD: 0 */
	int prf;       /* 4 SHA256, 5 SHA384 (TLS1.2) */
	int tls12only;
} tp_suite_info;

#define TP_KX_RSA 0
#define TP_KX_ECDHE_RSA 1
#define TP_KX_ECDHE_ECDSA 2
#define TP_KX_ECDH_RSA 3
#define TP_KX_ECDH_ECDSA 4

static const tp_suite_info tp_suites[] = {
	{ 0x000A, "RSA_3DES_SHA", 0, 0, 2, 4, 0 },
	{ 0x002F, "RSA_AES128_SHA", 0, 1, 2, 4, 0 },
	{ 0x0035, "RSA_AES256_SHA", 0, 2, 2, 4, 0 },
	{ 0x003C, "RSA_AES128_SHA256", 0, 1, 4, 4, 1 },
	{ 0x003D, "RSA_AES256_SHA256", 0, 2, 4, 4, 1 },
	{ 0x009C, "RSA_AES128_GCM", 0, 3, 0, 4, 1 },
	{ 0x009D, "RSA_AES256_GCM", 0, 4, 0, 5, 1 },
	{ 0xC09C, "RSA_AES128_CCM", 0, 5, 0, 4, 1 },
	{ 0xC09D, "RSA_AES256_CCM", 0, 6, 0, 4, 1 },
	{ 0xC0A0, "RSA_AES128_CCM8", 0, 7, 0, 4, 1 },
	{ 0xC0A1, "RSA_AES256_CCM8", 0, 8, 0, 4, 1 },
	{ 0xC003, "ECDH_ECDSA_3DES_SHA", 4, 0, 2, 4, 0 },
	{ 0xC004, "ECDH_ECDSA_AES128_SHA", 4, 1, 2, 4, 0 },
	{ 0xC005, "ECDH_ECDSA_AES256_SHA", 4, 2, 2, 4, 0 },
	{ 0xC008, "ECDHE_ECDSA_3DES_SHA", 2, 0, 2, 4, 0 },
	{ 0xC009, "ECDHE_ECDSA_AES128_SHA", 2, 1, 2, 4, 0 },
	{ 0xC00A, "ECDHE_ECDSA_AES256_SHA", 2, 2, 2, 4, 0 },
	{ 0xC00D, "ECDH_RSA_3DES_SHA", 3, 0, 2, 4, 0 },
	{ 0xC00E, "ECDH_RSA_AES128_SHA", 3, 1, 2, 4, 0 },
	{ 0xC00F, "ECDH_RSA_AES256_SHA", 3, 2, 2, 4, 0 },
	{ 0xC012, "ECDHE_RSA_3DES_SHA", 1, 0, 2, 4, 0 },
	{ 0xC013, "ECDHE_RSA_AES128_SHA", 1, 1, 2, 4, 0 },
	{ 0xC014, "ECDHE_RSA_AES256_SHA", 1, 2, 2, 4, 0 },
	{ 0xC023, "ECDHE_ECDSA_AES128_SHA256", 2, 1, 4, 4, 1 },
	{ 0xC024, "ECDHE_ECDSA_AES256_SHA384", 2, 2, 5, 5, 1 },
	{ 0xC025, "ECDH_ECDSA_AES128_SHA256", 4, 1, 4, 4, 1 },
	{ 0xC026, "ECDH_ECDSA_AES256_SHA384", 4, 2, 5, 5, 1 },
	{ 0xC027, "ECDHE_RSA_AES128_SHA256", 1, 1, 4, 4, 1 },
	{ 0xC028, "ECDHE_RSA_AES256_SHA384", 1, 2, 5, 5, 1 },
	{ 0xC029, "ECDH_RSA_AES128_SHA256", 3, 1, 4, 4, 1 },
	{ 0xC02A, "ECDH_RSA_AES256_SHA384", 3, 2, 5, 5, 1 },
	{ 0xC02B, "ECDHE_ECDSA_AES128_GCM", 2, 3, 0, 4, 1 },
	{ 0xC02C, "ECDHE_ECDSA_AES256_GCM", 2, 4, 0, 5, 1 },
	{ 0xC02D, "ECDH_ECDSA_AES128_GCM", 4, 3, 0, 4, 1 },
	{ 0xC02E, "ECDH_ECDSA_AES256_GCM", 4, 4, 0, 5, 1 },
	{ 0xC02F, "ECDHE_RSA_AES128_GCM", 1, 3, 0, 4, 1 },
	{ 0xC030, "ECDHE_RSA_AES256_GCM", 1, 4, 0, 5, 1 },
	{ 0xC031, "ECDH_RSA_AES128_GCM", 3, 3, 0, 4, 1 },
	{ 0xC032, "ECDH_RSA_AES256_GCM", 3, 4, 0, 5, 1 },
	{ 0xC0AC, "ECDHE_ECDSA_AES128_CCM", 2, 5, 0, 4, 1 },
	{ 0xC0AD, "ECDHE_ECDSA_AES256_CCM", 2, 6, 0, 4, 1 },
	{ 0xC0AE, "ECDHE_ECDSA_AES128_CCM8", 2, 7, 0, 4, 1 },
	{ 0xC0AF, "ECDHE_ECDSA_AES256_CCM8", 2, 8, 0, 4, 1 },
	{ 0xCCA8, "ECDHE_RSA_CHACHA", 1, 9, 0, 4, 1 },
	{ 0xCCA9, "ECDHE_ECDSA_CHACHA", 2, 9, 0, 4, 1 },
};
#define TP_NSUITES (sizeof tp_suites / sizeof tp_suites[0])

static inline const tp_suite_info *
tp_suite_find(uint16_t id)
{
	size_t i;
	for (i = 0; i < TP_NSUITES; i ++) if (tp_suites[i].id == id) return &tp_suites[i];
	return NULL;
}

/* server key kinds */
#define TP_KEY_RSA    0   /* RSA key, RSA issuer */
#define TP_KEY_ECEC   1   /* EC P-256 key, EC issuer */
#define TP_KEY_ECRSA  2   /* EC P-256 key, RSA issuer */
#define TP_KEY_RSA_WEAK 3  /* RSA-768 key, RSA issuer (below the default minimum) */

/* is the suite usable with this server key kind? */
static inline int
tp_suite_fits_key(const tp_suite_info *s, int keykind)
{
	switch (s->kx) {
	case TP_KX_RSA: case TP_KX_ECDHE_RSA: return keykind == TP_KEY_RSA;
	case TP_KX_ECDHE_ECDSA: return keykind == TP_KEY_ECEC || keykind == TP_KEY_ECRSA;
	case TP_KX_ECDH_RSA: return keykind == TP_KEY_ECRSA;
	case TP_KX_ECDH_ECDSA: return keykind == TP_KEY_ECEC;
	}
	return 0;
}

/* a key kind that fits the suite (the first one) */
static inline int
tp_key_for_suite(const tp_suite_info *s, int alt)
{
	switch (s->kx) {
	case TP_KX_RSA: case TP_KX_ECDHE_RSA: return TP_KEY_RSA;
	case TP_KX_ECDHE_ECDSA: return alt ? TP_KEY_ECRSA : TP_KEY_ECEC;
	case TP_KX_ECDH_RSA: return TP_KEY_ECRSA;
	default: return TP_KEY_ECEC;
	}
}

/* ------------------------------------------------------------------ */
/* fixtures decoded once */

typedef struct {
	br_rsa_private_key rsa;
	br_ec_private_key ec;
	int type;
	unsigned char store[2048];
} tp_skey;

typedef struct {
	br_x509_trust_anchor ta;
	unsigned char dn[256];
	unsigned char key[600];
} tp_anchor;

static struct {
	int ready;
	tp_skey srv_rsa, srv_ecec, srv_ecrsa, srv_ec384, cli_rsa, cli_ec, other_rsa, other_ec, weak_rsa, cli_rsa4k;
	br_x509_certificate ch_srv_rsa[1], ch_srv_ecec[1], ch_srv_ecrsa[1], ch_srv_ec384[1],
		ch_cli_rsa[1], ch_cli_ec[1], ch_weak_rsa[1], ch_cli_rsa4k[1];
	/* longer chains: leaf + intermediate, a leaf of 21 kB + intermediate, leaf + the (superfluous) root */
	br_x509_certificate ch_srv_rsa_int[2], ch_srv_ecrsa_int[2], ch_cli_rsa_int[2], ch_srv_rsa_big[2], ch_srv_rsa_root[2];
	tp_anchor anchors[3];      /* ca_rsa, ca_ec, ca_other */
	br_x509_trust_anchor tas[3];
} tp_fx;

static void
tp_load_skey(tp_skey *k, const unsigned char *der, size_t len)
{
	br_skey_decoder_context dc;
	unsigned char *p = k->store;
	br_skey_decoder_init(&dc);
	br_skey_decoder_push(&dc, der, len);
	if (br_skey_decoder_last_error(&dc) != 0) {
		fprintf(stderr, "fixture key decode error %d\n", br_skey_decoder_last_error(&dc));
		exit(2);
	}
	k->type = br_skey_decoder_key_type(&dc);
	if (k->type == BR_KEYTYPE_RSA) {
		const br_rsa_private_key *rk = br_skey_decoder_get_rsa(&dc);
		k->rsa = *rk;
#define TP_CP(f, l) memcpy(p, rk->f, rk->l); k->rsa.f = p; p += rk->l;
		TP_CP(p, plen) TP_CP(q, qlen) TP_CP(dp, dplen) TP_CP(dq, dqlen) TP_CP(iq, iqlen)
#undef TP_CP
	} else {
		const br_ec_private_key *ek = br_skey_decoder_get_ec(&dc);
		k->ec = *ek;
		memcpy(p, ek->x, ek->xlen);
		k->ec.x = p;
	}
}

static void
tp_dn_append(void *ctx, const void *buf, size_t len)
{
	tp_anchor *a = ctx;
	if (a->ta.dn.len + len > sizeof a->dn) { fprintf(stderr, "fixture DN too long\n"); exit(2); }
	memcpy(a->dn + a->ta.dn.len, buf, len);
	a->ta.dn.len += len;
}

static void
tp_load_anchor(tp_anchor *a, const unsigned char *der, size_t len)
{
	br_x509_decoder_context dc;
	br_x509_pkey *pk;
	memset(a, 0, sizeof *a);
	a->ta.dn.data = a->dn;
	a->ta.dn.len = 0;
	br_x509_decoder_init(&dc, tp_dn_append, a, 0, 0);
	br_x509_decoder_push(&dc, der, len);
	pk = br_x509_decoder_get_pkey(&dc);
	if (pk == NULL) { fprintf(stderr, "fixture CA decode error\n"); exit(2); }
	a->ta.flags = BR_X509_TA_CA;
	a->ta.pkey = *pk;
	if (pk->key_type == BR_KEYTYPE_RSA) {
		memcpy(a->key, pk->key.rsa.n, pk->key.rsa.nlen);
		a->ta.pkey.key.rsa.n = a->key;
		memcpy(a->key + pk->key.rsa.nlen, pk->key.rsa.e, pk->key.rsa.elen);
		a->ta.pkey.key.rsa.e = a->key + pk->key.rsa.nlen;
	} else {
		memcpy(a->key, pk->key.ec.q, pk->key.ec.qlen);
		a->ta.pkey.key.ec.q = a->key;
	}
}

#define TP_CERT(dst, name)  do { (dst)[0].data = (unsigned char *)FX_##name##_crt; \
		(dst)[0].data_len = FX_##name##_crt_len; } while (0)

static void
tp_fixtures(void)
{
	if (tp_fx.ready) return;
	tp_load_skey(&tp_fx.srv_rsa, FX_srv_rsa_key, FX_srv_rsa_key_len);
	tp_load_skey(&tp_fx.srv_ecec, FX_srv_ecec_key, FX_srv_ecec_key_len);
	tp_load_skey(&tp_fx.srv_ecrsa, FX_srv_ecrsa_key, FX_srv_ecrsa_key_len);
	tp_load_skey(&tp_fx.srv_ec384, FX_srv_ec384_key, FX_srv_ec384_key_len);
	tp_load_skey(&tp_fx.cli_rsa, FX_cli_rsa_key, FX_cli_rsa_key_len);
	tp_load_skey(&tp_fx.cli_ec, FX_cli_ec_key, FX_cli_ec_key_len);
	tp_load_skey(&tp_fx.other_rsa, FX_other_rsa_key, FX_other_rsa_key_len);
	tp_load_skey(&tp_fx.other_ec, FX_other_ec_key, FX_other_ec_key_len);
	tp_load_skey(&tp_fx.weak_rsa, FX_weak_rsa_key, FX_weak_rsa_key_len);
	tp_load_skey(&tp_fx.cli_rsa4k, FX_cli_rsa4k_key, FX_cli_rsa4k_key_len);
	TP_CERT(tp_fx.ch_srv_rsa, srv_rsa);
	TP_CERT(tp_fx.ch_srv_ecec, srv_ecec);
	TP_CERT(tp_fx.ch_srv_ecrsa, srv_ecrsa);
	TP_CERT(tp_fx.ch_srv_ec384, srv_ec384);
	TP_CERT(tp_fx.ch_cli_rsa, cli_rsa);
	TP_CERT(tp_fx.ch_cli_ec, cli_ec);
	TP_CERT(tp_fx.ch_weak_rsa, weak_rsa);
	TP_CERT(tp_fx.ch_cli_rsa4k, cli_rsa4k);
	TP_CERT(tp_fx.ch_srv_rsa_int, srv_rsa_int); TP_CERT(tp_fx.ch_srv_rsa_int + 1, int_rsa);
	TP_CERT(tp_fx.ch_srv_ecrsa_int, srv_ecrsa_int); TP_CERT(tp_fx.ch_srv_ecrsa_int + 1, int_rsa);
	TP_CERT(tp_fx.ch_cli_rsa_int, cli_rsa_int); TP_CERT(tp_fx.ch_cli_rsa_int + 1, int_rsa);
	TP_CERT(tp_fx.ch_srv_rsa_big, srv_rsa_big); TP_CERT(tp_fx.ch_srv_rsa_big + 1, int_rsa);
	TP_CERT(tp_fx.ch_srv_rsa_root, srv_rsa); TP_CERT(tp_fx.ch_srv_rsa_root + 1, ca_rsa);
	tp_load_anchor(&tp_fx.anchors[0], FX_ca_rsa_crt, FX_ca_rsa_crt_len);
	tp_load_anchor(&tp_fx.anchors[1], FX_ca_ec_crt, FX_ca_ec_crt_len);
	tp_load_anchor(&tp_fx.anchors[2], FX_ca_other_crt, FX_ca_other_crt_len);
	tp_fx.tas[0] = tp_fx.anchors[0].ta;
	tp_fx.tas[1] = tp_fx.anchors[1].ta;
	tp_fx.tas[2] = tp_fx.anchors[2].ta;
	tp_fx.ready = 1;
}

/* ------------------------------------------------------------------ */
/* X.509 validator wrapper: forwards to br_x509_minimal and records calls */

typedef struct {
	const br_x509_class *vtable;
	br_x509_minimal_context *inner;
	int n_start_chain, n_start_cert, n_end_chain, n_get_pkey;
	char server_name[260];
	int has_server_name;
	uint64_t cert_hash[8];      /* FNV hash of each certificate's bytes */
	size_t cert_len[8];
	unsigned last_verdict;
	int verdict_seen;
	/* scripted behaviour (C03): */
	int force_verdict;          /* -1: honest; else value returned by end_chain */
	const br_x509_pkey *force_pkey;   /* NULL: honest */
	int force_null_pkey;        /* get_pkey returns NULL although end_chain reported success */
	int force_usages;           /* -1 honest */
	uint64_t cur_hash;
} tp_xwrap;

static void
tpx_start_chain(const br_x509_class **ctx, const char *server_name)
{
	tp_xwrap *w = (tp_xwrap *)(void *)ctx;
	w->n_start_chain ++;
	w->n_start_cert = 0;
	w->verdict_seen = 0;
	w->has_server_name = server_name != NULL;
	if (server_name != NULL) {
		snprintf(w->server_name, sizeof w->server_name, "%s", server_name);
	} else {
		w->server_name[0] = 0;
	}
	w->inner->vtable->start_chain(&w->inner->vtable, server_name);
}

static void
tpx_start_cert(const br_x509_class **ctx, uint32_t length)
{
	tp_xwrap *w = (tp_xwrap *)(void *)ctx;
	if (w->n_start_cert < 8) w->cert_len[w->n_start_cert] = length;
	w->cur_hash = 0;
	w->inner->vtable->start_cert(&w->inner->vtable, length);
}

static void
tpx_append(const br_x509_class **ctx, const unsigned char *buf, size_t len)
{
	tp_xwrap *w = (tp_xwrap *)(void *)ctx;
	w->cur_hash = vf_fnv(buf, len, w->cur_hash);
	w->inner->vtable->append(&w->inner->vtable, buf, len);
}

static void
tpx_end_cert(const br_x509_class **ctx)
{
	tp_xwrap *w = (tp_xwrap *)(void *)ctx;
	if (w->n_start_cert < 8) w->cert_hash[w->n_start_cert] = w->cur_hash;
	w->n_start_cert ++;
	w->inner->vtable->end_cert(&w->inner->vtable);
}

static unsigned
tpx_end_chain(const br_x509_class **ctx)
{
	tp_xwrap *w = (tp_xwrap *)(void *)ctx;
	unsigned r = w->inner->vtable->end_chain(&w->inner->vtable);
	w->n_end_chain ++;
	if (w->force_verdict >= 0) r = (unsigned)w->force_verdict;
	w->last_verdict = r;
	w->verdict_seen = 1;
	return r;
}

static const br_x509_pkey *
tpx_get_pkey(const br_x509_class *const *ctx, unsigned *usages)
{
	tp_xwrap *w = (tp_xwrap *)(void *)ctx;
	const br_x509_pkey *pk;
	w->n_get_pkey ++;
	pk = w->inner->vtable->get_pkey(
		(const br_x509_class *const *)&w->inner->vtable, usages);
	if (w->force_pkey != NULL) pk = w->force_pkey;
	if (w->force_null_pkey) pk = NULL;
	if (w->force_usages >= 0 && usages != NULL) *usages = (unsigned)w->force_usages;
	return pk;
}

static const br_x509_class tpx_vtable = {
	sizeof(tp_xwrap),
	tpx_start_chain, tpx_start_cert, tpx_append, tpx_end_cert, tpx_end_chain, tpx_get_pkey
};

/* the chain an endpoint configured with cfg sends (server: its own; client: its certificate when asked) */
static const br_x509_certificate *
tp_chain_pick(int role, int keykind, int client_auth, int use_ec384, int chain_kind, size_t *n)
{
	*n = 1;
	if (role == 1) {
		switch (keykind) {
		case 0 /* TP_KEY_RSA */:
			if (chain_kind == 1) { *n = 2; return tp_fx.ch_srv_rsa_int; }
			if (chain_kind == 2) { *n = 2; return tp_fx.ch_srv_rsa_big; }
			if (chain_kind == 3) { *n = 2; return tp_fx.ch_srv_rsa_root; }
			return tp_fx.ch_srv_rsa;
		case 3 /* TP_KEY_RSA_WEAK */: return tp_fx.ch_weak_rsa;
		case 1 /* TP_KEY_ECEC */: return use_ec384 ? tp_fx.ch_srv_ec384 : tp_fx.ch_srv_ecec;
		default:
			if (chain_kind == 1) { *n = 2; return tp_fx.ch_srv_ecrsa_int; }
			return tp_fx.ch_srv_ecrsa;
		}
	}
	if (client_auth == 1) {
		if (chain_kind == 1) { *n = 2; return tp_fx.ch_cli_rsa_int; }
		if (chain_kind == 2) return tp_fx.ch_cli_rsa4k;    /* RSA-4096 client key: 512-byte signatures */
		return tp_fx.ch_cli_rsa;
	}
	if (client_auth == 2) return tp_fx.ch_cli_ec;
	*n = 0;
	return NULL;
}

/* ------------------------------------------------------------------ */
/* endpoint */

#define TP_LAYOUT_MONO   0    /* one buffer, half duplex */
#define TP_LAYOUT_SPLIT1 1    /* one buffer, split by the engine (bidi=1) */
#define TP_LAYOUT_SPLIT2 2    /* two separate buffers */

typedef struct {
	int role;                 /* 0 client, 1 server */
	int layout;
	size_t buflen;            /* mono/split1: whole buffer; split2: input buffer */
	size_t buflen_out;        /* split2: output buffer */
	unsigned vmin, vmax;      /* 0 = leave default (TLS 1.0 .. 1.2) */
	const uint16_t *suites;   /* NULL = profile default */
	size_t nsuites;
	int keykind;              /* server */
	int use_ec384;            /* server EC key on P-384 (ECEC only) */
	int client_auth;          /* server: 1 = request client certificate; client: 0 none, 1 RSA, 2 EC */
	uint32_t flags;
	int flags_set;
	const char *sni;          /* client; NULL = "localhost" ; "" = no SNI (NULL passed) */
	const char **alpn;
	size_t nalpn;
	int resume;               /* client: second argument of br_ssl_client_reset */
	const br_ssl_session_cache_class **cache;  /* server */
	unsigned char seed[32];
	int seeder_mode;          /* 1 fixed (default), 2 fail, 3 none, 0 untouched */
	int inject_entropy;       /* call br_ssl_engine_inject_entropy(seed) before reset */
	int reuse_ctx;            /* do not re-initialise the context (resumption on same client) */
	int impl_set;             /* 0 library defaults (AES-NI, pclmul, SSE2 here); 1 the small constant-time set an ESP8266 gets (aes_ct, des_ct, ghash_ctmul32, chacha20_ct,
	                             poly1305_ctmul32, EC all_m15, RSA/ECDSA i15); 2 table-based / 32-bit set (aes_big, des_tab, ghash_ctmul, poly1305_ctmul, EC all_m31, i31); 3 64-bit set (aes_ct64, ghash_ctmul64, poly1305_ctmulq) */
	int ta_plain_names;       /* server, client_auth: br_ssl_server_set_trust_anchor_names instead of _alt */
	const unsigned char *inject_bytes;   /* with inject_entropy: 32 bytes to inject instead of seed[] */
	int only_curve;           /* 0: every curve of the EC implementation; else the single curve (BR_EC_*) the engine may use */
	int chain_kind;           /* own chain: 0 the single certificate; 1 leaf + intermediate; 2 a 21 kB leaf + intermediate (Certificate
	                             message larger than a record); 3 leaf + the root itself.  RSA server key: all; EC key with RSA-signed
	                             certificate and RSA client certificate: 1; ignored elsewhere (see tp_chain_of) */
	int mismatch_key;         /* server: private key that does not match the chain; client: same for the client certificate */
	/* hooks for property-specific configuration just before reset */
	unsigned min_ch_len;       /* client: br_ssl_client_set_min_clienthello_len (0 = no padding) */
	int profile;               /* server: 0 = br_ssl_server_init_full_*; 1..7 = init_mine2c, mine2g, minf2c, minf2g, minr2g, minu2g, minv2g (the key kind must fit) */
	void (*pre_reset)(void *ep, void *arg);
	void *pre_reset_arg;
} tp_cfg;

typedef struct {
	tp_cfg cfg;
	br_ssl_client_context *cc;
	br_ssl_server_context *sc;
	br_ssl_engine_context *eng;
	br_x509_minimal_context *xc;
	tp_xwrap *xw;
	unsigned char *buf, *buf_out;      /* exact-size mallocs */
	size_t buf_len, buf_out_len;
	int reset_ok;
	/* C06 monitor memory */
	int closed_seen;
	int closed_err;
	/* application stream */
	uint64_t tx_key, rx_key;
	size_t tx_done, rx_done;
	int ever_sendapp, ever_recvapp;
	int closed_kx_seen;
	br_ec_impl ec_only;                /* copy of the engine's EC implementation restricted to cfg.only_curve */
	size_t pending_ack;      /* bytes handed to the transport but not yet acknowledged to the engine (completion-style I/O) */
	const unsigned char *in_hi, *out_lo;   /* engine-split single buffer: highest end of an input region / lowest start of an output region seen */
	size_t bytes_out, bytes_in;        /* record bytes moved */
	int rx_bad;                        /* stream oracle failure seen */
} tp_ep;

static void
tp_cfg_default(tp_cfg *c, int role)
{
	memset(c, 0, sizeof *c);
	c->role = role;
	c->layout = TP_LAYOUT_SPLIT1;
	c->buflen = BR_SSL_BUFSIZE_BIDI;
	c->seeder_mode = 1;
	c->keykind = TP_KEY_RSA;
}

/* position-coded stream: byte i of a stream with key k */
static inline unsigned char
tp_stream_byte(uint64_t key, size_t i)
{
	uint64_t x = key + (uint64_t)(i >> 3) * 0x9E3779B97F4A7C15ull;
	uint64_t z = vf_splitmix(&x);
	return (unsigned char)(z >> (8 * (i & 7)));
}

static void
tp_ep_free(tp_ep *ep)
{
	free(ep->cc); free(ep->sc); free(ep->xc); free(ep->xw);
	free(ep->buf); free(ep->buf_out);
	memset(ep, 0, sizeof *ep);
}

static const br_hash_class *tp_hashes[] = {
	NULL, &br_md5_vtable, &br_sha1_vtable, &br_sha224_vtable,
	&br_sha256_vtable, &br_sha384_vtable, &br_sha512_vtable
};

static void tp_check(tp_ep *ep, const char *call);

/*
 * Create (or, with cfg->reuse_ctx, re-use) the endpoint and reset it.
 * Returns the value returned by br_ssl_{client,server}_reset.
 */
/* a flag documented as "non-zero": any non-zero value, not only 1 */
static int
tp_truthy(int v)
{
	static const int t[4] = { 1, 2, -1, 0x100 };
	static unsigned tick;
	return v ? t[tick ++ & 3] : 0;
}

static int
tp_ep_start(tp_ep *ep, const tp_cfg *cfg)
{
	int reuse = cfg->reuse_ctx && (ep->cc != NULL || ep->sc != NULL);
	int r, i;

	tp_fixtures();
	if (!reuse) {
		tp_ep_free(ep);
	}
	ep->cfg = *cfg;
	ep->closed_seen = 0;
	ep->tx_done = ep->rx_done = 0;
	ep->ever_sendapp = ep->ever_recvapp = 0;
	ep->closed_kx_seen = 0;
	ep->in_hi = ep->out_lo = NULL;
	ep->pending_ack = 0;
	ep->bytes_in = ep->bytes_out = 0;
	ep->rx_bad = 0;
	if (!reuse) {
		ep->xw = calloc(1, sizeof *ep->xw);
		ep->xc = malloc(sizeof *ep->xc);
		if (cfg->role == 0) {
			ep->cc = malloc(sizeof *ep->cc);
			ep->eng = &ep->cc->eng;
			br_ssl_client_init_full(ep->cc, ep->xc, tp_fx.tas, 3);
		} else {
			ep->sc = malloc(sizeof *ep->sc);
			ep->eng = &ep->sc->eng;
			size_t chn;
			const br_x509_certificate *chp = tp_chain_pick(1, cfg->keykind, 0, cfg->use_ec384, cfg->chain_kind, &chn);
			switch (cfg->profile ? 100 + cfg->profile : cfg->keykind) {
			/* the minimal profiles of the library, as they are (TLS 1.2, one suite, SHA-256 only) */
			case 101: br_ssl_server_init_mine2c(ep->sc, chp, chn, &tp_fx.srv_rsa.rsa); break;
			case 102: br_ssl_server_init_mine2g(ep->sc, chp, chn, &tp_fx.srv_rsa.rsa); break;
			case 103: br_ssl_server_init_minf2c(ep->sc, chp, chn, cfg->keykind == TP_KEY_ECEC ? &tp_fx.srv_ecec.ec : &tp_fx.srv_ecrsa.ec); break;
			case 104: br_ssl_server_init_minf2g(ep->sc, chp, chn, cfg->keykind == TP_KEY_ECEC ? &tp_fx.srv_ecec.ec : &tp_fx.srv_ecrsa.ec); break;
			case 105: br_ssl_server_init_minr2g(ep->sc, chp, chn, &tp_fx.srv_rsa.rsa); break;
			case 106: br_ssl_server_init_minu2g(ep->sc, chp, chn, &tp_fx.srv_ecrsa.ec); break;
			case 107: br_ssl_server_init_minv2g(ep->sc, chp, chn, &tp_fx.srv_ecec.ec); break;
			case TP_KEY_RSA:
				br_ssl_server_init_full_rsa(ep->sc, chp, chn,
					cfg->mismatch_key ? &tp_fx.other_rsa.rsa : &tp_fx.srv_rsa.rsa);
				break;
			case TP_KEY_RSA_WEAK:
				br_ssl_server_init_full_rsa(ep->sc, tp_fx.ch_weak_rsa, 1, &tp_fx.weak_rsa.rsa);
				break;
			case TP_KEY_ECEC:
				if (cfg->use_ec384) {
					br_ssl_server_init_full_ec(ep->sc, tp_fx.ch_srv_ec384, 1,
						BR_KEYTYPE_EC, &tp_fx.srv_ec384.ec);
				} else {
					br_ssl_server_init_full_ec(ep->sc, tp_fx.ch_srv_ecec, 1,
						BR_KEYTYPE_EC, cfg->mismatch_key ? &tp_fx.other_ec.ec : &tp_fx.srv_ecec.ec);
				}
				break;
			default:
				br_ssl_server_init_full_ec(ep->sc, chp, chn,
					BR_KEYTYPE_RSA, cfg->mismatch_key ? &tp_fx.other_ec.ec : &tp_fx.srv_ecrsa.ec);
				break;
			}
			if (cfg->client_auth) {
				br_x509_minimal_init(ep->xc, &br_sha256_vtable, tp_fx.tas, 3);
				for (i = 1; i <= 6; i ++) {
					br_x509_minimal_set_hash(ep->xc, i, tp_hashes[i]);
				}
				br_ssl_engine_set_default_rsavrfy(ep->eng);
				br_ssl_engine_set_default_ecdsa(ep->eng);
				br_x509_minimal_set_rsa(ep->xc, br_rsa_pkcs1_vrfy_get_default());
				br_x509_minimal_set_ecdsa(ep->xc, br_ec_get_default(),
					br_ecdsa_vrfy_asn1_get_default());
				if (cfg->ta_plain_names) {
					static br_x500_name tp_ta_names[3];
					int q;
					for (q = 0; q < 3; q ++) tp_ta_names[q] = tp_fx.tas[q].dn;
					br_ssl_server_set_trust_anchor_names(ep->sc, tp_ta_names, 3);
				} else {
					br_ssl_server_set_trust_anchor_names_alt(ep->sc, tp_fx.tas, 3);
				}
			}
			if (cfg->cache != NULL) {
				br_ssl_server_set_cache(ep->sc, cfg->cache);
			}
		}
		/* validator wrapper (client always; server when client auth is requested) */
		ep->xw->vtable = &tpx_vtable;
		ep->xw->inner = ep->xc;
		ep->xw->force_verdict = -1;
		ep->xw->force_usages = -1;
		if (cfg->role == 0 || cfg->client_auth) {
			br_ssl_engine_set_x509(ep->eng, &ep->xw->vtable);
		}
		if (cfg->role == 0 && cfg->client_auth == 1) {
			size_t chn;
			const br_x509_certificate *chp = tp_chain_pick(0, 0, 1, 0, cfg->chain_kind, &chn);
			br_ssl_client_set_single_rsa(ep->cc, chp, chn,
				cfg->mismatch_key ? &tp_fx.other_rsa.rsa : cfg->chain_kind == 2 ? &tp_fx.cli_rsa4k.rsa : &tp_fx.cli_rsa.rsa,
				br_rsa_pkcs1_sign_get_default());
		} else if (cfg->role == 0 && cfg->client_auth == 2) {
			br_ssl_client_set_single_ec(ep->cc, tp_fx.ch_cli_ec, 1,
				cfg->mismatch_key ? &tp_fx.other_ec.ec : &tp_fx.cli_ec.ec,
				BR_KEYTYPE_KEYX | BR_KEYTYPE_SIGN,
				BR_KEYTYPE_EC, br_ec_get_default(),
				br_ecdsa_sign_asn1_get_default());
		}
		/* buffers: exact-size heap blocks so that ASan bounds them */
		if (cfg->layout == TP_LAYOUT_SPLIT2) {
			ep->buf_len = cfg->buflen;
			ep->buf_out_len = cfg->buflen_out;
			ep->buf = malloc(ep->buf_len ? ep->buf_len : 1);
			ep->buf_out = malloc(ep->buf_out_len ? ep->buf_out_len : 1);
			br_ssl_engine_set_buffers_bidi(ep->eng, ep->buf, ep->buf_len,
				ep->buf_out, ep->buf_out_len);
		} else {
			ep->buf_len = cfg->buflen;
			ep->buf = malloc(ep->buf_len ? ep->buf_len : 1);
			br_ssl_engine_set_buffer(ep->eng, ep->buf, ep->buf_len,
				tp_truthy(cfg->layout == TP_LAYOUT_SPLIT1));
		}
	}
	if (!reuse && cfg->impl_set) {
		br_ssl_engine_context *e = ep->eng;
		switch (cfg->impl_set) {
		case 1:
			br_ssl_engine_set_aes_cbc(e, &br_aes_ct_cbcenc_vtable, &br_aes_ct_cbcdec_vtable);
			br_ssl_engine_set_aes_ctr(e, &br_aes_ct_ctr_vtable);
			br_ssl_engine_set_aes_ctrcbc(e, &br_aes_ct_ctrcbc_vtable);
			br_ssl_engine_set_des_cbc(e, &br_des_ct_cbcenc_vtable, &br_des_ct_cbcdec_vtable);
			br_ssl_engine_set_ghash(e, &br_ghash_ctmul32);
			br_ssl_engine_set_chacha20(e, &br_chacha20_ct_run);
			br_ssl_engine_set_poly1305(e, &br_poly1305_ctmul32_run);
			br_ssl_engine_set_ec(e, &br_ec_all_m15);
			br_ssl_engine_set_rsavrfy(e, &br_rsa_i15_pkcs1_vrfy);
			br_ssl_engine_set_ecdsa(e, &br_ecdsa_i15_vrfy_asn1);
			if (cfg->role == 0) br_ssl_client_set_rsapub(ep->cc, &br_rsa_i15_public);
			break;
		case 2:
			br_ssl_engine_set_aes_cbc(e, &br_aes_big_cbcenc_vtable, &br_aes_big_cbcdec_vtable);
			br_ssl_engine_set_aes_ctr(e, &br_aes_big_ctr_vtable);
			br_ssl_engine_set_aes_ctrcbc(e, &br_aes_big_ctrcbc_vtable);
			br_ssl_engine_set_des_cbc(e, &br_des_tab_cbcenc_vtable, &br_des_tab_cbcdec_vtable);
			br_ssl_engine_set_ghash(e, &br_ghash_ctmul);
			br_ssl_engine_set_chacha20(e, &br_chacha20_ct_run);
			br_ssl_engine_set_poly1305(e, &br_poly1305_ctmul_run);
			br_ssl_engine_set_ec(e, &br_ec_all_m31);
			br_ssl_engine_set_rsavrfy(e, &br_rsa_i31_pkcs1_vrfy);
			br_ssl_engine_set_ecdsa(e, &br_ecdsa_i31_vrfy_asn1);
			if (cfg->role == 0) br_ssl_client_set_rsapub(ep->cc, &br_rsa_i31_public);
			break;
		default:
			br_ssl_engine_set_aes_cbc(e, &br_aes_ct64_cbcenc_vtable, &br_aes_ct64_cbcdec_vtable);
			br_ssl_engine_set_aes_ctr(e, &br_aes_ct64_ctr_vtable);
			br_ssl_engine_set_aes_ctrcbc(e, &br_aes_ct64_ctrcbc_vtable);
			br_ssl_engine_set_ghash(e, &br_ghash_ctmul64);
			br_ssl_engine_set_poly1305(e, &br_poly1305_i15_run);
			if (br_poly1305_ctmulq_get() != 0) br_ssl_engine_set_poly1305(e, br_poly1305_ctmulq_get());
			br_ssl_engine_set_ec(e, &br_ec_prime_i31);
			if (cfg->role == 0) br_ssl_client_set_rsapub(ep->cc, &br_rsa_i32_public);
			break;
		}
	}
	if (!reuse && cfg->only_curve) {
		const br_ec_impl *cur = br_ssl_engine_get_ec(ep->eng);
		if (cur != NULL && ((cur->supported_curves >> cfg->only_curve) & 1)) {
			ep->ec_only = *cur;
			ep->ec_only.supported_curves = (uint32_t)1 << cfg->only_curve;
			br_ssl_engine_set_ec(ep->eng, &ep->ec_only);
		}
	}
	if (cfg->vmin != 0) {
		br_ssl_engine_set_versions(ep->eng, cfg->vmin, cfg->vmax);
	}
	if (cfg->suites != NULL) {
		br_ssl_engine_set_suites(ep->eng, cfg->suites, cfg->nsuites);
	}
	if (cfg->flags_set) {
		/* the three ways to get there: all at once; everything removed, then added; one flag at a time */
		static unsigned tp_flag_way;
		switch (tp_flag_way ++ % 3) {
		case 0: br_ssl_engine_set_all_flags(ep->eng, cfg->flags); break;
		case 1: br_ssl_engine_remove_flags(ep->eng, 0xFFFFFFFFu); br_ssl_engine_add_flags(ep->eng, cfg->flags); break;
		default: {
			uint32_t b;
			for (b = 1; b != 0 && b <= 0x8000; b <<= 1) {
				if (cfg->flags & b) br_ssl_engine_add_flags(ep->eng, b); else br_ssl_engine_remove_flags(ep->eng, b);
			}
			br_ssl_engine_remove_flags(ep->eng, ~(uint32_t)0xFFFF);
			break;
		}
		}
		if (br_ssl_engine_get_flags(ep->eng) != (cfg->flags & 0xFFFF) && br_ssl_engine_get_flags(ep->eng) != cfg->flags) {
			TP_VIOL("setup:flags-not-as-set", "br_ssl_engine_get_flags does not return the flags that were set");
		}
	}
	if (cfg->alpn != NULL) {
		br_ssl_engine_set_protocol_names(ep->eng, cfg->alpn, cfg->nalpn);
	}
	if (cfg->pre_reset != NULL) {
		cfg->pre_reset(ep, cfg->pre_reset_arg);
	}
#ifdef BR_VERIF
	br_verif_seeder_mode = cfg->seeder_mode;
	memcpy(br_verif_seed, cfg->seed, 32);
#endif
	if (cfg->inject_entropy) {
		br_ssl_engine_inject_entropy(ep->eng, cfg->inject_bytes ? cfg->inject_bytes : cfg->seed, 32);
	}
	if (cfg->role == 0) {
		const char *sni = cfg->sni == NULL ? "localhost" : (cfg->sni[0] ? cfg->sni : NULL);
		br_ssl_client_set_min_clienthello_len(ep->cc, (uint16_t)cfg->min_ch_len);
		r = br_ssl_client_reset(ep->cc, sni, tp_truthy(cfg->resume));
	} else {
		r = br_ssl_server_reset(ep->sc);
	}
	ep->reset_ok = r;
	tp_calls ++;
	tp_check(ep, "reset");
	return r;
}

/* ------------------------------------------------------------------ */
/* C06 coherence monitor: public API only */

static int
tp_inside(const unsigned char *p, size_t len, const unsigned char *b, size_t blen)
{
	return b != NULL && p >= b && len <= blen && (size_t)(p - b) <= blen - len;
}

static void
tp_check(tp_ep *ep, const char *call)
{
	br_ssl_engine_context *e = ep->eng;
	unsigned st = br_ssl_engine_current_state(e);
	int err = br_ssl_engine_last_error(e);
	size_t l1, l2, l3, l4;
	unsigned char *p1, *p2, *p3, *p4;
	char what[200];

	vf_stat("c06_checks", 1);
	p1 = br_ssl_engine_sendapp_buf(e, &l1);
	p2 = br_ssl_engine_recvapp_buf(e, &l2);
	p3 = br_ssl_engine_sendrec_buf(e, &l3);
	p4 = br_ssl_engine_recvrec_buf(e, &l4);
#define TP_C06(cond, name)   do { if (!(cond)) { \
		snprintf(what, sizeof what, "after %s: %s (state=0x%02x err=%d role=%d)", \
			call, name, st, err, ep->cfg.role); \
		TP_VIOL("c06:" name, what); } } while (0)
	if (st & BR_SSL_CLOSED) {
		TP_C06(st == BR_SSL_CLOSED, "closed-not-exclusive");
		TP_C06(p1 == NULL && p2 == NULL && p3 == NULL && p4 == NULL
			&& l1 == 0 && l2 == 0 && l3 == 0 && l4 == 0, "closed-offers-buffer");
		if (ep->closed_seen) {
			TP_C06(err == ep->closed_err, "error-code-changed");
		}
		ep->closed_seen = 1;
		ep->closed_err = err;
	} else {
		TP_C06(!ep->closed_seen, "reopened-after-close");
		TP_C06(st != 0, "no-operation-offered");
		TP_C06(err == 0, "error-without-closed");
	}
	TP_C06(((p1 != NULL) == (l1 > 0)) && ((l1 > 0) == ((st & BR_SSL_SENDAPP) != 0)), "sendapp-flag-mismatch");
	TP_C06(((p2 != NULL) == (l2 > 0)) && ((l2 > 0) == ((st & BR_SSL_RECVAPP) != 0)), "recvapp-flag-mismatch");
	TP_C06(((p3 != NULL) == (l3 > 0)) && ((l3 > 0) == ((st & BR_SSL_SENDREC) != 0)), "sendrec-flag-mismatch");
	TP_C06(((p4 != NULL) == (l4 > 0)) && ((l4 > 0) == ((st & BR_SSL_RECVREC) != 0)), "recvrec-flag-mismatch");
	TP_C06(!((st & BR_SSL_SENDREC) && (st & BR_SSL_SENDAPP)), "sendrec-with-sendapp");
	TP_C06(!((st & BR_SSL_RECVREC) && (st & BR_SSL_RECVAPP)), "recvrec-with-recvapp");
	{
		const unsigned char *ib = ep->buf, *ob;
		size_t il = ep->buf_len, ol;
		if (ep->cfg.layout == TP_LAYOUT_SPLIT2) { ob = ep->buf_out; ol = ep->buf_out_len; }
		else { ob = ep->buf; ol = ep->buf_len; }
		/* for SPLIT1 the engine chooses the split point; the caller-visible
		   guarantee is containment in the single caller buffer */
		if (p1) TP_C06(tp_inside(p1, l1, ob, ol), "sendapp-outside-buffer");
		if (p3) TP_C06(tp_inside(p3, l3, ob, ol), "sendrec-outside-buffer");
		if (p2) TP_C06(tp_inside(p2, l2, ib, il), "recvapp-outside-buffer");
		if (p4) TP_C06(tp_inside(p4, l4, ib, il), "recvrec-outside-buffer");
		if (ep->cfg.layout == TP_LAYOUT_SPLIT1) {
			/* the engine splits the single buffer once, at set_buffer time: input regions and output regions
			   must stay on their own side of that (unknown) point for the whole life of the context */
			if (p2 && (ep->in_hi == NULL || p2 + l2 > ep->in_hi)) ep->in_hi = p2 + l2;
			if (p4 && (ep->in_hi == NULL || p4 + l4 > ep->in_hi)) ep->in_hi = p4 + l4;
			if (p1 && (ep->out_lo == NULL || p1 < ep->out_lo)) ep->out_lo = p1;
			if (p3 && (ep->out_lo == NULL || p3 < ep->out_lo)) ep->out_lo = p3;
			TP_C06(ep->in_hi == NULL || ep->out_lo == NULL || ep->in_hi <= ep->out_lo, "input-region-reaches-into-output-part");
		}
	}
	/* br_ssl_key_export() while SENDAPP is offered (every 16th such call: it costs a PRF): the engine is connected, the
	   export must be granted.  What the call answers on closed or failed engines is not part of any property here
	   (the header says 0; the code tests application_data only, which a failure does not clear): counted, not judged */
	{
		static unsigned kx_tick;
		unsigned char kx[20];
		if ((st & BR_SSL_SENDAPP) && (kx_tick ++ & 15) == 0) {
			TP_C06(br_ssl_key_export(e, kx, sizeof kx, "EXPORTER-verif-state", NULL, 0) == 1, "key-export-refused-in-application-data-state");
			vf_stat("c06_key_export_grants_checked", 1);
		} else if ((st & BR_SSL_CLOSED) && !ep->closed_kx_seen) {
			ep->closed_kx_seen = 1;
			vf_stat(br_ssl_key_export(e, kx, sizeof kx, "EXPORTER-verif-state", NULL, 0)
				? (err ? "unjudged_key_export_granted_on_failed_engine" : "unjudged_key_export_granted_on_closed_engine")
				: "unjudged_key_export_refused_on_closed_engine", 1);
		}
	}
#undef TP_C06
	if (st & BR_SSL_SENDAPP) ep->ever_sendapp = 1;
	if (st & BR_SSL_RECVAPP) ep->ever_recvapp = 1;
}

/* ------------------------------------------------------------------ */
/* FIFO */

typedef struct {
	unsigned char *data;
	size_t cap, rd, wr;
	uint64_t total;   /* bytes ever appended */
} tp_fifo;

static void
tp_fifo_init(tp_fifo *f)
{
	f->cap = 1 << 16;
	f->data = malloc(f->cap);
	f->rd = f->wr = 0;
	f->total = 0;
}

static void
tp_fifo_free(tp_fifo *f) { free(f->data); f->data = NULL; }

static size_t tp_fifo_len(const tp_fifo *f) { return f->wr - f->rd; }

static void
tp_fifo_put(tp_fifo *f, const void *src, size_t len)
{
	if (f->rd == f->wr) f->rd = f->wr = 0;
	if (f->wr + len > f->cap) {
		memmove(f->data, f->data + f->rd, f->wr - f->rd);
		f->wr -= f->rd; f->rd = 0;
		while (f->wr + len > f->cap) f->cap *= 2;
		f->data = realloc(f->data, f->cap);
	}
	memcpy(f->data + f->wr, src, len);
	f->wr += len;
	f->total += len;
}

/* ------------------------------------------------------------------ */
/* monitored primitive actions on a BearSSL endpoint */

/* engine -> fifo, at most k bytes; returns bytes moved */
static size_t
tp_act_sendrec(tp_ep *ep, tp_fifo *out, size_t k)
{
	size_t len;
	unsigned char *b = br_ssl_engine_sendrec_buf(ep->eng, &len);
	if (b == NULL) return 0;
	if (k > len) k = len;
	if (k == 0) k = 1;
	tp_fifo_put(out, b, k);
	br_ssl_engine_sendrec_ack(ep->eng, k);
	ep->bytes_out += k;
	tp_calls ++;
	tp_check(ep, "sendrec_ack");
	return k;
}

/* fifo -> engine */
static size_t
tp_act_recvrec(tp_ep *ep, tp_fifo *in, size_t k)
{
	size_t len, av = tp_fifo_len(in);
	unsigned char *b = br_ssl_engine_recvrec_buf(ep->eng, &len);
	if (b == NULL || av == 0) return 0;
	if (k > len) k = len;
	if (k > av) k = av;
	if (k == 0) k = 1;
	memcpy(b, in->data + in->rd, k);
	in->rd += k;
	br_ssl_engine_recvrec_ack(ep->eng, k);
	ep->bytes_in += k;
	tp_calls ++;
	tp_check(ep, "recvrec_ack");
	return k;
}

/* application writes k bytes of its position-coded stream */
static size_t
tp_act_write(tp_ep *ep, size_t k)
{
	size_t len, i;
	unsigned char *b = br_ssl_engine_sendapp_buf(ep->eng, &len);
	if (b == NULL) return 0;
	if (k > len) k = len;
	if (k == 0) return 0;
	for (i = 0; i < k; i ++) b[i] = tp_stream_byte(ep->tx_key, ep->tx_done + i);
	br_ssl_engine_sendapp_ack(ep->eng, k);
	ep->tx_done += k;
	tp_calls ++;
	tp_check(ep, "sendapp_ack");
	return k;
}

/* application reads k bytes and compares them with the expected stream */
static size_t
tp_act_read(tp_ep *ep, size_t k)
{
	size_t len, i;
	unsigned char *b = br_ssl_engine_recvapp_buf(ep->eng, &len);
	if (b == NULL) return 0;
	if (k > len) k = len;
	if (k == 0) k = 1;
	for (i = 0; i < k; i ++) {
		if (b[i] != tp_stream_byte(ep->rx_key, ep->rx_done + i)) {
			if (!ep->rx_bad) {
				char what[160];
				snprintf(what, sizeof what,
					"role %d read byte %02x at stream position %zu, expected %02x",
					ep->cfg.role, b[i], ep->rx_done + i,
					tp_stream_byte(ep->rx_key, ep->rx_done + i));
				TP_VIOL("stream:wrong-byte", what);
			}
			ep->rx_bad = 1;
			break;
		}
	}
	br_ssl_engine_recvapp_ack(ep->eng, k);
	ep->rx_done += k;
	tp_calls ++;
	tp_check(ep, "recvapp_ack");
	return k;
}

static void
tp_act_flush(tp_ep *ep, int force)
{
	br_ssl_engine_flush(ep->eng, tp_truthy(force));
	tp_calls ++;
	tp_check(ep, "flush");
}

static void
tp_act_close(tp_ep *ep)
{
	br_ssl_engine_close(ep->eng);
	tp_calls ++;
	tp_check(ep, "close");
}

static int
tp_act_reneg(tp_ep *ep)
{
	int r = br_ssl_engine_renegotiate(ep->eng);
	tp_calls ++;
	tp_check(ep, "renegotiate");
	return r;
}

/* ------------------------------------------------------------------ */
/* snapshot / restore (same addresses) */

typedef struct {
	unsigned char *ctx, *buf, *buf_out, *xc, *xw;
	tp_ep ep;
} tp_snap;

static void
tp_snap_take(tp_snap *s, const tp_ep *ep)
{
	size_t cl = ep->cfg.role == 0 ? sizeof(br_ssl_client_context) : sizeof(br_ssl_server_context);
	void *c = ep->cfg.role == 0 ? (void *)ep->cc : (void *)ep->sc;
	s->ctx = vf_raw_dup(c, cl);
	s->buf = vf_dup(ep->buf, ep->buf_len);
	s->buf_out = ep->buf_out ? vf_dup(ep->buf_out, ep->buf_out_len) : NULL;
	s->xc = vf_raw_dup(ep->xc, sizeof *ep->xc);
	s->xw = vf_dup(ep->xw, sizeof *ep->xw);
	s->ep = *ep;
}

static void
tp_snap_restore(const tp_snap *s, tp_ep *ep)
{
	size_t cl;
	void *c;
	*ep = s->ep;
	cl = ep->cfg.role == 0 ? sizeof(br_ssl_client_context) : sizeof(br_ssl_server_context);
	c = ep->cfg.role == 0 ? (void *)ep->cc : (void *)ep->sc;
	vf_raw_copy(c, s->ctx, cl);
	memcpy(ep->buf, s->buf, ep->buf_len);
	if (ep->buf_out) memcpy(ep->buf_out, s->buf_out, ep->buf_out_len);
	vf_raw_copy(ep->xc, s->xc, sizeof *ep->xc);
	memcpy(ep->xw, s->xw, sizeof *ep->xw);
}

static void
tp_snap_free(tp_snap *s)
{
	free(s->ctx); free(s->buf); free(s->buf_out); free(s->xc); free(s->xw);
	memset(s, 0, sizeof *s);
}

/* ------------------------------------------------------------------ */
/* chunk policies for the scheduler */

#define TP_CHUNK_ONE     0   /* always one byte */
#define TP_CHUNK_SMALL   1   /* 1..17 bytes */
#define TP_CHUNK_RANDOM  2   /* 1..available */
#define TP_CHUNK_WHOLE   3   /* everything available */
#define TP_CHUNK_MIXED   4   /* each action picks one of the above */

static size_t
tp_chunk(vf_rng *r, int policy, size_t avail)
{
	if (avail <= 1) return avail;
	if (policy == TP_CHUNK_MIXED) policy = (int)vf_below(r, 4);
	switch (policy) {
	case TP_CHUNK_ONE: return 1;
	case TP_CHUNK_SMALL: { size_t k = 1 + vf_below(r, 17); return k > avail ? avail : k; }
	case TP_CHUNK_RANDOM: return 1 + vf_below(r, (uint32_t)avail);
	default: return avail;
	}
}

/* ------------------------------------------------------------------ */
/* A pair of BearSSL endpoints and a pump */

typedef struct {
	tp_ep c, s;
	tp_fifo c2s, s2c;
	vf_rng rng;
	int chunk_policy;
	int defer_acks;        /* split buffers: outgoing bytes are given to the transport at once, acknowledged to the engine later */
	uint64_t sched_hash;   /* hash of the action sequence: schedule id */
	long steps;
	/* optional tap called for every chunk that enters a fifo: dir 0 = c2s */
	void (*tap)(void *arg, int dir, const unsigned char *data, size_t len);
	void *tap_arg;
} tp_pair;

static void
tp_pair_init(tp_pair *p, uint64_t seed, uint64_t stream, int chunk_policy)
{
	memset(p, 0, sizeof *p);
	tp_fifo_init(&p->c2s);
	tp_fifo_init(&p->s2c);
	vf_rng_init(&p->rng, seed, stream);
	p->chunk_policy = chunk_policy;
}

static void
tp_pair_free(tp_pair *p)
{
	tp_ep_free(&p->c);
	tp_ep_free(&p->s);
	tp_fifo_free(&p->c2s);
	tp_fifo_free(&p->s2c);
}

static void
tp_sched_note(tp_pair *p, int action, size_t k)
{
	unsigned char b[5];
	b[0] = (unsigned char)action;
	b[1] = (unsigned char)k; b[2] = (unsigned char)(k >> 8);
	b[3] = (unsigned char)(k >> 16); b[4] = 0;
	p->sched_hash = vf_fnv(b, 5, p->sched_hash);
	p->steps ++;
}

/*
 * One transport step chosen at random among the enabled record-level
 * actions (both endpoints, both directions). Returns 0 if none is enabled.
 */
static int
tp_pump_step(tp_pair *p)
{
	int en[4], n = 0, pick, a;
	size_t len, k = 0;
	unsigned sc = br_ssl_engine_current_state(p->c.eng);
	unsigned ss = br_ssl_engine_current_state(p->s.eng);

	/* completion-style output: the ack of bytes already handed over comes later, whatever happened to the engine meanwhile */
	if (p->c.pending_ack) en[n ++] = 4; else
	if (sc & BR_SSL_SENDREC) en[n ++] = 0;
	if (p->s.pending_ack) en[n ++] = 5; else
	if (ss & BR_SSL_SENDREC) en[n ++] = 1;
	if ((sc & BR_SSL_RECVREC) && tp_fifo_len(&p->s2c) > 0) en[n ++] = 2;
	if ((ss & BR_SSL_RECVREC) && tp_fifo_len(&p->c2s) > 0) en[n ++] = 3;
	if (n == 0) return 0;
	pick = (int)vf_below(&p->rng, (uint32_t)n);
	a = en[pick];
	switch (a) {
	case 0: case 1: {
		tp_ep *e = a == 0 ? &p->c : &p->s;
		tp_fifo *f = a == 0 ? &p->c2s : &p->s2c;
		unsigned char *b = br_ssl_engine_sendrec_buf(e->eng, &len);
		if (p->defer_acks && e->cfg.layout != TP_LAYOUT_MONO && b != NULL && vf_below(&p->rng, 2) == 0) {
			k = tp_chunk(&p->rng, p->chunk_policy, len);
			if (k == 0 || k > len) k = len;
			tp_fifo_put(f, b, k);
			e->bytes_out += k;
			e->pending_ack = k;
		} else {
			k = tp_act_sendrec(e, f, tp_chunk(&p->rng, p->chunk_policy, len));
		}
		if (p->tap) p->tap(p->tap_arg, a, f->data + (f->wr - k), k);
		break;
	}
	case 4: case 5: {
		tp_ep *e = a == 4 ? &p->c : &p->s;
		k = e->pending_ack;
		e->pending_ack = 0;
		br_ssl_engine_sendrec_ack(e->eng, k);
		tp_calls ++;
		tp_check(e, "sendrec_ack (deferred)");
		break;
	}
	case 2:
		br_ssl_engine_recvrec_buf(p->c.eng, &len);
		if (len > tp_fifo_len(&p->s2c)) len = tp_fifo_len(&p->s2c);
		k = tp_act_recvrec(&p->c, &p->s2c, tp_chunk(&p->rng, p->chunk_policy, len));
		break;
	case 3:
		br_ssl_engine_recvrec_buf(p->s.eng, &len);
		if (len > tp_fifo_len(&p->c2s)) len = tp_fifo_len(&p->c2s);
		k = tp_act_recvrec(&p->s, &p->c2s, tp_chunk(&p->rng, p->chunk_policy, len));
		break;
	}
	tp_sched_note(p, a, k);
	return 1;
}

/* pump transport until nothing moves or a predicate holds; returns steps */
static long
tp_pump_until_quiet(tp_pair *p, long max_steps)
{
	long n = 0;
	while (n < max_steps && tp_pump_step(p)) n ++;
	return n;
}

static int
tp_ep_ready(const tp_ep *ep)
{
	return (br_ssl_engine_current_state(ep->eng) & BR_SSL_SENDAPP) != 0;
}

static int
tp_ep_closed(const tp_ep *ep)
{
	return br_ssl_engine_current_state(ep->eng) == BR_SSL_CLOSED;
}

/*
 * Run the handshake: pump until both endpoints offer SENDAPP, or one is
 * closed, or nothing moves. Returns 1 if both are ready.
 */
static int
tp_handshake(tp_pair *p, long max_steps)
{
	long n = 0;
	while (n < max_steps) {
		if (tp_ep_ready(&p->c) && tp_ep_ready(&p->s)
			&& tp_fifo_len(&p->c2s) == 0 && tp_fifo_len(&p->s2c) == 0
			&& !(br_ssl_engine_current_state(p->c.eng) & BR_SSL_SENDREC)
			&& !(br_ssl_engine_current_state(p->s.eng) & BR_SSL_SENDREC))
		{
			return 1;
		}
		if (!tp_pump_step(p)) break;
		n ++;
	}
	return tp_ep_ready(&p->c) && tp_ep_ready(&p->s);
}

/* ------------------------------------------------------------------ */
/* session parameter comparison (C01 oracle 2) */

static void
tp_compare_params(tp_pair *p, int expect_version, int expect_suite)
{
	br_ssl_session_parameters pc, ps;
	unsigned char ec[48], es[48];
	static const char *labels[2] = { "EXPORTER-verif-a", "EXPORTER-verif-b" };
	int i;
	char what[200];

	br_ssl_engine_get_session_parameters(p->c.eng, &pc);
	br_ssl_engine_get_session_parameters(p->s.eng, &ps);
	vf_stat("param_compares", 1);
	if (pc.version != ps.version
		|| br_ssl_engine_get_version(p->c.eng) != br_ssl_engine_get_version(p->s.eng)
		|| pc.version != br_ssl_engine_get_version(p->c.eng))
	{
		snprintf(what, sizeof what, "version client=%04x server=%04x", pc.version, ps.version);
		TP_VIOL("params:version-mismatch", what);
	}
	if (expect_version && pc.version != expect_version) {
		snprintf(what, sizeof what, "version %04x, expected %04x", pc.version, expect_version);
		TP_VIOL("params:version-unexpected", what);
	}
	if (pc.cipher_suite != ps.cipher_suite) {
		snprintf(what, sizeof what, "suite client=%04x server=%04x", pc.cipher_suite, ps.cipher_suite);
		TP_VIOL("params:suite-mismatch", what);
	}
	if (expect_suite && pc.cipher_suite != expect_suite) {
		snprintf(what, sizeof what, "suite %04x, expected %04x", pc.cipher_suite, expect_suite);
		TP_VIOL("params:suite-unexpected", what);
	}
	if (pc.session_id_len != ps.session_id_len
		|| memcmp(pc.session_id, ps.session_id, pc.session_id_len) != 0)
	{
		TP_VIOL("params:session-id-mismatch", "session IDs differ");
	}
	if (memcmp(pc.master_secret, ps.master_secret, 48) != 0) {
		TP_VIOL("params:master-secret-mismatch", "master secrets differ");
	}
	for (i = 0; i < 2; i ++) {
		int rc, rs;
		const void *ctxp = i ? "ctx" : NULL;
		size_t ctxl = i ? 3 : 0;
		memset(ec, 0, sizeof ec); memset(es, 1, sizeof es);
		rc = br_ssl_key_export(p->c.eng, ec, sizeof ec, labels[i], ctxp, ctxl);
		rs = br_ssl_key_export(p->s.eng, es, sizeof es, labels[i], ctxp, ctxl);
		if (!rc || !rs || memcmp(ec, es, sizeof ec) != 0) {
			TP_VIOL("params:key-export-mismatch", "exported keying material differs");
		}
	}
}


/* ------------------------------------------------------------------ */
/* data phase: both applications write their planned streams and read
   everything; scheduler interleaves transport and application actions */

#define TP_W_ONE    0   /* 1-byte writes */
#define TP_W_SMALL  1   /* 1..40 */
#define TP_W_MEDIUM 2   /* 1..1500 */
#define TP_W_WHOLE  3   /* as much as offered */
#define TP_W_MIXED  4

static size_t
tp_wsize(vf_rng *r, int policy, size_t avail)
{
	size_t k;
	if (policy == TP_W_MIXED) policy = (int)vf_below(r, 4);
	switch (policy) {
	case TP_W_ONE: k = 1; break;
	case TP_W_SMALL: k = 1 + vf_below(r, 40); break;
	case TP_W_MEDIUM: k = 1 + vf_below(r, 1500); break;
	default: k = avail; break;
	}
	return k > avail ? avail : k;
}

/*
 * Returns 1 when each side wrote tx_total bytes and the other side read
 * them all; 0 if the pair stalled or an endpoint closed before that.
 */
static int
tp_run_data(tp_pair *p, size_t c_total, size_t s_total, int wpolicy, long max_steps)
{
	long n = 0;
	int idle = 0;
	tp_ep *eps[2];
	size_t totals[2];
	eps[0] = &p->c; eps[1] = &p->s;
	totals[0] = c_total; totals[1] = s_total;
	while (n ++ < max_steps) {
		int acts[8], na = 0, i, a;
		if (p->c.tx_done >= c_total && p->s.tx_done >= s_total
			&& p->s.rx_done >= c_total && p->c.rx_done >= s_total)
		{
			return 1;
		}
		if (tp_ep_closed(&p->c) || tp_ep_closed(&p->s)) return 0;
		for (i = 0; i < 2; i ++) {
			unsigned st = br_ssl_engine_current_state(eps[i]->eng);
			if ((st & BR_SSL_SENDAPP) && eps[i]->tx_done < totals[i]) acts[na ++] = i;       /* write */
			if (st & BR_SSL_RECVAPP) acts[na ++] = 2 + i;                                    /* read */
		}
		/* transport gets about half of the turns when both kinds are enabled */
		if (na == 0 || vf_below(&p->rng, 2)) {
			if (tp_pump_step(p)) { idle = 0; continue; }
		}
		if (na == 0) {
			/* nothing enabled: flush pending application data, then retry */
			if (idle ++ > 2) return 0;
			tp_act_flush(&p->c, 0);
			tp_act_flush(&p->s, 0);
			tp_sched_note(p, 9, 0);
			continue;
		}
		idle = 0;
		a = acts[vf_below(&p->rng, (uint32_t)na)];
		if (a < 2) {
			size_t len, k, rem = totals[a] - eps[a]->tx_done;
			br_ssl_engine_sendapp_buf(eps[a]->eng, &len);
			if (len > rem) len = rem;
			k = tp_act_write(eps[a], tp_wsize(&p->rng, wpolicy, len));
			tp_sched_note(p, 4 + a, k);
			if (eps[a]->tx_done >= totals[a] || vf_below(&p->rng, 3) == 0) {
				tp_act_flush(eps[a], (int)vf_below(&p->rng, 4) == 0);
				tp_sched_note(p, 8, 0);
			}
		} else {
			size_t len, k;
			br_ssl_engine_recvapp_buf(eps[a - 2]->eng, &len);
			k = tp_act_read(eps[a - 2], tp_chunk(&p->rng, p->chunk_policy, len));
			tp_sched_note(p, 6 + (a - 2), k);
		}
	}
	return 0;
}

/*
 * Orderly close initiated by endpoint `who` (0 client, 1 server, 2 both),
 * then pump until both are closed. Incoming application data that is still
 * pending is read (and checked) first by the closing side's peer.
 * Returns 1 if both ended closed.
 */
static int
tp_run_close(tp_pair *p, int who, long max_steps)
{
	long n = 0;
	if (who == 0 || who == 2) tp_act_close(&p->c);
	if (who == 1 || who == 2) tp_act_close(&p->s);
	while (n ++ < max_steps) {
		size_t len;
		if (tp_ep_closed(&p->c) && tp_ep_closed(&p->s)) return 1;
		if (tp_pump_step(p)) continue;
		if (br_ssl_engine_recvapp_buf(p->c.eng, &len)) { tp_act_read(&p->c, len); continue; }
		if (br_ssl_engine_recvapp_buf(p->s.eng, &len)) { tp_act_read(&p->s, len); continue; }
		break;
	}
	return tp_ep_closed(&p->c) && tp_ep_closed(&p->s);
}


/* pump and read (checking the stream oracle) until nothing moves any more */
static void
tp_settle(tp_pair *p, long max_steps)
{
	long n = 0;
	for (;;) {
		size_t l;
		int moved = 0;
		while (n ++ < max_steps && tp_pump_step(p)) moved = 1;
		while (br_ssl_engine_recvapp_buf(p->c.eng, &l)) { tp_act_read(&p->c, l); moved = 1; }
		while (br_ssl_engine_recvapp_buf(p->s.eng, &l)) { tp_act_read(&p->s, l); moved = 1; }
		if (!moved || n >= max_steps) break;
	}
}

#endif
