/*
 * C08: the server's ClientKeyExchange handling with a secret private key,
 * inside a real in-process handshake (BearSSL client <-> BearSSL server from
 * the tree under test, over the tlspair FIFOs), run under valgrind/memcheck.
 *
 *   ctrun_hs <scenario> [--seed S]
 *     rsa_good rsa_bad_pad rsa_bad_sep rsa_bad_version        (TLS_RSA_*)
 *     rsav_good rsav_bad_version rsav_neg_version              (TLS_RSA_*, session negotiated below the offered version)
 *     ecdhe_good ecdhe_bad_point                              (ECDHE_RSA, ephemeral key)
 *     ecdh_good ecdh_bad_point                                (static ECDH_ECDSA key)
 *
 * The handshake runs untainted until the client's ClientKeyExchange record is
 * on the wire.  A man in the middle then optionally replaces the encrypted
 * premaster / the client point, the server's private key (RSA factors and
 * exponents; ephemeral or static EC scalar) is marked secret, and the
 * ClientKeyExchange and ChangeCipherSpec records are delivered.  The client's
 * Finished is NOT delivered: everything after it is record-layer parsing of
 * decrypted content, which is not constant-time by design.  The server must
 * report no error at that point in every scenario (a bad premaster / bad point
 * is replaced by a random one in constant time) and the digest of the master
 * secret must equal the one of the native run.
 */
#include "tlspair.h"
#include "inner.h"
#include <valgrind/memcheck.h>

#define SECRET(p, n)   do { (void)VALGRIND_MAKE_MEM_UNDEFINED((p), (n)); } while (0)
#define PUBLIC(p, n)   do { (void)VALGRIND_MAKE_MEM_DEFINED((p), (n)); } while (0)

static void
die(const char *m)
{
	fprintf(stderr, "ctrun_hs: %s\n", m);
	exit(3);
}

static tp_pair P;
static const char *scen;

/* move everything the endpoint wants to send into the fifo */
static void
drain(tp_ep *ep, tp_fifo *f)
{
	while (br_ssl_engine_current_state(ep->eng) & BR_SSL_SENDREC) {
		if (tp_act_sendrec(ep, f, (size_t)-1) == 0) break;
	}
}

/* deliver exactly n bytes from the fifo to the endpoint */
static void
deliver(tp_ep *ep, tp_fifo *f, size_t n)
{
	while (n > 0) {
		size_t k;
		if (!(br_ssl_engine_current_state(ep->eng) & BR_SSL_RECVREC)) die("endpoint does not accept records");
		k = tp_act_recvrec(ep, f, n);
		if (k == 0) die("no progress");
		n -= k;
	}
}

static void
taint_rsa_key(br_rsa_private_key *sk)
{
	if (sk->plen > 1) SECRET(sk->p + 1, sk->plen - 1);
	if (sk->qlen > 1) SECRET(sk->q + 1, sk->qlen - 1);
	SECRET(sk->dp, sk->dplen);
	SECRET(sk->dq, sk->dqlen);
	SECRET(sk->iq, sk->iqlen);
}

/* replace the encrypted premaster inside the CKE record (at rec, total len) */
static void
mitm_rsa(unsigned char *rec, size_t len)
{
	br_rsa_private_key *sk = &tp_fx.srv_rsa.rsa;
	size_t n = (sk->n_bitlen + 7) >> 3;
	unsigned char *epms;
	br_rsa_public_key pk;
	const br_x509_pkey *xpk;

	/* record hdr(5) | hs type(1) len(3) | epms len(2) | epms(n) */
	if (len != 5 + 4 + 2 + n || rec[5] != 16) die("unexpected ClientKeyExchange layout");
	epms = rec + 11;
	/* the server's public key as the client validated it */
	xpk = (*P.c.eng->x509ctx)->get_pkey(P.c.eng->x509ctx, NULL);
	if (xpk == NULL || xpk->key_type != BR_KEYTYPE_RSA) die("no RSA server key at the client");
	pk = xpk->key.rsa;
	if (getenv("HS_DEBUG")) fprintf(stderr, "epms before %s\n", vf_hexs(epms, 32));
	if (!br_rsa_i31_private(epms, sk)) die("native decryption of the premaster failed");
	if (getenv("HS_DEBUG")) fprintf(stderr, "padded %s .. %s nlen=%u\n", vf_hexs(epms, 16), vf_hexs(epms + n - 50, 50), (unsigned)pk.nlen);
	if (epms[0] != 0 || epms[1] != 2 || epms[n - 49] != 0) die("client premaster is not PKCS#1 v1.5");
	if (!strcmp(scen, "rsa_bad_pad")) epms[1] = 1;
	else if (!strcmp(scen, "rsa_bad_sep")) epms[n - 49] = 0x17;
	else if (!strcmp(scen, "rsa_bad_version") || !strcmp(scen, "rsav_bad_version")) epms[n - 47] ^= 1;
	else if (!strcmp(scen, "rsav_neg_version")) { epms[n - 48] = 3; epms[n - 47] = 2; }   /* the negotiated version instead of the offered one */
	else if (!strcmp(scen, "rsa_reenc")) { /* unchanged: checks the MITM itself */ }
	if (!br_rsa_i31_public(epms, n, &pk)) die("re-encryption failed");
	if (getenv("HS_DEBUG")) fprintf(stderr, "epms after  %s\n", vf_hexs(epms, 32));
}

int
main(int argc, char **argv)
{
	tp_cfg cc, sc;
	uint16_t suite;
	int kx, i, got_cke = 0;
	uint64_t dig;
	unsigned char ms[48];
	int err;
	long seed;

	if (argc < 2) die("usage: ctrun_hs <scenario> [--seed S]");
	scen = argv[1];
	seed = (long)vf_argi(argc, argv, "--seed", 1);
	tp_prop = "C08";
	if (!strncmp(scen, "rsa_", 4)) { suite = 0x003C; kx = TP_KX_RSA; }
	else if (!strncmp(scen, "rsav_", 5)) { suite = 0x002F; kx = TP_KX_RSA; }      /* negotiated version (1.1) below the version the client offered (1.2) */
	else if (!strncmp(scen, "ecdhe_", 6)) { suite = 0xC027; kx = TP_KX_ECDHE_RSA; }
	else if (!strncmp(scen, "ecdh_", 5)) { suite = 0xC025; kx = TP_KX_ECDH_ECDSA; }
	else { die("unknown scenario"); return 3; }

	tp_pair_init(&P, (uint64_t)seed, 8, TP_CHUNK_WHOLE);
	tp_cfg_default(&cc, 0);
	tp_cfg_default(&sc, 1);
	cc.suites = &suite; cc.nsuites = 1; cc.vmin = cc.vmax = BR_TLS12;
	sc.suites = &suite; sc.nsuites = 1; sc.vmin = sc.vmax = BR_TLS12;
	if (!strncmp(scen, "rsav_", 5)) { cc.vmin = BR_TLS10; cc.vmax = BR_TLS12; sc.vmin = BR_TLS10; sc.vmax = BR_TLS11; }
	sc.keykind = (kx == TP_KX_ECDH_ECDSA) ? TP_KEY_ECEC : TP_KEY_RSA;
	for (i = 0; i < 32; i ++) { cc.seed[i] = (unsigned char)(seed * 7 + i); sc.seed[i] = (unsigned char)(seed * 13 + 101 + i); }
	if (!tp_ep_start(&P.c, &cc) || !tp_ep_start(&P.s, &sc)) die("reset failed");

	for (i = 0; i < 64 && !got_cke; i ++) {
		drain(&P.c, &P.c2s);
		/* client -> server, record by record */
		while (tp_fifo_len(&P.c2s) >= 5) {
			unsigned char *r = P.c2s.data + P.c2s.rd;
			size_t rl = 5 + ((size_t)r[3] << 8 | r[4]);
			if (tp_fifo_len(&P.c2s) < rl) die("partial record in the fifo");
			if (r[0] == 22 && r[5] == 16) {
				/* ---- ClientKeyExchange: the part under test starts here */
				got_cke = 1;
				if (kx == TP_KX_RSA) {
					if (strcmp(scen, "rsa_good") != 0 && strcmp(scen, "rsav_good") != 0) mitm_rsa(r, rl);
					taint_rsa_key(&tp_fx.srv_rsa.rsa);
				} else {
					/* hdr(5) | 16 len(3) | point len(1) | point */
					if (!strcmp(scen, "ecdhe_bad_point") || !strcmp(scen, "ecdh_bad_point")) r[rl - 1] ^= 1;
					if (kx == TP_KX_ECDHE_RSA) {
						if (P.s.sc->ecdhe_key_len == 0) die("no ephemeral key in the server context");
						SECRET(P.s.sc->ecdhe_key, P.s.sc->ecdhe_key_len);
					} else {
						SECRET(tp_fx.srv_ecec.ec.x, tp_fx.srv_ecec.ec.xlen);
					}
				}
				deliver(&P.s, &P.c2s, rl);
				/* the ChangeCipherSpec record that follows */
				r = P.c2s.data + P.c2s.rd;
				if (tp_fifo_len(&P.c2s) < 6 || r[0] != 20) die("no ChangeCipherSpec after ClientKeyExchange");
				deliver(&P.s, &P.c2s, 6);
				break;
			}
			deliver(&P.s, &P.c2s, rl);
		}
		if (got_cke) break;
		drain(&P.s, &P.s2c);
		while (tp_fifo_len(&P.s2c) > 0 && (br_ssl_engine_current_state(P.c.eng) & BR_SSL_RECVREC)) {
			if (tp_act_recvrec(&P.c, &P.s2c, (size_t)-1) == 0) break;
		}
	}
	if (!got_cke) die("ClientKeyExchange never seen");

	err = br_ssl_engine_last_error(P.s.eng);
	PUBLIC(&err, sizeof err);
	memcpy(ms, P.s.eng->session.master_secret, 48);
	{
		/* self-check of the taint flow: the master secret must be secret-derived */
		unsigned char vb[48];
		int tainted = 0, j;
		memset(vb, 0, sizeof vb);
		if (RUNNING_ON_VALGRIND && VALGRIND_GET_VBITS(ms, vb, 48) == 1) {
			for (j = 0; j < 48; j ++) tainted += vb[j] != 0;
		}
		printf("TAINTED %d\n", tainted);
	}
	PUBLIC(ms, sizeof ms);
	dig = vf_fnv(ms, 48, 0);
	if (vf_argi(argc, argv, "--nodigest", 0)) printf("DIGEST -\n");
	else printf("DIGEST %016llx\n", (unsigned long long)dig);
	if (err != BR_ERR_OK) printf("STATUS unexpected server error %d\n", err);
	else if (br_ssl_engine_current_state(P.s.eng) == BR_SSL_CLOSED) printf("STATUS unexpected server closed\n");
	else printf("STATUS expected\n");
	printf("VALGRIND %d\n", (int)RUNNING_ON_VALGRIND);
	printf("OK\n");
	fflush(stdout);
	return 0;
}
