"""E4 reference validator for br_x509_minimal: evaluates the DOCUMENTED rules
(inc/bearssl_x509.h, implementation notes of src/x509/x509_minimal.t0) on the
ABSTRACT description of a case.  It never sees DER.

case = dict(
  chain    = [cert, ...]            abstract certificates, end-entity first (see x509gen.py)
  anchors  = [dict(dn=DN, key=<key name>, ca=bool), ...]
  server   = bytes or None          expected server name (None / b'' = no name check)
  time     = (Y, M, D, h, m, s)     validation instant
  hashes   = set of hash names enabled for signatures
  rsa, ec  = bool                   RSA / ECDSA verification configured
  minrsa   = int                    minimum RSA modulus length in bytes (default 128)
)

validate(case) -> dict(
  verdict  'A' accept, 'R' reject, 'S' documentation silent (not judged)
  code     first documented error in the documented processing order (only
           meaningful for single-defect cases), None on acceptance
  why      short reason
  depth    index of the certificate at which trust was established
  direct   True for direct trust
  key      (kind, bytes, bytes) expected end-entity key, usages  expected usage mask
)
"""
import datetime
from x509gen import load_keys, pub_bytes, str_content

OK = 0
TRUNCATED = 34
EMPTY_CHAIN = 35
EXTRA_ELEMENT = 40
UNSUPPORTED = 49
WRONG_KEY_TYPE = 51
BAD_SIGNATURE = 52
EXPIRED = 54
DN_MISMATCH = 55
BAD_SERVER_NAME = 56
CRITICAL_EXTENSION = 57
NOT_CA = 58
FORBIDDEN_KEY_USAGE = 59
WEAK_PUBLIC_KEY = 60
LIMIT_EXCEEDED = 50
NOT_TRUSTED = 62

KEYX = 0x10
SIGN = 0x20

# extensions that the documentation lists as always ignored
IGNORED_EXTS = {'aki', 'ski', 'ian', 'sda', 'crldp', 'freshest', 'aia', 'sia'}
QT_CPS = '1.3.6.1.5.5.7.2.1'
SUPPORTED_SIG_HASHES = {'sha1', 'sha224', 'sha256', 'sha384', 'sha512'}
SUPPORTED_CURVES = {'p256', 'p384', 'p521'}
KNOWN_STRING_TYPES = {'utf8', 'numeric', 'printable', 'teletex', 'ia5', 'bmp'}


def instant(t):
    """days since January 1st, 0 AD (proleptic Gregorian; Unix epoch = 719528) and seconds since midnight"""
    Y, M, D, h, m, s = t[:6]
    return (datetime.date(Y, M, D).toordinal() + 365, h * 3600 + m * 60 + s)


def dn_norm(dn):
    return tuple(tuple((a, st, str_content(st, v)) for (a, st, v) in rdn) for rdn in dn)


def dn_equal(a, b):
    """DN matching is byte-to-byte equality of the encodings"""
    return dn_norm(a) == dn_norm(b)


def key_equal(k1, k2):
    K = load_keys()
    a, b = K[k1], K[k2]
    return a['kind'] == b['kind'] and pub_bytes(a) == pub_bytes(b)


def _decode(stype, value):
    """the string as a Python str, or None when it is not a usable string (unknown type, invalid encoding: overlong
    / truncated UTF-8, UTF-8 encoded surrogates, values above U+10FFFF, unpaired UTF-16 surrogates)"""
    if stype not in KNOWN_STRING_TYPES:
        return None
    if isinstance(value, (bytes, bytearray)):
        raw = bytes(value)
        try:
            if stype == 'utf8':
                return raw.decode('utf-8')          # strict: shortest form only, no surrogates, <= U+10FFFF
            if stype == 'bmp':
                return raw.decode('utf-16-be')      # strict: surrogates must be paired
            return raw.decode('latin-1')
        except UnicodeDecodeError:
            return None
    return value


def text_of(stype, value):
    """the string as UTF-8 bytes, or None when it is not a usable string (unknown type, invalid
    encoding, embedded NUL)"""
    s = _decode(stype, value)
    if s is None or '\0' in s:
        return None
    try:
        return s.encode('utf-8')
    except UnicodeEncodeError:
        return None


def text_doubt(stype, value):
    """True when the header does not say what becomes of this (decodable) string: more than 255 bytes of UTF-8
    (the header names no limit, but its list of error conditions is open-ended: "include"), a BMPString using a
    surrogate pair (BMPString is UCS-2; the header only says it is converted to UTF-8), Unicode noncharacters,
    a leading byte order mark"""
    t = text_of(stype, value)
    if t is None:
        return False
    if len(t) > 255:
        return True
    s = t.decode('utf-8')
    if s[:1] == '\ufeff':
        return True
    for ch in s:
        o = ord(ch)
        if 0xFDD0 <= o <= 0xFDEF or (o & 0xFFFE) == 0xFFFE:
            return True
        if stype == 'bmp' and o > 0xFFFF:
            return True
    return False


def _lower(b):
    return bytes(c + 32 if 65 <= c <= 90 else c for c in b)


def name_matches(cert_name, server):
    """case-insensitive (ASCII letters) equality, or a certificate name starting with '*.' whose
    remainder equals the server name with its first label removed"""
    if cert_name is None:
        return False
    a, b = _lower(cert_name), _lower(server)
    if a == b:
        return True
    if a[:2] == b'*.':
        i = b.find(b'.')
        if i < 0:
            return False
        return a[2:] == b[i + 1:]
    return False


def ext_list(c):
    return c.get('exts') or []


def _cert_name_matches(stype, value, server, silent):
    """does this certificate name (CN value / dNSName) match the server name; names whose decoding the header
    leaves open cannot produce a documented match (nor a documented mismatch when they would match)"""
    ok = name_matches(text_of(stype, value), server)
    if ok and text_doubt(stype, value):
        silent.append('name-string-decoding-not-documented')
        return False
    return ok


def server_name_check(c, server, silent):
    """True / False; appends to `silent` when the documentation does not decide"""
    if not server:
        return True
    sans = [e for e in ext_list(c) if e['id'] == 'san']
    if not sans:
        cn_res = [_cert_name_matches(st, v, server, silent) for rdn in c['subject'] for (a, st, v) in rdn if a == 'CN']
        if len(set(cn_res)) > 1:
            silent.append('several-CN')      # several CN with different outcomes: not documented
            return True
        return bool(cn_res and cn_res[0])
    cns = [text_of(st, v) for rdn in c['subject'] for (a, st, v) in rdn if a == 'CN']
    cn_res = [name_matches(n, server) for n in cns]
    if len(set(cn_res)) > 1:
        cn_any = None
    else:
        cn_any = bool(cn_res and cn_res[0])
    if len(sans) > 1:
        silent.append('several-SAN-extensions')
        return True
    dns = [n[1] for n in sans[0]['names'] if n[0] == 'dns']
    if not dns:
        # SAN extension without dNSName: "if there is no SAN extension then the CN is used" does not cover it
        if cn_any is None or cn_any:
            silent.append('SAN-without-dNSName-and-matching-CN')
        return False
    for v in dns:
        if _cert_name_matches('utf8', v if isinstance(v, (bytes, bytearray)) else v.encode('latin-1'), server, silent):
            return True
    return False


def ee_usages(c, silent):
    kus = [e for e in ext_list(c) if e['id'] == 'ku']
    if not kus:
        return KEYX | SIGN
    if len(kus) > 1:
        silent.append('several-KU')
    bits = set(kus[-1]['bits'])
    if not bits:
        silent.append('empty-KU')
    u = 0
    if bits & {'keyEncipherment', 'dataEncipherment', 'keyAgreement'}:
        u |= KEYX
    if bits & {'digitalSignature', 'nonRepudiation'}:
        u |= SIGN
    return u


def ext_errors(c, ee, index):
    """errors raised by the extensions of one certificate, in order of appearance"""
    out = []
    seen_bc = False
    for e in ext_list(c):
        i = e['id']
        if i == 'bc':
            if ee:
                continue
            seen_bc = True
            if not e.get('ca'):
                out.append((NOT_CA, 'bc-not-ca'))
            elif e.get('pathlen') is not None and e['pathlen'] < index - 1:
                # `index - 1` intermediate CA certificates precede this one (EE not counted)
                out.append((NOT_CA, 'pathlen'))
        elif i == 'ku':
            if not ee and 'keyCertSign' not in e['bits']:
                out.append((FORBIDDEN_KEY_USAGE, 'ku-no-certsign'))
        elif i == 'san':
            pass
        elif i == 'policies':
            if e.get('critical'):
                for (po, quals) in e['policies']:
                    if any(q != QT_CPS for q in quals):
                        out.append((CRITICAL_EXTENSION, 'policy-qualifier'))
                        break
        elif i in IGNORED_EXTS:
            pass
        elif e.get('critical'):
            out.append((CRITICAL_EXTENSION, 'critical-' + i))
    if not ee and not seen_bc:
        out.append((NOT_CA, 'bc-missing'))
    return out


def key_errors(c, minrsa):
    K = load_keys()
    k = K[c['key']]
    sp = c.get('spki') or {}
    if k['kind'] == 'ec':
        if 'curve_oid' in sp:
            return [(UNSUPPORTED, 'curve-unsupported')]
    if k['kind'] == 'rsa' and k['nbytes'] < minrsa:
        return [(WEAK_PUBLIC_KEY, 'rsa-weak')]
    # "key or signature size exceeds internal limits" (BR_ERR_X509_LIMIT_EXCEEDED): modulus and exponent share a buffer of
    # BR_X509_BUFSIZE_KEY = 520 bytes
    if k['kind'] == 'rsa' and k['nbytes'] + (k['e'].bit_length() + 7) // 8 > 520:
        return [(LIMIT_EXCEEDED, 'rsa-key-above-buffer')]
    return []


def sig_size_errors(c):
    # a signature value longer than BR_X509_BUFSIZE_SIG = 512 bytes (an RSA signer above 4096 bits)
    k = load_keys()[c['sig']['signer']]
    if c['sig']['alg'] == 'rsa' and k['kind'] == 'rsa' and k['nbytes'] > 512:
        return [(LIMIT_EXCEEDED, 'signature-above-buffer')]
    return []


def sig_verifies(c, keyname, spki, case):
    """(code, why): 0 when the signature on c is valid under the given key"""
    K = load_keys()
    k = K[keyname]
    s = c['sig']
    want = 'rsa' if s['alg'] == 'rsa' else 'ec'
    if k['kind'] != want:
        return WRONG_KEY_TYPE, 'sig-key-type'
    if want == 'rsa' and not case['rsa']:
        return UNSUPPORTED, 'rsa-disabled'
    if want == 'ec' and not case['ec']:
        return UNSUPPORTED, 'ecdsa-disabled'
    if s.get('bad'):
        return BAD_SIGNATURE, 'sig-bad'
    if not key_equal(s['signer'], keyname):
        return BAD_SIGNATURE, 'sig-other-key'
    if k['kind'] == 'ec' and spki and spki.get('curve_label') and spki['curve_label'] != k['curve']:
        return BAD_SIGNATURE, 'curve-mislabeled'
    return 0, ''


def sigalg_errors(c, case):
    h = c['sig']['hash']
    if h not in SUPPORTED_SIG_HASHES:
        return [(UNSUPPORTED, 'sig-hash-' + h)]
    if h not in case['hashes']:
        return [(UNSUPPORTED, 'hash-disabled')]
    return []


def validate(case):
    chain = case['chain']
    server = case.get('server') or None
    minrsa = case.get('minrsa', 128)
    now = instant(case['time'])
    res = dict(verdict='R', code=None, why='', depth=None, direct=False, key=None, usages=None, silent=[])
    if not chain:
        res.update(code=EMPTY_CHAIN, why='empty-chain')
        return res
    K = load_keys()
    ee = chain[0]
    res['key'] = (K[ee['key']]['kind'],) + pub_bytes(ee['key'])

    def reject(code, why):
        res.update(verdict='R', code=code, why=why)
        return res

    def accept(depth, direct):
        res.update(verdict='A', code=None, why='direct' if direct else 'ca-anchor', depth=depth, direct=direct)
        return res

    def silent(why):
        res.update(verdict='S', code=None, why=why)
        return res

    for i, c in enumerate(chain):
        is_ee = i == 0
        errs = []
        if c.get('empty'):
            return reject(TRUNCATED, 'empty-certificate')
        if c['version'] not in (1, 2, 3):
            errs.append((UNSUPPORTED, 'version'))
        if now < instant(c['nb']) or now > instant(c['na']):
            errs.append((EXPIRED, 'validity'))
        if not is_ee and not dn_equal(c['subject'], chain[i - 1]['issuer']):
            errs.append((DN_MISMATCH, 'subject-vs-issuer'))
        errs += key_errors(c, minrsa)
        errs += sig_size_errors(c)
        if not is_ee:
            code, why = sig_verifies(chain[i - 1], c['key'], c.get('spki'), case)
            if code:
                errs.append((code, why))
        errs += ext_errors(c, is_ee, i)
        if is_ee:
            sil = []
            res['usages'] = ee_usages(c, sil)
            if not server_name_check(c, server, sil):
                errs.append((BAD_SERVER_NAME, 'server-name'))
            if sil:
                # the documentation does not decide this case
                return silent(sil[0])
            # an anchor whose key material was altered (a['keymod']: another public exponent, another point)
            # holds a different key, whatever it was derived from
            direct = any((not a['ca']) and dn_equal(a['dn'], c['subject']) and not a.get('keymod')
                         and key_equal(a['key'], c['key']) and not c.get('spki') for a in case['anchors'])
            if direct:
                # name matching and the RSA size limit are documented to apply to direct trust as well;
                # which other parts of the certificate are inspected in that case is not documented
                if [e for e in errs if e[0] in (BAD_SERVER_NAME, WEAK_PUBLIC_KEY)]:
                    return reject(*errs[0])
                if errs:
                    return silent('direct-trust-with-' + errs[0][1])
                if c.get('garbage'):
                    return silent('direct-trust-with-garbage')
                return accept(0, True)
        if errs:
            return reject(*errs[0])
        errs = sigalg_errors(c, case)
        if errs:
            return reject(*errs[0])
        if c.get('garbage'):
            return reject(EXTRA_ELEMENT, 'trailing-garbage')
        for a in case['anchors']:
            if a['ca'] and dn_equal(a['dn'], c['issuer']) and not a.get('keymod'):
                code, why = sig_verifies(c, a['key'], None, case)
                if code == 0:
                    return accept(i, False)
    return reject(NOT_TRUSTED, 'no-anchor')

# ---------------------------------------------------------------- name elements


def name_elements(ee, requests, with_san):
    """expected (status, value bytes) for each requested element; status 'm' = either -1, or 1 with this value.
    requests: list of (kind, ident, buflen): ('dn', attr), ('san', 'dns'|'email'|'uri'), ('other', dotted oid)
    with_san False: SAN-derived elements are not judged (None)"""
    out = [[0, b''] for _ in requests]

    def fill(match, txt, doubt=False):
        for j, r in enumerate(requests):
            if out[j][0] == 0 and match(r):
                if txt is not None and len(txt) < r[2]:
                    # 'm': found, but the header does not say whether such a string is converted or an error
                    out[j] = ['m' if doubt else 1, txt]
                else:
                    out[j] = [-1, b'']
                return

    for rdn in ee['subject']:
        for (a, st, v) in rdn:
            fill(lambda r: r[0] == 'dn' and r[1] == a, text_of(st, v), text_doubt(st, v))
    sans = [e for e in ext_list(ee) if e['id'] == 'san']
    if len(sans) > 1:
        with_san = False
    for e in sans[:1]:
        for n in e['names']:
            if n[0] in ('dns', 'email', 'uri'):
                v = n[1] if isinstance(n[1], (bytes, bytearray)) else n[1].encode('latin-1')
                fill(lambda r: r[0] == 'san' and r[1] == n[0], text_of('utf8', v), text_doubt('utf8', v))
            elif n[0] == 'other':
                fill(lambda r: r[0] == 'other' and r[1] == n[1], text_of(n[2], n[3]), text_doubt(n[2], n[3]))
    res = []
    for j, r in enumerate(requests):
        if r[0] != 'dn' and not with_san:
            res.append(None)
        else:
            res.append(tuple(out[j]))
    return res
