/*
 * C12 (block ciphers): every AES implementation (big, small, ct, ct64,
 * x86ni, pwr8 when present) through its cbcenc / cbcdec / ctr / ctrcbc
 * vtables and every DES implementation (tab, ct) through cbcenc / cbcdec,
 * against OpenSSL EVP (ECB under a harness-side counter for the CTR modes,
 * CBC for CBC and CBC-MAC), for all key sizes, enumerated data lengths,
 * counter start values around the wrap points, and call splitting.
 *
 * Work is a deterministic list of tasks; task t is run by worker
 * (t mod nworkers).  Random material of a task depends only on
 * (seed, section, rep, index), never on the worker layout.
 */
#include "common.h"
#include "bearssl.h"
#include <openssl/evp.h>
#include <openssl/provider.h>

/* ------------------------------------------------------------------ */
/* infrastructure */

static uint64_t g_seed;
static int g_w, g_nw, g_rep;
static long long g_task;
static char g_desc[1800];

/* implementations that already failed against the reference in the current case */
static const char *g_failed[64];
static int g_nfailed;

static int
take(void)
{
	return (int)(g_task ++ % g_nw) == g_w;
}

static void
case_rng(vf_rng *r, int section, uint64_t idx)
{
	vf_rng_init(r, g_seed, ((uint64_t)section << 48) ^ ((uint64_t)g_rep << 32) ^ idx);
}

static void
die(const char *what)
{
	fflush(stdout);
	fprintf(stderr, "HARNESS_ASSERT %s\n", what);
	exit(3);
}

static void *
xmalloc(size_t n)
{
	void *p = malloc(n ? n : 1);
	if (!p) die("oom");
	return p;
}

/* data buffer: [off bytes canary][len bytes data], exact end => ASan red zone */
typedef struct { unsigned char *base, *p; size_t off, len; } dbuf;

static dbuf
db_new(const unsigned char *src, size_t len, size_t off)
{
	dbuf b;
	b.base = xmalloc(off + len);
	memset(b.base, 0xC5, off);
	b.p = b.base + off;
	if (len) memcpy(b.p, src, len);
	b.off = off; b.len = len;
	return b;
}

static int
db_canary_ok(const dbuf *b)
{
	size_t i;
	for (i = 0; i < b->off; i ++) if (b->base[i] != 0xC5) return 0;
	return 1;
}

static size_t
first_diff(const unsigned char *a, const unsigned char *b, size_t len)
{
	size_t i;
	for (i = 0; i < len; i ++) if (a[i] != b[i]) return i;
	return len;
}

/* compare with the reference; statname is an additional counter */
static int
judge(const char *statname, const char *prim, const char *impl, const char *aspect,
	const void *got, const void *exp, size_t len)
{
	char key[200];
	size_t d, n;

	vf_stat("cmp_ref", 1);
	vf_stat(statname, 1);
	if (len == 0 || memcmp(got, exp, len) == 0) return 1;
	if (g_nfailed < 64) g_failed[g_nfailed ++] = impl;
	d = first_diff(got, exp, len);
	n = len - d < 16 ? len - d : 16;
	snprintf(key, sizeof key, "C12:%s:%s:%s", prim, impl, aspect);
	vf_viol(key, "output differs from the reference", "%s diff_at=%zu got=%s exp=%s",
		g_desc, d, vf_hexs((const unsigned char *)got + d, n),
		vf_hexs((const unsigned char *)exp + d, n));
	return 0;
}

static void
judge_pair(const char *prim, const char *aspect, const char *ia, const char *ib,
	const void *a, const void *b, size_t len)
{
	char key[200];

	int i;

	vf_stat("cmp_pair", 1);
	if (len == 0 || memcmp(a, b, len) == 0) return;
	for (i = 0; i < g_nfailed; i ++) {
		/* already reported against the reference: the disagreement is explained, no second key */
		if (g_failed[i] == ia || g_failed[i] == ib) { vf_stat("pair_mismatch_explained", 1); return; }
	}
	snprintf(key, sizeof key, "C12:%s:pair-%s-%s:%s", prim, ia, ib, aspect);
	vf_viol(key, "two implementations disagree", "%s diff_at=%zu", g_desc,
		first_diff(a, b, len));
}

static void
judge_flag(const char *prim, const char *impl, const char *aspect, int ok, const char *what)
{
	char key[200];

	vf_stat("cmp_aux", 1);
	if (ok) return;
	snprintf(key, sizeof key, "C12:%s:%s:%s", prim, impl, aspect);
	vf_viol(key, what, "%s", g_desc);
}

/* chunk lists */
#define MAXCH 8
typedef struct { size_t n[MAXCH]; int cnt; } chunks;

static const char *
ch_str(const chunks *c)
{
	static char b[128];
	int i, o = 0;
	for (i = 0; i < c->cnt; i ++) o += snprintf(b + o, sizeof b - o, "%s%zu", i ? "+" : "", c->n[i]);
	return b;
}

static chunks
ch_one(size_t len)
{
	chunks c; c.cnt = 1; c.n[0] = len; return c;
}

static chunks
ch_two(size_t a, size_t len)
{
	chunks c; c.cnt = 2; c.n[0] = a; c.n[1] = len - a; return c;
}

/* 2..4 chunks, cuts on multiples of bs (zero-length chunks allowed), last may be partial */
static chunks
ch_rand(vf_rng *r, size_t len, size_t bs)
{
	chunks c;
	size_t cut[MAXCH], nb = len / bs, prev = 0;
	int k = (int)vf_range(r, 2, 4), i, j;

	for (i = 0; i < k - 1; i ++) cut[i] = bs * vf_range(r, 0, (uint32_t)nb);
	for (i = 0; i < k - 1; i ++) for (j = i + 1; j < k - 1; j ++)
		if (cut[j] < cut[i]) { size_t t = cut[i]; cut[i] = cut[j]; cut[j] = t; }
	c.cnt = k;
	for (i = 0; i < k - 1; i ++) { c.n[i] = cut[i] - prev; prev = cut[i]; }
	c.n[k - 1] = len - prev;
	return c;
}

/* ------------------------------------------------------------------ */
/* reference (OpenSSL EVP) */

static EVP_CIPHER_CTX *g_evp;
static int g_have_des_cbc, g_have_des_ede_cbc;

static void
ref_cipher(const EVP_CIPHER *c, int enc, const unsigned char *key, const unsigned char *iv,
	const unsigned char *in, unsigned char *out, size_t len)
{
	int ol = 0, fl = 0;

	if (len == 0) return;
	if (!c) die("ref-cipher-missing");
	if (EVP_CipherInit_ex(g_evp, c, NULL, key, iv, enc) != 1) die("ref-init");
	EVP_CIPHER_CTX_set_padding(g_evp, 0);
	if (EVP_CipherUpdate(g_evp, out, &ol, in, (int)len) != 1) die("ref-update");
	if (EVP_CipherFinal_ex(g_evp, out + ol, &fl) != 1) die("ref-final");
	if ((size_t)(ol + fl) != len) die("ref-len");
}

static const EVP_CIPHER *
aes_ecb(size_t klen)
{
	return klen == 16 ? EVP_aes_128_ecb() : klen == 24 ? EVP_aes_192_ecb() : EVP_aes_256_ecb();
}

static const EVP_CIPHER *
aes_cbc(size_t klen)
{
	return klen == 16 ? EVP_aes_128_cbc() : klen == 24 ? EVP_aes_192_cbc() : EVP_aes_256_cbc();
}

/* CBC reference; works for AES (bs 16) and DES (bs 8) */
static void
ref_cbc(size_t bs, int enc, const unsigned char *key, size_t klen, const unsigned char *iv,
	const unsigned char *in, unsigned char *out, size_t len)
{
	if (bs == 16) {
		ref_cipher(aes_cbc(klen), enc, key, iv, in, out, len);
	} else {
		unsigned char k3[24];
		/* DES(K) == 3DES(K,K,K); two-key 3DES == 3DES(K1,K2,K1) */
		if (klen == 8) { memcpy(k3, key, 8); memcpy(k3 + 8, key, 8); memcpy(k3 + 16, key, 8); }
		else if (klen == 16) { memcpy(k3, key, 16); memcpy(k3 + 16, key, 8); }
		else memcpy(k3, key, 24);
		ref_cipher(EVP_des_ede3_cbc(), enc, k3, iv, in, out, len);
		/* cross-check of the reference itself with the dedicated EVP ciphers when provided */
		if (len <= 64 && ((klen == 8 && g_have_des_cbc) || (klen == 16 && g_have_des_ede_cbc))) {
			unsigned char t[64];
			ref_cipher(klen == 8 ? EVP_des_cbc() : EVP_des_ede_cbc(), enc, key, iv, in, t, len);
			if (memcmp(t, out, len) != 0) die("ref-des-selfcheck");
			vf_stat("ref_des_selfcheck", 1);
		}
	}
}

/* keystream for BearSSL's CTR: IV(12) || BE32(cc + i mod 2^32) */
static void
ref_ctr32_ks(const unsigned char *key, size_t klen, const unsigned char *iv12, uint32_t cc,
	unsigned char *ks, size_t nblocks)
{
	size_t i;
	for (i = 0; i < nblocks; i ++) {
		uint32_t c = cc + (uint32_t)i;
		memcpy(ks + 16 * i, iv12, 12);
		ks[16 * i + 12] = (unsigned char)(c >> 24);
		ks[16 * i + 13] = (unsigned char)(c >> 16);
		ks[16 * i + 14] = (unsigned char)(c >> 8);
		ks[16 * i + 15] = (unsigned char)c;
	}
	ref_cipher(aes_ecb(klen), 1, key, NULL, ks, ks, 16 * nblocks);
}

static void
inc128(unsigned char *c)
{
	int i;
	for (i = 15; i >= 0; i --) if (++ c[i] != 0) break;
}

/* keystream for ctrcbc: 128-bit big-endian counter; ctr is advanced */
static void
ref_ctr128_ks(const unsigned char *key, size_t klen, unsigned char *ctr,
	unsigned char *ks, size_t nblocks)
{
	size_t i;
	for (i = 0; i < nblocks; i ++) { memcpy(ks + 16 * i, ctr, 16); inc128(ctr); }
	ref_cipher(aes_ecb(klen), 1, key, NULL, ks, ks, 16 * nblocks);
}

/* CBC-MAC: mac is IV and output */
static void
ref_cbcmac(const unsigned char *key, size_t klen, unsigned char *mac,
	const unsigned char *data, size_t len)
{
	unsigned char *t;
	if (len == 0) return;
	t = xmalloc(len);
	ref_cipher(aes_cbc(klen), 1, key, mac, data, t, len);
	memcpy(mac, t + len - 16, 16);
	free(t);
}

static void
ref_selftest(void)
{
	/* FIPS-197 C.1 / C.3 and a DES vector, so that a broken reference is not mistaken for a library bug */
	static const unsigned char pt[16] = { 0x00,0x11,0x22,0x33,0x44,0x55,0x66,0x77,0x88,0x99,0xaa,0xbb,0xcc,0xdd,0xee,0xff };
	static const unsigned char c128[16] = { 0x69,0xc4,0xe0,0xd8,0x6a,0x7b,0x04,0x30,0xd8,0xcd,0xb7,0x80,0x70,0xb4,0xc5,0x5a };
	static const unsigned char c256[16] = { 0x8e,0xa2,0xb7,0xca,0x51,0x67,0x45,0xbf,0xea,0xfc,0x49,0x90,0x4b,0x49,0x60,0x89 };
	static const unsigned char dk[8] = { 0x01,0x23,0x45,0x67,0x89,0xab,0xcd,0xef };
	static const unsigned char dp[8] = { 0x4e,0x6f,0x77,0x20,0x69,0x73,0x20,0x74 };
	static const unsigned char dc[8] = { 0x3f,0xa4,0x0e,0x8a,0x98,0x4d,0x48,0x15 };
	unsigned char key[32], out[16], z[8];
	int i;
	EVP_CIPHER *c;

	for (i = 0; i < 32; i ++) key[i] = (unsigned char)i;
	ref_cipher(aes_ecb(16), 1, key, NULL, pt, out, 16);
	if (memcmp(out, c128, 16)) die("ref-aes128-kat");
	ref_cipher(aes_ecb(32), 1, key, NULL, pt, out, 16);
	if (memcmp(out, c256, 16)) die("ref-aes256-kat");
	c = EVP_CIPHER_fetch(NULL, "DES-EDE3-CBC", NULL);
	if (!c) die("ref-no-3des");
	EVP_CIPHER_free(c);
	c = EVP_CIPHER_fetch(NULL, "DES-CBC", NULL);
	g_have_des_cbc = c != NULL;
	if (c) EVP_CIPHER_free(c);
	c = EVP_CIPHER_fetch(NULL, "DES-EDE-CBC", NULL);
	g_have_des_ede_cbc = c != NULL;
	if (c) EVP_CIPHER_free(c);
	memset(z, 0, 8);
	ref_cbc(8, 1, dk, 8, z, dp, out, 8);
	if (memcmp(out, dc, 8)) die("ref-des-kat");
	vf_distinct("reference", "des-cbc=%s", g_have_des_cbc ? "evp+ede3(k,k,k)" : "ede3(k,k,k)");
	vf_distinct("reference", "des-ede-cbc=%s", g_have_des_ede_cbc ? "evp+ede3(k1,k2,k1)" : "ede3(k1,k2,k1)");
	vf_distinct("reference", "openssl=%s", OpenSSL_version(OPENSSL_VERSION));
}

/* ------------------------------------------------------------------ */
/* implementations */

#define MAXIMPL 8
typedef struct {
	const char *name;
	const br_block_cbcenc_class *ce;
	const br_block_cbcdec_class *cd;
	const br_block_ctr_class *ct;
	const br_block_ctrcbc_class *cc;
} bc_impl;

static bc_impl aes_impls[MAXIMPL], des_impls[MAXIMPL];
static int n_aes, n_des;

static void
setup_impls(void)
{
	bc_impl *a = aes_impls;

	a[n_aes ++] = (bc_impl){ "aes_big", &br_aes_big_cbcenc_vtable, &br_aes_big_cbcdec_vtable, &br_aes_big_ctr_vtable, &br_aes_big_ctrcbc_vtable };
	a[n_aes ++] = (bc_impl){ "aes_small", &br_aes_small_cbcenc_vtable, &br_aes_small_cbcdec_vtable, &br_aes_small_ctr_vtable, &br_aes_small_ctrcbc_vtable };
	a[n_aes ++] = (bc_impl){ "aes_ct", &br_aes_ct_cbcenc_vtable, &br_aes_ct_cbcdec_vtable, &br_aes_ct_ctr_vtable, &br_aes_ct_ctrcbc_vtable };
	a[n_aes ++] = (bc_impl){ "aes_ct64", &br_aes_ct64_cbcenc_vtable, &br_aes_ct64_cbcdec_vtable, &br_aes_ct64_ctr_vtable, &br_aes_ct64_ctrcbc_vtable };
	if (br_aes_x86ni_ctr_get_vtable() || br_aes_x86ni_cbcenc_get_vtable()) {
		a[n_aes ++] = (bc_impl){ "aes_x86ni", br_aes_x86ni_cbcenc_get_vtable(), br_aes_x86ni_cbcdec_get_vtable(),
			br_aes_x86ni_ctr_get_vtable(), br_aes_x86ni_ctrcbc_get_vtable() };
		vf_distinct("present", "aes_x86ni=yes");
	} else {
		vf_distinct("present", "aes_x86ni=no");
	}
	if (br_aes_pwr8_ctr_get_vtable() || br_aes_pwr8_cbcenc_get_vtable()) {
		a[n_aes ++] = (bc_impl){ "aes_pwr8", br_aes_pwr8_cbcenc_get_vtable(), br_aes_pwr8_cbcdec_get_vtable(),
			br_aes_pwr8_ctr_get_vtable(), br_aes_pwr8_ctrcbc_get_vtable() };
		vf_distinct("present", "aes_pwr8=yes");
	} else {
		vf_distinct("present", "aes_pwr8=no");
	}
	des_impls[n_des ++] = (bc_impl){ "des_tab", &br_des_tab_cbcenc_vtable, &br_des_tab_cbcdec_vtable, NULL, NULL };
	des_impls[n_des ++] = (bc_impl){ "des_ct", &br_des_ct_cbcenc_vtable, &br_des_ct_cbcdec_vtable, NULL, NULL };
}

/* ------------------------------------------------------------------ */
/* CBC encryption and decryption (AES and DES) */

static void
cbc_case(const char *prim, bc_impl *impls, int n, size_t bs,
	const unsigned char *key_, size_t klen, const unsigned char *iv,
	const unsigned char *pt, size_t len, const chunks *ch, size_t off)
{
	unsigned char *key = vf_dup(key_, klen);
	unsigned char *ct = xmalloc(len);
	unsigned char ivout[16];
	unsigned char *outs[MAXIMPL];
	char pm[40];
	int dir, i, j, c;
	const char *asp = ch->cnt > 1 ? "split" : "data";

	g_nfailed = 0;

	ref_cbc(bs, 1, key, klen, iv, pt, ct, len);
	if (len) {
		unsigned char *back = xmalloc(len);
		ref_cbc(bs, 0, key, klen, iv, ct, back, len);
		if (memcmp(back, pt, len)) die("ref-cbc-roundtrip");
		free(back);
		memcpy(ivout, ct + len - bs, bs);
	} else {
		memcpy(ivout, iv, bs);
	}
	for (dir = 0; dir < 2; dir ++) {
		const unsigned char *in = dir == 0 ? pt : ct;
		const unsigned char *exp = dir == 0 ? ct : pt;
		snprintf(pm, sizeof pm, "%s-%s", prim, dir == 0 ? "cbcenc" : "cbcdec");
		for (i = 0; i < n; i ++) {
			const void *vt = dir == 0 ? (const void *)impls[i].ce : (const void *)impls[i].cd;
			size_t csz;
			void *ctx;
			dbuf b;
			unsigned char *ivb;
			size_t pos = 0;

			outs[i] = NULL;
			if (!vt) continue;
			csz = dir == 0 ? impls[i].ce->context_size : impls[i].cd->context_size;
			ctx = xmalloc(csz);
			memset(ctx, 0xA7, csz);
			b = db_new(in, len, off);
			ivb = vf_dup(iv, bs);
			if (dir == 0) {
				const br_block_cbcenc_class *v = impls[i].ce;
				judge_flag(pm, impls[i].name, "vtable", v->block_size == bs && (1u << v->log_block_size) == bs, "block_size/log_block_size wrong");
				v->init((const br_block_cbcenc_class **)ctx, key, klen);
				judge_flag(pm, impls[i].name, "vtable", *(const br_block_cbcenc_class **)ctx == v, "init did not set the vtable field");
				for (c = 0; c < ch->cnt; c ++) {
					v->run((const br_block_cbcenc_class *const *)ctx, ivb, b.p + pos, ch->n[c]);
					pos += ch->n[c];
					vf_stat("calls", 1);
				}
			} else {
				const br_block_cbcdec_class *v = impls[i].cd;
				judge_flag(pm, impls[i].name, "vtable", v->block_size == bs && (1u << v->log_block_size) == bs, "block_size/log_block_size wrong");
				v->init((const br_block_cbcdec_class **)ctx, key, klen);
				judge_flag(pm, impls[i].name, "vtable", *(const br_block_cbcdec_class **)ctx == v, "init did not set the vtable field");
				for (c = 0; c < ch->cnt; c ++) {
					v->run((const br_block_cbcdec_class *const *)ctx, ivb, b.p + pos, ch->n[c]);
					pos += ch->n[c];
					vf_stat("calls", 1);
				}
			}
			judge("cmp_data", pm, impls[i].name, asp, b.p, exp, len);
			judge("cmp_chain", pm, impls[i].name, ch->cnt > 1 ? "split-iv" : "iv", ivb, ivout, bs);
			judge_flag(pm, impls[i].name, "underwrite", db_canary_ok(&b), "bytes before the data buffer were modified");
			outs[i] = vf_dup(b.p, len);
			free(b.base); free(ivb); free(ctx);
		}
		for (i = 0; i < n; i ++) for (j = i + 1; j < n; j ++) {
			if (outs[i] && outs[j]) judge_pair(pm, asp, impls[i].name, impls[j].name, outs[i], outs[j], len);
		}
		for (i = 0; i < n; i ++) free(outs[i]);
	}
	vf_stat("cases", 1);
	vf_stat(bs == 16 ? "cases_aes_cbc" : "cases_des_cbc", 1);
	free(ct); free(key);
}

static void
set_desc(const char *sec, uint64_t idx, const unsigned char *key, size_t klen,
	const unsigned char *iv, size_t ivlen, size_t len, const chunks *ch, size_t off, const char *extra)
{
	snprintf(g_desc, sizeof g_desc, "sec=%s seed=%llu rep=%d idx=%llu klen=%zu len=%zu chunks=%s off=%zu key=%s iv=%s %s data=rng",
		sec, (unsigned long long)g_seed, g_rep, (unsigned long long)idx, klen, len, ch_str(ch), off,
		vf_hexs(key, klen), vf_hexs(iv, ivlen), extra ? extra : "");
}

static int g_nsample;

static void
sample(const char *sec, size_t klen, size_t len, const chunks *ch, const unsigned char *key, const unsigned char *iv, size_t ivlen, const char *extra)
{
	if (g_nsample >= 3 || len == 0 || len > 48) return;
	g_nsample ++;
	vf_sample("{\"section\":\"%s\",\"klen\":%zu,\"len\":%zu,\"chunks\":\"%s\",\"key\":\"%s\",\"iv\":\"%s\",\"extra\":\"%s\"}",
		sec, klen, len, ch_str(ch), vf_hexs(key, klen), vf_hexs(iv, ivlen), extra ? extra : "");
}

/* section: every length (multiple of bs) 0..maxlen, single call */
static void
sec_cbc_lengths(const char *prim, bc_impl *impls, int n, size_t bs, const size_t *klens, size_t maxlen, int sec)
{
	int k;
	size_t nb;
	for (k = 0; k < 3; k ++) for (nb = 0; nb <= maxlen / bs; nb ++) {
		vf_rng r;
		unsigned char key[32], iv[16], *pt;
		size_t len = nb * bs;
		uint64_t idx = (uint64_t)k * 100000 + nb;
		chunks ch = ch_one(len);

		if (!take()) continue;
		case_rng(&r, sec, idx);
		vf_bytes(&r, key, klens[k]); vf_bytes(&r, iv, bs);
		pt = xmalloc(len); vf_bytes(&r, pt, len);
		set_desc(bs == 16 ? "aes-cbc-len" : "des-cbc-len", idx, key, klens[k], iv, bs, len, &ch, 0, "");
		cbc_case(prim, impls, n, bs, key, klens[k], iv, pt, len, &ch, 0);
		vf_distinct("config", "%s-cbc/k%zu/len%zu/1", prim, klens[k], len);
		sample(bs == 16 ? "aes-cbc-len" : "des-cbc-len", klens[k], len, &ch, key, iv, bs, "");
		free(pt);
	}
}

/* section: exhaustive two-way splits on block boundaries, total up to maxlen */
static void
sec_cbc_splits(const char *prim, bc_impl *impls, int n, size_t bs, const size_t *klens, size_t maxlen, int sec)
{
	int k;
	size_t nb, s;
	for (k = 0; k < 3; k ++) for (nb = 1; nb <= maxlen / bs; nb ++) {
		vf_rng r;
		unsigned char key[32], iv[16], *pt;
		size_t len = nb * bs;
		uint64_t idx = (uint64_t)k * 100000 + nb;

		if (!take()) continue;
		case_rng(&r, sec, idx);
		vf_bytes(&r, key, klens[k]); vf_bytes(&r, iv, bs);
		pt = xmalloc(len); vf_bytes(&r, pt, len);
		for (s = 0; s <= nb; s ++) {
			chunks ch = ch_two(s * bs, len);
			set_desc(bs == 16 ? "aes-cbc-split2" : "des-cbc-split2", idx, key, klens[k], iv, bs, len, &ch, 0, "");
			cbc_case(prim, impls, n, bs, key, klens[k], iv, pt, len, &ch, 0);
			vf_stat("splits", 1);
		}
		vf_distinct("config", "%s-cbc/k%zu/len%zu/2", prim, klens[k], len);
		free(pt);
	}
}

/* section: random lengths up to maxlen, 2..4 chunks, random buffer offset */
static void
sec_cbc_random(const char *prim, bc_impl *impls, int n, size_t bs, const size_t *klens, size_t maxlen, int sec, long ncases)
{
	long q;
	for (q = 0; q < ncases; q ++) {
		vf_rng r;
		unsigned char key[32], iv[16], *pt;
		size_t len, off, klen;
		chunks ch;

		if (!take()) continue;
		case_rng(&r, sec, (uint64_t)q);
		klen = klens[vf_below(&r, 3)];
		len = bs * vf_range(&r, 0, (uint32_t)(maxlen / bs));
		if (vf_below(&r, 4) == 0) len = bs * vf_range(&r, 0, 12);
		off = vf_below(&r, 2) ? vf_range(&r, 1, 15) : 0;
		vf_bytes(&r, key, klen); vf_bytes(&r, iv, bs);
		pt = xmalloc(len); vf_bytes(&r, pt, len);
		ch = ch_rand(&r, len, bs);
		set_desc(bs == 16 ? "aes-cbc-rand" : "des-cbc-rand", (uint64_t)q, key, klen, iv, bs, len, &ch, off, "");
		cbc_case(prim, impls, n, bs, key, klen, iv, pt, len, &ch, off);
		vf_stat("splits", 1);
		vf_distinct("config", "%s-cbc/k%zu/len%zu/%d", prim, klen, len, ch.cnt);
		free(pt);
	}
}

/* ------------------------------------------------------------------ */
/* AES-CTR (12-byte IV + 32-bit big-endian counter) */

static void
ctr_case(const unsigned char *key_, size_t klen, const unsigned char *iv_, uint32_t cc0,
	const unsigned char *pt, size_t len, const chunks *ch, size_t off)
{
	unsigned char *key = vf_dup(key_, klen);
	size_t nblk = (len + 15) / 16, u;
	unsigned char *exp = xmalloc(16 * nblk + 1);
	unsigned char *outs[MAXIMPL];
	int i, j, c;
	const char *asp = ch->cnt > 1 ? "split" : "data";
	int last_full = (ch->n[ch->cnt - 1] % 16) == 0;

	g_nfailed = 0;

	ref_ctr32_ks(key, klen, iv_, cc0, exp, nblk);
	for (u = 0; u < len; u ++) exp[u] ^= pt[u];
	for (i = 0; i < n_aes; i ++) {
		const br_block_ctr_class *v = aes_impls[i].ct;
		void *ctx;
		dbuf b;
		unsigned char *ivb;
		uint32_t cc = cc0;
		size_t pos = 0;

		outs[i] = NULL;
		if (!v) continue;
		ctx = xmalloc(v->context_size);
		memset(ctx, 0xA7, v->context_size);
		b = db_new(pt, len, off);
		ivb = vf_dup(iv_, 12);
		judge_flag("aes-ctr", aes_impls[i].name, "vtable", v->block_size == 16 && v->log_block_size == 4, "block_size/log_block_size wrong");
		v->init((const br_block_ctr_class **)ctx, key, klen);
		judge_flag("aes-ctr", aes_impls[i].name, "vtable", *(const br_block_ctr_class **)ctx == v, "init did not set the vtable field");
		for (c = 0; c < ch->cnt; c ++) {
			cc = v->run((const br_block_ctr_class *const *)ctx, ivb, cc, b.p + pos, ch->n[c]);
			pos += ch->n[c];
			vf_stat("calls", 1);
		}
		judge("cmp_data", "aes-ctr", aes_impls[i].name, asp, b.p, exp, len);
		if (last_full) {
			/* documented: the new counter value is returned (chunks multiple of the block size) */
			uint32_t want = cc0 + (uint32_t)(len / 16);
			unsigned char g[4], w[4];
			g[0] = (unsigned char)(cc >> 24); g[1] = (unsigned char)(cc >> 16); g[2] = (unsigned char)(cc >> 8); g[3] = (unsigned char)cc;
			w[0] = (unsigned char)(want >> 24); w[1] = (unsigned char)(want >> 16); w[2] = (unsigned char)(want >> 8); w[3] = (unsigned char)want;
			judge("cmp_chain", "aes-ctr", aes_impls[i].name, "counter", g, w, 4);
		} else {
			/*
			 * Partial last block: the header does not spell it out; since fix 6db69a2 every
			 * implementation counts the partial block as consumed (cc + ceil(len/16)), which
			 * AESCTR_DRBG relies on.  Judged under its own aspect.
			 */
			uint32_t want = cc0 + (uint32_t)((len + 15) / 16);
			unsigned char g[4], w[4];
			g[0] = (unsigned char)(cc >> 24); g[1] = (unsigned char)(cc >> 16); g[2] = (unsigned char)(cc >> 8); g[3] = (unsigned char)cc;
			w[0] = (unsigned char)(want >> 24); w[1] = (unsigned char)(want >> 16); w[2] = (unsigned char)(want >> 8); w[3] = (unsigned char)want;
			judge("cmp_chain_partial", "aes-ctr", aes_impls[i].name, "counter-partial", g, w, 4);
			vf_distinct("ctr_partial_return", "%s:floor%+d", aes_impls[i].name,
				(int)(cc - (cc0 + (uint32_t)(len / 16))));
		}
		judge_flag("aes-ctr", aes_impls[i].name, "iv-modified", memcmp(ivb, iv_, 12) == 0, "const IV was modified");
		judge_flag("aes-ctr", aes_impls[i].name, "underwrite", db_canary_ok(&b), "bytes before the data buffer were modified");
		outs[i] = vf_dup(b.p, len);
		free(b.base); free(ivb); free(ctx);
	}
	for (i = 0; i < n_aes; i ++) for (j = i + 1; j < n_aes; j ++) {
		if (outs[i] && outs[j]) judge_pair("aes-ctr", asp, aes_impls[i].name, aes_impls[j].name, outs[i], outs[j], len);
	}
	for (i = 0; i < n_aes; i ++) free(outs[i]);
	vf_stat("cases", 1);
	vf_stat("cases_aes_ctr", 1);
	if (cc0 + (uint32_t)nblk < cc0 || (nblk > 0 && cc0 + (uint32_t)nblk == 0)) vf_stat("cases_ctr32_wrap", 1);
	free(exp); free(key);
}

/* a counter start value: 0, 1, 2^32-k (k <= 70, preferably so that the wrap is inside the data), random */
static uint32_t
pick_cc(vf_rng *r, size_t nblk)
{
	uint32_t m = vf_below(r, 8);
	if (m == 0) return 0;
	if (m == 1) return 1;
	if (m <= 4) { uint32_t kmax = nblk + 2 > 70 ? 70 : (uint32_t)nblk + 2; return (uint32_t)0 - vf_range(r, 1, kmax); }
	if (m == 5) return (uint32_t)0 - vf_range(r, 1, 70);
	return vf_u32(r);
}

static const size_t AESK[3] = { 16, 24, 32 };
static const size_t DESK[3] = { 8, 16, 24 };

static void
ctr_desc(const char *sec, uint64_t idx, const unsigned char *key, size_t klen, const unsigned char *iv,
	uint32_t cc, size_t len, const chunks *ch, size_t off)
{
	char x[40];
	snprintf(x, sizeof x, "cc=0x%08x", cc);
	set_desc(sec, idx, key, klen, iv, 12, len, ch, off, x);
}

/* every length 0..maxlen */
static void
sec_ctr_lengths(size_t maxlen, int sec)
{
	int k;
	size_t len;
	for (k = 0; k < 3; k ++) for (len = 0; len <= maxlen; len ++) {
		vf_rng r;
		unsigned char key[32], iv[12], *pt;
		uint64_t idx = (uint64_t)k * 100000 + len;
		chunks ch = ch_one(len);
		uint32_t cc;

		if (!take()) continue;
		case_rng(&r, sec, idx);
		vf_bytes(&r, key, AESK[k]); vf_bytes(&r, iv, 12);
		pt = xmalloc(len); vf_bytes(&r, pt, len);
		cc = pick_cc(&r, (len + 15) / 16);
		ctr_desc("aes-ctr-len", idx, key, AESK[k], iv, cc, len, &ch, 0);
		ctr_case(key, AESK[k], iv, cc, pt, len, &ch, 0);
		vf_distinct("config", "aes-ctr/k%zu/len%zu/1", AESK[k], len);
		{ char x[24]; snprintf(x, sizeof x, "cc=%08x", cc); sample("aes-ctr-len", AESK[k], len, &ch, key, iv, 12, x); }
		free(pt);
	}
}

/* counter start values 0, 1, 2^32-k for every k <= 70, lengths that put the wrap at every batch position */
static void
sec_ctr_counters(int sec, int nlen)
{
	int k, kk, q;
	for (k = 0; k < 3; k ++) for (kk = -1; kk <= 70; kk ++) for (q = 0; q < nlen; q ++) {
		vf_rng r;
		unsigned char key[32], iv[12], *pt;
		uint64_t idx = (uint64_t)k * 100000 + (uint64_t)(kk + 1) * 100 + q;
		uint32_t cc = kk < 0 ? 1 : (uint32_t)0 - (uint32_t)kk;
		size_t len;
		chunks ch;

		if (!take()) continue;
		case_rng(&r, sec, idx);
		vf_bytes(&r, key, AESK[k]); vf_bytes(&r, iv, 12);
		if (q == 0) len = 16 * ((size_t)(kk < 0 ? 0 : kk) + 9) + 5;          /* wrap, then 9 more blocks */
		else if (q == 1) len = 16 * (size_t)(kk < 0 ? 1 : kk);              /* ends exactly at the wrap */
		else len = vf_range(&r, 0, 16 * ((uint32_t)(kk < 0 ? 0 : kk) + 12));
		pt = xmalloc(len); vf_bytes(&r, pt, len);
		ch = ch_one(len);
		ctr_desc("aes-ctr-wrap", idx, key, AESK[k], iv, cc, len, &ch, 0);
		ctr_case(key, AESK[k], iv, cc, pt, len, &ch, 0);
		vf_distinct("ctr_start", "%08x", cc);
		free(pt);
	}
}

/* exhaustive two-way splits on block boundaries, total up to maxlen (+ a partial tail) */
static void
sec_ctr_splits(size_t maxlen, int sec)
{
	int k;
	size_t nb, s;
	for (k = 0; k < 3; k ++) for (nb = 1; nb <= maxlen / 16; nb ++) {
		vf_rng r;
		unsigned char key[32], iv[12], *pt;
		uint64_t idx = (uint64_t)k * 100000 + nb;
		size_t len;
		uint32_t cc;

		if (!take()) continue;
		case_rng(&r, sec, idx);
		vf_bytes(&r, key, AESK[k]); vf_bytes(&r, iv, 12);
		len = 16 * nb;
		if (vf_below(&r, 2)) len -= vf_range(&r, 1, 15);     /* partial last block in the second call */
		pt = xmalloc(len); vf_bytes(&r, pt, len);
		cc = pick_cc(&r, nb);
		for (s = 0; s * 16 <= len; s ++) {
			chunks ch = ch_two(s * 16, len);
			ctr_desc("aes-ctr-split2", idx, key, AESK[k], iv, cc, len, &ch, 0);
			ctr_case(key, AESK[k], iv, cc, pt, len, &ch, 0);
			vf_stat("splits", 1);
		}
		vf_distinct("config", "aes-ctr/k%zu/len%zu/2", AESK[k], len);
		free(pt);
	}
}

/* sampled lengths up to maxlen (every residue mod 16), 1..4 chunks, random offsets */
static void
sec_ctr_random(size_t maxlen, int sec, long ncases)
{
	long q;
	for (q = 0; q < ncases; q ++) {
		vf_rng r;
		unsigned char key[32], iv[12], *pt;
		size_t len, off, klen;
		chunks ch;
		uint32_t cc;

		if (!take()) continue;
		case_rng(&r, sec, (uint64_t)q);
		klen = AESK[vf_below(&r, 3)];
		len = vf_range(&r, 0, (uint32_t)maxlen);
		if (vf_below(&r, 4) == 0) len = (len & ~(size_t)15) + (size_t)(q % 16) > maxlen ? len : (len & ~(size_t)15) + (size_t)(q % 16);
		off = vf_below(&r, 2) ? vf_range(&r, 1, 15) : 0;
		vf_bytes(&r, key, klen); vf_bytes(&r, iv, 12);
		pt = xmalloc(len); vf_bytes(&r, pt, len);
		cc = pick_cc(&r, (len + 15) / 16);
		if (vf_below(&r, 3) == 0) ch = ch_one(len); else { ch = ch_rand(&r, len, 16); vf_stat("splits", 1); }
		ctr_desc("aes-ctr-rand", (uint64_t)q, key, klen, iv, cc, len, &ch, off);
		ctr_case(key, klen, iv, cc, pt, len, &ch, off);
		vf_distinct("config", "aes-ctr/k%zu/mod16=%zu/kib4=%zu/%d", klen, len % 16, len / 256, ch.cnt);
		free(pt);
	}
}

/* ------------------------------------------------------------------ */
/* AES ctrcbc: encrypt / decrypt / ctr / mac with a 128-bit big-endian counter */

static void
ctrcbc_case(const unsigned char *key_, size_t klen, const unsigned char *ctr0, const unsigned char *mac0,
	const unsigned char *pt, size_t len, const chunks *ch, unsigned mixmask, size_t off)
{
	unsigned char *key = vf_dup(key_, klen);
	size_t nblk = len / 16, u;
	unsigned char *ct = xmalloc(len);
	unsigned char ctr_exp[16], mac_ct[16], mac_pt[16];
	unsigned char *outs[4][MAXIMPL], macs[4][MAXIMPL][16];
	static const char *MN[4] = { "aes-ctrcbc-encrypt", "aes-ctrcbc-decrypt", "aes-ctrcbc-ctr", "aes-ctrcbc-mac" };
	int i, j, c, m;
	const char *asp = ch->cnt > 1 ? "split" : "data";

	g_nfailed = 0;

	memcpy(ctr_exp, ctr0, 16);
	ref_ctr128_ks(key, klen, ctr_exp, ct, nblk);
	for (u = 0; u < len; u ++) ct[u] ^= pt[u];
	memcpy(mac_ct, mac0, 16); ref_cbcmac(key, klen, mac_ct, ct, len);
	memcpy(mac_pt, mac0, 16); ref_cbcmac(key, klen, mac_pt, pt, len);

	for (i = 0; i < n_aes; i ++) {
		const br_block_ctrcbc_class *v = aes_impls[i].cc;
		const br_block_ctrcbc_class *const *cx;
		void *ctx;

		for (m = 0; m < 4; m ++) outs[m][i] = NULL;
		if (!v) continue;
		ctx = xmalloc(v->context_size);
		memset(ctx, 0xA7, v->context_size);
		judge_flag("aes-ctrcbc", aes_impls[i].name, "vtable", v->block_size == 16 && v->log_block_size == 4, "block_size/log_block_size wrong");
		v->init((const br_block_ctrcbc_class **)ctx, key, klen);
		judge_flag("aes-ctrcbc", aes_impls[i].name, "vtable", *(const br_block_ctrcbc_class **)ctx == v, "init did not set the vtable field");
		cx = (const br_block_ctrcbc_class *const *)ctx;
		for (m = 0; m < 4; m ++) {
			const unsigned char *in = (m == 1) ? ct : pt;
			const unsigned char *exp = (m == 0 || m == 2) ? ct : pt;   /* mac: data untouched */
			const unsigned char *mexp = (m == 3) ? mac_pt : mac_ct;
			dbuf b = db_new(in, len, off);
			unsigned char *cb = vf_dup(ctr0, 16), *mb = vf_dup(mac0, 16);
			size_t pos = 0;

			for (c = 0; c < ch->cnt; c ++) {
				size_t n = ch->n[c];
				int mix = (mixmask >> c) & 1;
				switch (m) {
				case 0:
					if (mix) { v->ctr(cx, cb, b.p + pos, n); v->mac(cx, mb, b.p + pos, n); vf_stat("calls", 2); }
					else { v->encrypt(cx, cb, mb, b.p + pos, n); vf_stat("calls", 1); }
					break;
				case 1:
					if (mix) { v->mac(cx, mb, b.p + pos, n); v->ctr(cx, cb, b.p + pos, n); vf_stat("calls", 2); }
					else { v->decrypt(cx, cb, mb, b.p + pos, n); vf_stat("calls", 1); }
					break;
				case 2:
					v->ctr(cx, cb, b.p + pos, n); vf_stat("calls", 1);
					break;
				default:
					v->mac(cx, mb, b.p + pos, n); vf_stat("calls", 1);
					break;
				}
				pos += n;
			}
			judge("cmp_data", MN[m], aes_impls[i].name, m == 3 ? "data-modified" : asp, b.p, exp, len);
			if (m != 3) judge("cmp_chain", MN[m], aes_impls[i].name, ch->cnt > 1 ? "split-ctr" : "ctr", cb, ctr_exp, 16);
			else judge("cmp_chain", MN[m], aes_impls[i].name, "ctr-touched", cb, ctr0, 16);
			if (m != 2) judge("cmp_chain", MN[m], aes_impls[i].name, ch->cnt > 1 ? "split-cbcmac" : "cbcmac", mb, mexp, 16);
			judge_flag(MN[m], aes_impls[i].name, "underwrite", db_canary_ok(&b), "bytes before the data buffer were modified");
			outs[m][i] = vf_dup(b.p, len);
			memcpy(macs[m][i], mb, 16);
			free(b.base); free(cb); free(mb);
		}
		free(ctx);
	}
	for (m = 0; m < 4; m ++) {
		for (i = 0; i < n_aes; i ++) for (j = i + 1; j < n_aes; j ++) {
			if (!outs[m][i] || !outs[m][j]) continue;
			if (m != 3) judge_pair(MN[m], asp, aes_impls[i].name, aes_impls[j].name, outs[m][i], outs[m][j], len);
			if (m != 2) judge_pair(MN[m], "cbcmac", aes_impls[i].name, aes_impls[j].name, macs[m][i], macs[m][j], 16);
		}
		for (i = 0; i < n_aes; i ++) free(outs[m][i]);
	}
	vf_stat("cases", 1);
	vf_stat("cases_aes_ctrcbc", 1);
	free(ct); free(key);
}

/* 128-bit counter start: zero / random / low j words = 2^(32j) - k so that the carry crosses j words */
static void
pick_ctr128(vf_rng *r, size_t nblk, unsigned char *c, int force_j, int force_k)
{
	uint32_t m = vf_below(r, 8);
	int j, k, i;
	unsigned borrow;

	vf_bytes(r, c, 16);
	if (force_j == 0) {
		if (m == 0) { memset(c, 0, 16); return; }
		if (m == 1) return;
		j = (int)vf_range(r, 1, 4);
		k = (int)vf_range(r, 1, nblk + 2 > 70 ? 70 : (uint32_t)nblk + 2);
	} else {
		j = force_j; k = force_k;
	}
	/* low 4j bytes := 2^(32j) - k  (k >= 0; k == 0 gives zero with the carry already gone) */
	memset(c + 16 - 4 * j, 0, 4 * (size_t)j);
	borrow = (unsigned)k;
	for (i = 15; i >= 16 - 4 * j && borrow; i --) {
		unsigned d = borrow & 0xFF, cur = c[i];
		borrow >>= 8;
		if (cur < d) { c[i] = (unsigned char)(cur + 256 - d); borrow ++; } else c[i] = (unsigned char)(cur - d);
	}
}

static void
cc_desc(const char *sec, uint64_t idx, const unsigned char *key, size_t klen, const unsigned char *ctr,
	const unsigned char *mac, size_t len, const chunks *ch, unsigned mix, size_t off)
{
	char x[120];
	snprintf(x, sizeof x, "cbcmac=%s mix=0x%x", vf_hexs(mac, 16), mix);
	set_desc(sec, idx, key, klen, ctr, 16, len, ch, off, x);
}

static void
sec_ctrcbc_lengths(size_t maxlen, int sec)
{
	int k;
	size_t nb;
	for (k = 0; k < 3; k ++) for (nb = 0; nb <= maxlen / 16; nb ++) {
		vf_rng r;
		unsigned char key[32], ctr[16], mac[16], *pt;
		size_t len = nb * 16;
		uint64_t idx = (uint64_t)k * 100000 + nb;
		chunks ch = ch_one(len);

		if (!take()) continue;
		case_rng(&r, sec, idx);
		vf_bytes(&r, key, AESK[k]); vf_bytes(&r, mac, 16);
		pick_ctr128(&r, nb, ctr, 0, 0);
		pt = xmalloc(len); vf_bytes(&r, pt, len);
		cc_desc("aes-ctrcbc-len", idx, key, AESK[k], ctr, mac, len, &ch, 0, 0);
		ctrcbc_case(key, AESK[k], ctr, mac, pt, len, &ch, 0, 0);
		vf_distinct("config", "aes-ctrcbc/k%zu/len%zu/1", AESK[k], len);
		sample("aes-ctrcbc-len", AESK[k], len, &ch, key, ctr, 16, "");
		free(pt);
	}
}

/* counters 2^(32j) - k for j = 1..4 and every k <= 70 */
static void
sec_ctrcbc_counters(int sec)
{
	int k, j, kk;
	for (k = 0; k < 3; k ++) for (j = 1; j <= 4; j ++) for (kk = 0; kk <= 70; kk ++) {
		vf_rng r;
		unsigned char key[32], ctr[16], mac[16], *pt;
		uint64_t idx = (uint64_t)k * 100000 + (uint64_t)j * 1000 + kk;
		size_t len = 16 * ((size_t)kk + 9);
		chunks ch = ch_one(len);

		if (!take()) continue;
		case_rng(&r, sec, idx);
		vf_bytes(&r, key, AESK[k]); vf_bytes(&r, mac, 16);
		pick_ctr128(&r, 0, ctr, j, kk);
		pt = xmalloc(len); vf_bytes(&r, pt, len);
		cc_desc("aes-ctrcbc-wrap", idx, key, AESK[k], ctr, mac, len, &ch, 0, 0);
		ctrcbc_case(key, AESK[k], ctr, mac, pt, len, &ch, 0, 0);
		vf_distinct("ctr128_start", "j%d/k%d", j, kk);
		vf_stat("cases_ctr128_carry", 1);
		free(pt);
	}
}

static void
sec_ctrcbc_splits(size_t maxlen, int sec)
{
	int k;
	size_t nb, s;
	for (k = 0; k < 3; k ++) for (nb = 1; nb <= maxlen / 16; nb ++) {
		vf_rng r;
		unsigned char key[32], ctr[16], mac[16], *pt;
		size_t len = nb * 16;
		uint64_t idx = (uint64_t)k * 100000 + nb;

		if (!take()) continue;
		case_rng(&r, sec, idx);
		vf_bytes(&r, key, AESK[k]); vf_bytes(&r, mac, 16);
		pick_ctr128(&r, nb, ctr, 0, 0);
		pt = xmalloc(len); vf_bytes(&r, pt, len);
		for (s = 0; s <= nb; s ++) {
			chunks ch = ch_two(s * 16, len);
			cc_desc("aes-ctrcbc-split2", idx, key, AESK[k], ctr, mac, len, &ch, 0, 0);
			ctrcbc_case(key, AESK[k], ctr, mac, pt, len, &ch, 0, 0);
			vf_stat("splits", 1);
		}
		vf_distinct("config", "aes-ctrcbc/k%zu/len%zu/2", AESK[k], len);
		free(pt);
	}
}

static void
sec_ctrcbc_random(size_t maxlen, int sec, long ncases)
{
	long q;
	for (q = 0; q < ncases; q ++) {
		vf_rng r;
		unsigned char key[32], ctr[16], mac[16], *pt;
		size_t len, off, klen;
		chunks ch;
		unsigned mix;

		if (!take()) continue;
		case_rng(&r, sec, (uint64_t)q);
		klen = AESK[vf_below(&r, 3)];
		len = 16 * vf_range(&r, 0, (uint32_t)(maxlen / 16));
		if (vf_below(&r, 4) == 0) len = 16 * vf_range(&r, 0, 12);
		off = vf_below(&r, 2) ? vf_range(&r, 1, 15) : 0;
		vf_bytes(&r, key, klen); vf_bytes(&r, mac, 16);
		pick_ctr128(&r, len / 16, ctr, 0, 0);
		pt = xmalloc(len); vf_bytes(&r, pt, len);
		ch = ch_rand(&r, len, 16);
		mix = vf_below(&r, 2) ? vf_below(&r, 16) : 0;    /* chunk done as ctr+mac instead of encrypt/decrypt */
		cc_desc("aes-ctrcbc-rand", (uint64_t)q, key, klen, ctr, mac, len, &ch, mix, off);
		ctrcbc_case(key, klen, ctr, mac, pt, len, &ch, mix, off);
		vf_stat("splits", 1);
		if (mix) vf_stat("cases_ctrcbc_mixed", 1);
		vf_distinct("config", "aes-ctrcbc/k%zu/len%zu/%d", klen, len, ch.cnt);
		free(pt);
	}
}

/* ------------------------------------------------------------------ */

int
main(int argc, char **argv)
{
	long nrand, reps;
	size_t exh, maxlen, ctrmax;
	const char *only = vf_arg(argc, argv, "--only", "");
	int rep;

	g_seed = (uint64_t)vf_argi(argc, argv, "--seed", 1);
	g_w = (int)vf_argi(argc, argv, "--worker", 0);
	g_nw = (int)vf_argi(argc, argv, "--nworkers", 1);
	nrand = (long)vf_argi(argc, argv, "--cases", 300);        /* random cases per family and rep */
	reps = (long)vf_argi(argc, argv, "--reps", 1);            /* repetitions of the enumerated sweeps with fresh random material */
	exh = (size_t)vf_argi(argc, argv, "--split-max", 1024);   /* exhaustive two-way splits up to this total */
	maxlen = (size_t)vf_argi(argc, argv, "--max-len", 4096);
	ctrmax = (size_t)vf_argi(argc, argv, "--every-len", 1100);
	if (g_nw < 1 || g_w < 0 || g_w >= g_nw) die("bad-worker-args");
	g_evp = EVP_CIPHER_CTX_new();
	if (!g_evp) die("evp-ctx");
	ref_selftest();
	setup_impls();

#define ON(name) (only[0] == 0 || strstr(only, name) != NULL)
	for (rep = 0; rep < reps; rep ++) {
		g_rep = rep;
		if (ON("aescbc")) {
			sec_cbc_lengths("aes", aes_impls, n_aes, 16, AESK, maxlen, 1);
			sec_cbc_splits("aes", aes_impls, n_aes, 16, AESK, exh, 2);
			sec_cbc_random("aes", aes_impls, n_aes, 16, AESK, maxlen, 3, nrand);
		}
		if (ON("aesctr32")) {
			sec_ctr_lengths(ctrmax, 4);
			sec_ctr_counters(5, 4);
			sec_ctr_splits(exh, 6);
			sec_ctr_random(maxlen, 7, nrand * 2);
		}
		if (ON("aesctrcbc")) {
			sec_ctrcbc_lengths(maxlen, 8);
			sec_ctrcbc_counters(9);
			sec_ctrcbc_splits(exh, 10);
			sec_ctrcbc_random(maxlen, 11, nrand);
		}
		if (ON("descbc")) {
			sec_cbc_lengths("des", des_impls, n_des, 8, DESK, maxlen, 12);
			sec_cbc_splits("des", des_impls, n_des, 8, DESK, exh, 13);
			sec_cbc_random("des", des_impls, n_des, 8, DESK, maxlen, 14, nrand);
		}
	}
	vf_max("tasks_enumerated", g_task);
	EVP_CIPHER_CTX_free(g_evp);
	vf_done();
	return 0;
}
