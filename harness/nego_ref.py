#!/usr/bin/env python3
"""C15 - offline reference for the TLS negotiation and checker of the case logs of h_tls15.

The reference is a statement of the documented / standard rules only; it shares no code with
the C side (own cipher-suite table from the IANA names, own ClientHello / ServerHello decoder).

Sources of each rule (inc/bearssl_ssl.h = H, explanatory comments of src/ssl/*.t0 and
src/inner.h = T, RFC = R):
  version      min(client max, server max); below the server minimum -> fatal protocol_version(70)
               (T: "We still reject versions lower than our configured minimum"; R 5246 E.1); a
               ServerHello version below the client minimum is refused by the client (H:
               BR_ERR_UNSUPPORTED_VERSION).
  fallback     TLS_FALLBACK_SCSV and client max < server max -> inappropriate_fallback(86)
               unless protocol_version applies (R 7507 section 3; T).
  suites       common suites in client order, in server order under
               BR_OPT_ENFORCE_SERVER_PREFERENCES (H: flag and br_ssl_server_get_client_suites);
               minus TLS-1.2-only suites below TLS 1.2, minus ECDHE suites without a common curve or
               a common hash for the signature type (T); first one the key allows: TLS_RSA needs an
               RSA key with KEYX, ECDHE_RSA an RSA key with SIGN, ECDH_RSA/ECDH_ECDSA an EC key with
               KEYX and the matching issuer key type, ECDHE_ECDSA an EC key with SIGN (H:
               br_ssl_server_set_single_rsa / _ec); none -> handshake_failure(40) (T).
  sig. hash    TLS 1.2: SHA-256, SHA-384, SHA-512, SHA-224, SHA-1 (src/inner.h:
               br_ssl_choose_hash "strict choice order").
  ECDHE curve  Curve25519, P-256, P-384, P-521, then lowest id (T, write-ServerKeyExchange).
  no ext.      a client without signature_algorithms is reputed to know SHA-1, without
               supported curves P-256 (T; R 5246 7.4.1.4.1).
  ALPN         the server's most preferred name that the client offers (T: "we apply server's
               preferences"; R 7301 3.2); no common name: no extension, or
               no_application_protocol(120) under BR_OPT_FAIL_ON_ALPN_MISMATCH (H).
  SNI          delivered verbatim, empty when absent (H: br_ssl_engine_get_server_name); a name
               longer than 255 bytes is skipped (T).
  reneg        br_ssl_engine_renegotiate returns 0 on a closed/failed engine or under
               BR_OPT_NO_RENEGOTIATION, else 1 when the peer supports RFC 5746 (H); the
               ServerHello carries renegotiation_info iff the client offered the SCSV or the
               extension (R 5746 3.6).
  client auth  no certificate upon request: BR_ERR_NO_CLIENT_AUTH(29) on the server, tolerated under
               BR_OPT_TOLERATE_NO_CLIENT_AUTH (H). With any hash / curve subsets on both sides:
               CertificateRequest (T, write-CertificateRequest; H: br_ssl_server_set_trust_anchor_names): types
               rsa_sign(1) and ecdsa_sign(64) when the engine verifies RSA / ECDSA (the harness sets both),
               rsa_fixed_ecdh(65) and ecdsa_fixed_ecdh(66) exactly when the suite is ECDH_*; in TLS 1.2 the
               sign+hash list is "the engine capabilities": every SHA-1..SHA-512 function of the server engine
               with RSA and with ECDSA, never MD5; the DN list is the configured trust anchor names.
               Client (H: br_ssl_client_certificate_class.choose, br_ssl_client_set_single_rsa / _ec; T,
               read-CertificateRequest): a Certificate message always answers the request ("it may be empty");
               the single-chain handlers send their chain "whenever a client certificate is requested". The
               signature hash in TLS 1.2 is taken among those "supported by both the client context and the
               server" (server list trimmed to the client's hash functions) in the strict order SHA-256,
               SHA-384, SHA-512, SHA-224, SHA-1 (src/inner.h, br_ssl_choose_hash) and is named, with the
               signature type of the client key, in CertificateVerify (R 5246 7.4.8: it MUST be one of the
               listed pairs); below TLS 1.2 it is MD5+SHA-1 for RSA and SHA-1 for ECDSA (H) and not named.
               Full static ECDH (H, do_keyx; T): only with an ECDH_* suite, a client EC key on the curve of
               the server key, usage KEYX, and - TLS 1.2 - a common hash for the issuer's signature type
               (T: "The ECDH flags must be adjusted for RSA/ECDSA support"); then ClientKeyExchange is empty
               and there is no CertificateVerify. Where static ECDH and ECDSA are both possible the handler
               "chooses" (H): either is accepted. The server (H: br_ssl_server_set_trust_anchor_names,
               BR_OPT_TOLERATE_NO_CLIENT_AUTH) validates the chain through its X.509 engine: the validator
               must be fed exactly the certificates of the client's Certificate message, and a handshake with
               a valid chain and signature completes. Not judged beyond "both sides agree and no completion
               with an unauthenticated client without the tolerance flag": an ECDSA CertificateVerify when
               the server engine's EC implementation lacks the curve of the client key (H: the engine's EC
               implementation is used "for ECDSA support"; outcome not documented), static ECDH when the
               client engine lacks the curve of the server key, no common hash in TLS 1.2 (cannot happen
               within the caller's obligations: the PRF hash of the suite is on both sides).
  errors       a sent fatal alert a gives last_error 512+a, a received one 256+a (H).
  ServerHello  (client side, kind scripted_srv; a scripted peer answers a BearSSL client.) The client
               goes on, without error, iff: version within its [min, max] (H: BR_ERR_UNSUPPORTED_VERSION
               "incoming protocol or record version is unsupported") and equal to the version of the
               record that carries it (T: "Enforce chosen version for subsequent records in both
               directions"; H: BR_ERR_BAD_VERSION, version_in); session ID of at most 32 bytes (H:
               BR_ERR_OVERSIZED_ID); a cipher suite that the client listed (H: BR_ERR_BAD_CIPHER_SUITE
               "a cipher suite that we did not claim to support"), that is a cipher suite and not a
               signalling value (R 7507 section 4, R 5746 3.3: SCSVs cannot be negotiated) and that fits
               the version (T: "suites that don't use HMAC/SHA-1 are for TLS-1.2 only"); compression 0
               (H: BR_ERR_BAD_COMPRESSION); every extension of a type the client sent, at most once (H:
               BR_ERR_EXTRA_EXTENSION; T lists the seven types looked at); server_name empty (H:
               BR_ERR_BAD_SNI), max_fragment_length equal to the client's (H: BR_ERR_BAD_FRAGLEN; T),
               renegotiation_info empty on a first handshake (T; H: BR_ERR_BAD_SECRENEG), ALPN with a
               single name (T) which - under BR_OPT_FAIL_ON_ALPN_MISMATCH - is one of the client's;
               a ServerHello that returns the session ID the client offered resumes that session and
               must carry its version and suite (H: BR_ERR_RESUME_MISMATCH), then ChangeCipherSpec
               follows (H: BR_ERR_BAD_CCS, BR_ERR_UNEXPECTED) instead of a Certificate;
               without the flag a foreign name is "report no matching name and carry on" (H); bodies of
               signature_algorithms, supported_groups, ec_point_formats are ignored (T); lengths add up
               (T: open-elt / close-elt). The next message must be a Certificate (H: BR_ERR_UNEXPECTED).
               A complete Certificate message with an empty certificate list (R 5246 7.4.2: the sender's
               certificate MUST come first in the list; T read-Certificate: "Empty: 0", refused by
               read-Certificate-from-server) or whose 3-byte body announces a non-empty list must make the
               client fail; H does not pin the code of either.
               The error code is judged where H pins it down, else only "fails" (unjudged_error_code_*).
               H documents no alert for these refusals (a sent alert a would show as last_error 512+a):
               alerts are counted, not demanded. After acceptance: br_ssl_engine_get_version (H: "set
               after ... receiving (for a client) the ServerHello"), the session's suite, the selected
               protocol, br_ssl_engine_get_mfln_negotiated = extension echoed, reneg = 2 / 1 (H, field
               comment: "peer supports / does not support secure renegotiation").
Where several documented failures apply at once their precedence is not documented: any of
them is accepted. What is not documented is executed but not judged (counters unjudged_*).
"""
import json
import os
import sys

# ---------------------------------------------------------------------------------------------
# cipher suites (IANA registry names)

SUITE_NAMES = {
    0x000A: 'TLS_RSA_WITH_3DES_EDE_CBC_SHA',
    0x002F: 'TLS_RSA_WITH_AES_128_CBC_SHA',
    0x0035: 'TLS_RSA_WITH_AES_256_CBC_SHA',
    0x003C: 'TLS_RSA_WITH_AES_128_CBC_SHA256',
    0x003D: 'TLS_RSA_WITH_AES_256_CBC_SHA256',
    0x009C: 'TLS_RSA_WITH_AES_128_GCM_SHA256',
    0x009D: 'TLS_RSA_WITH_AES_256_GCM_SHA384',
    0xC003: 'TLS_ECDH_ECDSA_WITH_3DES_EDE_CBC_SHA',
    0xC004: 'TLS_ECDH_ECDSA_WITH_AES_128_CBC_SHA',
    0xC005: 'TLS_ECDH_ECDSA_WITH_AES_256_CBC_SHA',
    0xC008: 'TLS_ECDHE_ECDSA_WITH_3DES_EDE_CBC_SHA',
    0xC009: 'TLS_ECDHE_ECDSA_WITH_AES_128_CBC_SHA',
    0xC00A: 'TLS_ECDHE_ECDSA_WITH_AES_256_CBC_SHA',
    0xC00D: 'TLS_ECDH_RSA_WITH_3DES_EDE_CBC_SHA',
    0xC00E: 'TLS_ECDH_RSA_WITH_AES_128_CBC_SHA',
    0xC00F: 'TLS_ECDH_RSA_WITH_AES_256_CBC_SHA',
    0xC012: 'TLS_ECDHE_RSA_WITH_3DES_EDE_CBC_SHA',
    0xC013: 'TLS_ECDHE_RSA_WITH_AES_128_CBC_SHA',
    0xC014: 'TLS_ECDHE_RSA_WITH_AES_256_CBC_SHA',
    0xC023: 'TLS_ECDHE_ECDSA_WITH_AES_128_CBC_SHA256',
    0xC024: 'TLS_ECDHE_ECDSA_WITH_AES_256_CBC_SHA384',
    0xC025: 'TLS_ECDH_ECDSA_WITH_AES_128_CBC_SHA256',
    0xC026: 'TLS_ECDH_ECDSA_WITH_AES_256_CBC_SHA384',
    0xC027: 'TLS_ECDHE_RSA_WITH_AES_128_CBC_SHA256',
    0xC028: 'TLS_ECDHE_RSA_WITH_AES_256_CBC_SHA384',
    0xC029: 'TLS_ECDH_RSA_WITH_AES_128_CBC_SHA256',
    0xC02A: 'TLS_ECDH_RSA_WITH_AES_256_CBC_SHA384',
    0xC02B: 'TLS_ECDHE_ECDSA_WITH_AES_128_GCM_SHA256',
    0xC02C: 'TLS_ECDHE_ECDSA_WITH_AES_256_GCM_SHA384',
    0xC02D: 'TLS_ECDH_ECDSA_WITH_AES_128_GCM_SHA256',
    0xC02E: 'TLS_ECDH_ECDSA_WITH_AES_256_GCM_SHA384',
    0xC02F: 'TLS_ECDHE_RSA_WITH_AES_128_GCM_SHA256',
    0xC030: 'TLS_ECDHE_RSA_WITH_AES_256_GCM_SHA384',
    0xC031: 'TLS_ECDH_RSA_WITH_AES_128_GCM_SHA256',
    0xC032: 'TLS_ECDH_RSA_WITH_AES_256_GCM_SHA384',
    0xC09C: 'TLS_RSA_WITH_AES_128_CCM',
    0xC09D: 'TLS_RSA_WITH_AES_256_CCM',
    0xC0A0: 'TLS_RSA_WITH_AES_128_CCM_8',
    0xC0A1: 'TLS_RSA_WITH_AES_256_CCM_8',
    0xC0AC: 'TLS_ECDHE_ECDSA_WITH_AES_128_CCM',
    0xC0AD: 'TLS_ECDHE_ECDSA_WITH_AES_256_CCM',
    0xC0AE: 'TLS_ECDHE_ECDSA_WITH_AES_128_CCM_8',
    0xC0AF: 'TLS_ECDHE_ECDSA_WITH_AES_256_CCM_8',
    0xCCA8: 'TLS_ECDHE_RSA_WITH_CHACHA20_POLY1305_SHA256',
    0xCCA9: 'TLS_ECDHE_ECDSA_WITH_CHACHA20_POLY1305_SHA256',
}

MD5, SHA1, SHA224, SHA256, SHA384, SHA512 = 1, 2, 3, 4, 5, 6
TLS10, TLS11, TLS12 = 0x0301, 0x0302, 0x0303
FALLBACK_SCSV, RENEG_SCSV = 0x5600, 0x00FF
OPT_SERVER_PREF, OPT_NO_RENEG, OPT_TOLERATE_NO_CAUTH, OPT_ALPN_FAIL = 1, 2, 4, 8
HASH_PREFERENCE = (SHA256, SHA384, SHA512, SHA224, SHA1)


def _suite_props(name):
    kx = name[4:name.index('_WITH_')]
    rest = name[name.index('_WITH_') + 6:]
    if rest.endswith('_CBC_SHA'):
        mac, only12, prf = SHA1, False, SHA256
    elif rest.endswith('_CBC_SHA256'):
        mac, only12, prf = SHA256, True, SHA256
    elif rest.endswith('_CBC_SHA384'):
        mac, only12, prf = SHA384, True, SHA384
    else:                           # AEAD: GCM, CCM, CCM_8, CHACHA20_POLY1305
        mac, only12 = None, True
        prf = SHA384 if rest.endswith('_SHA384') else SHA256
    return dict(kx=kx, mac=mac, only12=only12, prf=prf)


SUITES = {k: _suite_props(v) for k, v in SUITE_NAMES.items()}
assert len(SUITES) == 45


# ---------------------------------------------------------------------------------------------
# hello decoders (own code; input: hex of the handshake message including its 4-byte header)

class Malformed(Exception):
    pass


class Rd:
    def __init__(self, b):
        self.b, self.o = b, 0

    def left(self):
        return len(self.b) - self.o

    def u(self, n):
        if self.left() < n:
            raise Malformed('short')
        v = int.from_bytes(self.b[self.o:self.o + n], 'big')
        self.o += n
        return v

    def raw(self, n):
        if self.left() < n:
            raise Malformed('short')
        v = self.b[self.o:self.o + n]
        self.o += n
        return v

    def vec(self, lenbytes):
        return Rd(self.raw(self.u(lenbytes)))


def _extensions(r):
    """-> None (no block) or ordered list of (type, bytes)"""
    if r.left() == 0:
        return None
    x = r.vec(2)
    out = []
    while x.left():
        t = x.u(2)
        out.append((t, bytes(x.raw(x.u(2)))))
    return out


def parse_client_hello(hexs):
    r = Rd(bytes.fromhex(hexs))
    if r.u(1) != 1:
        raise Malformed('not a ClientHello')
    body = r.vec(3)
    h = dict()
    h['version'] = body.u(2)
    body.raw(32)
    h['session_id'] = bytes(body.vec(1).b)
    s = body.vec(2)
    h['suites'] = []
    while s.left():
        h['suites'].append(s.u(2))
    h['compression'] = list(body.vec(1).b)
    ext = _extensions(body)
    h['ext_block'] = ext is not None
    h['ext_types'] = [t for t, _ in (ext or [])]
    ext = dict(ext or [])
    # server name: value of the host_name(0) entry
    h['sni'] = None
    h['sni_present'] = 0 in ext
    if 0 in ext:
        lst = Rd(ext[0]).vec(2)
        while lst.left():
            typ = lst.u(1)
            val = bytes(lst.raw(lst.u(2)))
            if typ == 0:
                h['sni'] = val
    h['sig_algs'] = None
    if 13 in ext:
        lst = Rd(ext[13]).vec(2)
        h['sig_algs'] = []
        while lst.left():
            h['sig_algs'].append((lst.u(1), lst.u(1)))
    h['curves'] = None
    if 10 in ext:
        lst = Rd(ext[10]).vec(2)
        h['curves'] = []
        while lst.left():
            h['curves'].append(lst.u(2))
    h['alpn'] = None
    if 16 in ext:
        lst = Rd(ext[16]).vec(2)
        h['alpn'] = []
        while lst.left():
            h['alpn'].append(bytes(lst.raw(lst.u(1))))
    h['reneg_ext'] = ext.get(0xFF01)
    h['max_frag'] = ext.get(1)
    return h


# error codes of inc/bearssl_ssl.h used for the client's refusals
ERR_BAD_PARAM, ERR_UNSUPPORTED_VERSION, ERR_BAD_VERSION, ERR_UNEXPECTED = 1, 3, 4, 10
ERR_OVERSIZED_ID, ERR_BAD_CIPHER_SUITE, ERR_BAD_COMPRESSION, ERR_BAD_FRAGLEN = 15, 16, 17, 18
ERR_BAD_SECRENEG, ERR_EXTRA_EXTENSION, ERR_BAD_SNI = 19, 20, 21
ERR_BAD_CCS, ERR_RESUME_MISMATCH = 12, 25
SERVER_EXT_KNOWN = (0x0000, 0x0001, 0xFF01, 0x000D, 0x000A, 0x000B, 0x0010)


class NotYet(Exception):
    pass


def scan_server_flight(recs):
    """recs: [[record type, record version, payload bytes], ...], the first one of type handshake. Strict,
    sequential reading of the first handshake message. -> dict: status 'record-major' | 'incomplete' | 'complete';
    the fields of the ServerHello as far as they could be read, framing = list of structural defects (length
    fields that contradict each other; they are judged against the declared lengths, so they show before the last
    byte has arrived), ext = None or list of (type, body), leftover = bytes of the handshake stream after the
    message, rec2_bad = a later record carries another version than the first one (reading beyond the first record
    fails), ccs = payload of a ChangeCipherSpec record that follows the handshake records, else None."""
    out = dict(status='complete', framing=[], ext=None, leftover=b'', rec2_bad=False, ccs=None, fields={})
    rv = recs[0][1]
    out['rv'] = rv
    if (rv >> 8) != 3:
        out['status'] = 'record-major'
        return out
    stream = bytes(recs[0][2])
    for t, v, payload in recs[1:]:
        if v != rv:
            out['rec2_bad'] = True
            break
        if t != 22:
            out['ccs'] = bytes(payload)
            break
        stream += bytes(payload)
    f = out['fields']
    if len(stream) >= 1:
        f['msg_type'] = stream[0]
    if len(stream) < 4:
        out['status'] = 'incomplete'
        return out
    ml = int.from_bytes(stream[1:4], 'big')
    if len(stream) < 4 + ml:
        out['status'] = 'incomplete'
    else:
        out['leftover'] = stream[4 + ml:]
    data = stream[4:]
    pos = [0]

    def rd(n, lim):
        """n bytes of a structure that declares lim more bytes"""
        if n > lim:
            raise Malformed('short')
        if pos[0] + n > len(data):
            raise NotYet()
        v = data[pos[0]:pos[0] + n]
        pos[0] += n
        return v

    def num(n, lim):
        return int.from_bytes(rd(n, lim), 'big')

    try:
        try:
            f['version'] = num(2, ml)
            rd(32, ml - 2)
            f['sid_len'] = num(1, ml - 34)
            f['sid'] = bytes(rd(f['sid_len'], ml - 35))
            left = ml - 35 - f['sid_len']
            f['suite'] = num(2, left)
            f['compression'] = num(1, left - 2)
            left -= 3
        except Malformed:
            out['framing'].append('message shorter than its fixed fields')
            return out
        if left == 0:
            return out
        try:
            bl = num(2, left)
        except Malformed:
            out['framing'].append('one byte after the compression method')
            return out
        left -= 2
        if bl > left:
            out['framing'].append('extension block longer than the message')
            return out
        if bl < left:
            out['framing'].append('bytes after the extension block')
        out['ext'] = []
        while bl:
            if bl < 4:
                out['framing'].append('truncated extension header')
                break
            t, el = num(2, bl), num(2, bl - 2)
            bl -= 4
            if el > bl:
                out['framing'].append('extension longer than the block')
                break
            out['ext'].append((t, bytes(rd(el, bl))))
            bl -= el
    except NotYet:
        pass
    return out


def parse_server_hello(hexs):
    r = Rd(bytes.fromhex(hexs))
    if r.u(1) != 2:
        raise Malformed('not a ServerHello')
    body = r.vec(3)
    h = dict()
    h['version'] = body.u(2)
    body.raw(32)
    h['session_id'] = bytes(body.vec(1).b)
    h['suite'] = body.u(2)
    h['compression'] = body.u(1)
    ext = _extensions(body)
    h['ext_types'] = [t for t, _ in (ext or [])]
    ext = dict(ext or [])
    h['alpn'] = None
    if 16 in ext:
        lst = Rd(ext[16]).vec(2)
        names = []
        while lst.left():
            names.append(bytes(lst.raw(lst.u(1))))
        h['alpn'] = names
    h['reneg_ext'] = ext.get(0xFF01)
    return h


# ---------------------------------------------------------------------------------------------
# client authentication: decoders and the fixtures (DER files; the C side uses a generated header)

FIXTURE_DIR = os.path.join(os.path.dirname(os.path.abspath(__file__)), '..', 'fixtures', 'tls')
CLIENT_KEY_CURVE = 23       # cli_ec: P-256, issued by the EC root, keyAgreement + digitalSignature; handler usages KEYX | SIGN
_fixture_cache = {}


def _fixture(name):
    if name not in _fixture_cache:
        with open(os.path.join(FIXTURE_DIR, name), 'rb') as f:
            _fixture_cache[name] = f.read()
    return _fixture_cache[name]


def client_chain(cert):
    """the chain configured for C['cert'] (harness/tlspair.h: single certificate)"""
    return [[], [_fixture('cli_rsa.crt.der')], [_fixture('cli_ec.crt.der')]][cert]


def _der_tlv(b, o):
    tag, ln = b[o], b[o + 1]
    o += 2
    if ln & 0x80:
        n = ln & 0x7F
        ln = int.from_bytes(b[o:o + n], 'big')
        o += n
    return tag, o, o + ln


def cert_subject(der):
    """the encoded subject Name of a certificate"""
    _, s, _ = _der_tlv(der, 0)
    _, s, _ = _der_tlv(der, s)          # tbsCertificate
    t, _, e = _der_tlv(der, s)
    if t == 0xA0:                       # version
        s = e
    for _ in range(4):                  # serialNumber, signature, issuer, validity
        _, _, s = _der_tlv(der, s)
    _, _, e = _der_tlv(der, s)
    return der[s:e]


def trust_anchor_names():
    return sorted(cert_subject(_fixture(n)) for n in ('ca_rsa.crt.der', 'ca_ec.crt.der', 'ca_other.crt.der'))


def fnv1a64(b):
    h = 0xCBF29CE484222325
    for x in b:
        h = ((h ^ x) * 0x100000001B3) & 0xFFFFFFFFFFFFFFFF
    return h


def parse_cert_request(body, version):
    r = Rd(body)
    out = dict(types=list(r.vec(1).b), sigalgs=None, names=[])
    if version >= TLS12:
        lst = r.vec(2)
        out['sigalgs'] = []
        while lst.left():
            out['sigalgs'].append((lst.u(1), lst.u(1)))
    lst = r.vec(2)
    while lst.left():
        out['names'].append(bytes(lst.vec(2).b))
    if r.left():
        raise Malformed('bytes after the CertificateRequest')
    return out


def parse_cert_list(body):
    r = Rd(body)
    lst = r.vec(3)
    out = []
    while lst.left():
        out.append(bytes(lst.vec(3).b))
    if r.left():
        raise Malformed('bytes after the certificate list')
    return out


def parse_cert_verify(body, version):
    """-> ((hash, sig) or None, signature bytes)"""
    r = Rd(body)
    alg = (r.u(1), r.u(1)) if version >= TLS12 else None
    sig = bytes(r.vec(2).b)
    if r.left():
        raise Malformed('bytes after the CertificateVerify signature')
    return alg, sig


def client_auth_reference(C, S, version, suite):
    """what the documentation says about a client-certificate request in a handshake that settled on version / suite"""
    ecdh = SUITES[suite]['kx'] in ('ECDH_RSA', 'ECDH_ECDSA')
    sha = {SHA1, SHA224, SHA256, SHA384, SHA512}
    s_h, c_h = set(S['hashes']) & sha, set(C['hashes']) & sha
    ca = dict(ecdh=ecdh)
    ca['cr_types'] = {1, 64} | ({65, 66} if ecdh else set())
    ca['cr_sigalgs'] = {(h, g) for h in s_h for g in (1, 3)} if version >= TLS12 else None
    ca['no_common_hash'] = version >= TLS12 and not (s_h & c_h)
    # full static ECDH: ECDH_* suite, client key (EC-issued, usage KEYX allowed) on the curve of the server key; in TLS 1.2 the
    # fixed_ecdh types count only with a common hash for the issuer's signature type
    ca['static_possible'] = (C['cert'] == 2 and ecdh and S['kcurve'] == CLIENT_KEY_CURVE
                             and (version < TLS12 or bool(s_h & c_h)))
    return ca


# ---------------------------------------------------------------------------------------------
# the reference negotiation

class Offer:
    """what a client puts on the table (from its configuration or from a scripted hello)"""

    def __init__(self):
        self.vmax = TLS12
        self.vmin = None            # None: scripted peer, accepts whatever comes back
        self.suites = []            # ordered, raw values
        self.sig = {'rsa': set(), 'ecdsa': set()}     # hash ids usable with each signature type
        self.curves = set()
        self.alpn = None            # None = no extension, else ordered list of bytes
        self.sni = None             # bytes or None
        self.reneg_offered = True
        self.scripted = False
        self.sig_ext = True         # signature_algorithms extension present


def offer_from_config(C):
    o = Offer()
    o.vmax, o.vmin = C['vmax'], C['vmin']
    o.suites = list(C['suites'])
    hs = set(C['hashes']) & {SHA1, SHA224, SHA256, SHA384, SHA512}
    o.sig = {'rsa': set(hs), 'ecdsa': set(hs)}      # the full client profile verifies RSA and ECDSA
    o.curves = set(C['curves'])
    o.alpn = [a.encode() for a in C['alpn']] or None
    o.sni = bytes.fromhex(C['sni']) if C['sni'] is not None else None
    return o


def offer_from_hello(h):
    o = Offer()
    o.scripted = True
    o.vmax = h['version']
    o.suites = list(h['suites'])
    o.sig_ext = h['sig_algs'] is not None
    if h['sig_algs'] is None:
        o.sig = {'rsa': {SHA1}, 'ecdsa': {SHA1}}
    else:
        for hh, ss in h['sig_algs']:
            if SHA1 <= hh <= SHA512 and ss in (1, 3):
                o.sig['rsa' if ss == 1 else 'ecdsa'].add(hh)
    o.curves = {23} if h['curves'] is None else set(c for c in h['curves'] if c < 32)
    o.alpn = h['alpn']
    o.sni = h['sni'] if h['sni'] is not None and len(h['sni']) <= 255 else None
    o.reneg_offered = h['reneg_ext'] is not None or RENEG_SCSV in h['suites']
    return o


class Expect:
    def __init__(self):
        self.status = 'ok'          # ok | alert | fail-any | server-local | unjudged
        self.alerts = set()
        self.why = ''
        self.version = self.suite = self.curve = self.sig_hash = self.alpn = None
        self.ecdhe = False
        self.alt_fail_ok = False    # duplicates in the client list: the server may also refuse
        self.server_err = None


def negotiate(o, S):
    e = Expect()
    sflags = S['flags']
    s_alpn = [a.encode() for a in S['alpn']]
    alpn_common = [a for a in s_alpn if o.alpn is not None and a in o.alpn]
    alpn_mismatch = bool(s_alpn) and o.alpn is not None and len(o.alpn) > 0 and not alpn_common
    alpn_fatal = alpn_mismatch and bool(sflags & OPT_ALPN_FAIL)
    real = [s for s in o.suites if s in SUITES]
    e.alt_fail_ok = len(real) != len(set(real))

    if o.vmax < S['vmin']:
        e.status, e.alerts, e.why = 'alert', {70}, 'client maximum version below server minimum'
        if alpn_fatal:
            e.alerts.add(120)
        return e
    if FALLBACK_SCSV in o.suites and o.vmax < S['vmax']:
        e.status, e.alerts, e.why = 'alert', {86}, 'fallback SCSV with client maximum below server maximum'
        return e
    v = min(o.vmax, S['vmax'])
    e.version = v

    s_hashes = set(S['hashes']) & {SHA1, SHA224, SHA256, SHA384, SHA512}
    common_hash = {k: o.sig[k] & s_hashes for k in ('rsa', 'ecdsa')}
    common_curves = o.curves & set(S['curves'])
    s_set, c_set = set(S['suites']), set(o.suites)
    if sflags & OPT_SERVER_PREF:
        order = [s for s in S['suites'] if s in c_set]
    else:
        order = [s for s in o.suites if s in s_set]

    def ecdhe_hash(sig):
        # Below TLS 1.2 the signature hash is fixed by the protocol and RFC 5246 7.4.1.4.1 calls the
        # signature_algorithms extension "not meaningful"; the library's comment filters ECDHE suites on
        # it regardless of the version. Where the two readings differ the suite is not judged (None).
        if common_hash[sig]:
            return True
        return None if (v < TLS12 and o.sig_ext) else False

    def usable(s):
        p = SUITES.get(s)
        if p is None:
            return False
        if p['only12'] and v < TLS12:
            return False
        kx = p['kx']
        if kx == 'RSA':
            return S['key'] == 'rsa' and S['keyx']
        if kx == 'ECDHE_RSA':
            return (S['key'] == 'rsa' and S['sign'] and bool(common_curves)) and ecdhe_hash('rsa')
        if kx == 'ECDHE_ECDSA':
            return (S['key'] == 'ec' and S['sign'] and bool(common_curves)) and ecdhe_hash('ecdsa')
        if kx == 'ECDH_RSA':
            return S['key'] == 'ec' and S['keyx'] and S['issuer'] == 'rsa'
        if kx == 'ECDH_ECDSA':
            return S['key'] == 'ec' and S['keyx'] and S['issuer'] == 'ec'
        return False

    chosen = None
    for s in order:
        u = usable(s)
        if u is None:
            e.status, e.why = 'unjudged', 'signature_algorithms without a usable hash below TLS 1.2'
            return e
        if u:
            chosen = s
            break
    if chosen is None:
        e.status, e.alerts, e.why = 'alert', {40}, 'no usable common cipher suite'
        if alpn_fatal:
            e.alerts.add(120)
        return e
    if alpn_fatal:
        e.status, e.alerts, e.why = 'alert', {120}, 'no common ALPN name and BR_OPT_FAIL_ON_ALPN_MISMATCH'
        return e
    e.suite = chosen
    p = SUITES[chosen]
    e.ecdhe = p['kx'].startswith('ECDHE')
    if e.ecdhe:
        e.curve = 29 if 29 in common_curves else min(common_curves)
        if v >= TLS12:
            ch = common_hash['rsa' if p['kx'] == 'ECDHE_RSA' else 'ecdsa']
            e.sig_hash = next(h for h in HASH_PREFERENCE if h in ch)
    e.alpn = alpn_common[0] if alpn_common else None
    if o.vmin is not None and v < o.vmin:
        e.status, e.why = 'fail-any', 'negotiated version below the client minimum'
        return e
    if S['key'] == 'ec' and S['kcurve'] not in o.curves:
        # the server key lives on a curve the client did not list: RFC 4492 forbids the choice, the
        # library leaves it to the key handler. A BearSSL client cannot complete such a handshake.
        e.status = 'unjudged' if o.scripted else 'fail-any'
        e.why = 'server key curve not offered by the client'
        return e
    return e


# ---------------------------------------------------------------------------------------------
# preconditions (the caller's documented obligations); violated -> the case is not judged

def side_ok(cfg, client):
    if not (TLS10 <= cfg['vmin'] <= cfg['vmax'] <= TLS12):
        return 'version range'
    su = list(cfg['suites'])
    if client and su and su[-1] == FALLBACK_SCSV:
        su = su[:-1]
    if not su or len(su) != len(set(su)) or any(s not in SUITES for s in su):
        return 'suite list'
    hs = set(cfg['hashes'])
    if cfg['vmin'] < TLS12 and not {MD5, SHA1} <= hs:
        return 'MD5/SHA-1 missing below TLS 1.2'
    for s in su:
        p = SUITES[s]
        if (p['mac'] is not None and p['mac'] not in hs) or p['prf'] not in hs:
            return 'suite without its hash functions'
    cv = set(cfg['curves'])
    # (a server without any ECDHE suite needs no EC implementation in the engine: the library's own minr2g / minu2g /
    # minv2g profiles set none)
    needs_ec = client or any(SUITES[s]['kx'].startswith('ECDHE') for s in su)
    if (not cv and needs_ec) or not cv <= {23, 24, 25, 29}:
        return 'curves'
    if len(cfg['alpn']) != len(set(cfg['alpn'])) or any(not a for a in cfg['alpn']):
        return 'alpn'
    return None


# ---------------------------------------------------------------------------------------------
# checker

class Checker:
    def __init__(self):
        self.stats = {}
        self.viols = []             # (key, what, case descriptor dict)

    def stat(self, k, n=1):
        self.stats[k] = self.stats.get(k, 0) + n

    def viol(self, key, what, case):
        d = dict(idx=case['i'], seed=case['seed'], kind=case['kind'], S=case.get('S'))
        if 'C' in case:
            d['C'] = case['C']
        else:
            d['client_hello'] = case.get('ch')
        d['observed'] = {k: case.get(k) for k in ('oc', 'os', 'alerts', 'ske', 'sh', 'recs', 'plan', 'cx', 'mfln',
                                                  'renegst', 'left', 'sess', 'hs', 'cr', 'cv', 'cke_len') if k in case}
        d['replay'] = 'h_tls15 --seed %d --only %d --log <file>' % (case['seed'], case['i'])
        self.viols.append(('C15:' + key, what, d))

    # ---- helpers
    def _fatal_alerts(self, case, direction):
        return [a[2] for a in case['alerts'] if a[0] == direction and a[1] == 2]

    def _check_alert_records(self, case):
        """every alert travels in a record whose version is 3.x (RFC 5246 6.2.1); returns False if not"""
        ok = True
        for d, ver in case.get('alert_records', []):
            self.stat('cmp_alert_record_version')
            if (ver >> 8) != 3:
                ok = False
                self.viol('wire:alert-record-version', 'alert record in direction %d carries record version %04x; '
                          'alerts on the wire: %s' % (d, ver, case['alerts']), case)
        return ok

    def _check_alert(self, case, e, who='os'):
        self.stat('cmp_alert')
        readable = self._check_alert_records(case)
        sa = self._fatal_alerts(case, 1)
        if not sa or sa[0] not in e.alerts:
            self.viol('alert-mismatch', 'expected fatal alert %s from the server (%s), wire shows %s'
                      % (sorted(e.alerts), e.why, case['alerts']), case)
            return
        self.stat('cmp_error_code')
        if case['os']['err'] != 512 + sa[0]:
            self.viol('error-code-mismatch', 'server sent fatal alert %d but reports last_error %d'
                      % (sa[0], case['os']['err']), case)
        if 'oc' in case and not readable:
            self.stat('unjudged_client_error_after_unreadable_alert')
        elif 'oc' in case:
            self.stat('cmp_error_code')
            if case['oc']['err'] != 256 + sa[0]:
                self.viol('error-code-mismatch', 'client received fatal alert %d but reports last_error %d'
                          % (sa[0], case['oc']['err']), case)

    def _check_server_hello(self, case, e, o, ch):
        """wire view of the server's answer against the expectation"""
        if case.get('sh') is None:
            self.viol('wire:no-server-hello', 'handshake expected to succeed but no ServerHello on the wire', case)
            return False
        sh = parse_server_hello(case['sh'])
        self.stat('cmp_wire_server_hello')
        if sh['version'] != e.version:
            self.viol('version-mismatch', 'ServerHello version %04x, reference %04x' % (sh['version'], e.version), case)
        if sh['suite'] != e.suite:
            self.viol('suite-mismatch', 'ServerHello suite %04x, reference %04x' % (sh['suite'], e.suite), case)
            return False    # key exchange parameters follow from the suite
        want = set()
        if o.reneg_offered:
            want.add(0xFF01)
        if e.alpn is not None:
            want.add(16)
        got = set(sh['ext_types'])
        opt = {1} if ch.get('max_frag') is not None else set()
        self.stat('cmp_wire_extensions')
        if len(sh['ext_types']) != len(got) or not (want <= got <= want | opt):
            self.viol('wire:server-hello-extensions', 'ServerHello extensions %s, expected %s'
                      % (sh['ext_types'], sorted(want)), case)
        elif e.alpn is not None and sh['alpn'] != [e.alpn]:
            self.viol('alpn-mismatch', 'ServerHello ALPN %r, reference %r' % (sh['alpn'], e.alpn), case)
        elif o.reneg_offered and sh['reneg_ext'] != b'\x00':
            self.viol('wire:server-hello-extensions', 'renegotiation_info of an initial ServerHello is %r'
                      % sh['reneg_ext'], case)
        # ServerKeyExchange
        ske = case.get('ske')
        self.stat('cmp_wire_key_exchange')
        if e.ecdhe:
            if ske is None:
                self.viol('wire:no-server-key-exchange', 'ECDHE suite without ServerKeyExchange', case)
                return True
            self.stat('cmp_curve')
            if ske[0] != e.curve:
                key = 'curve-mismatch' if ske[0] in (o.curves & set(case['S']['curves'])) else 'curve-not-common'
                self.viol(key, 'ServerKeyExchange curve %d, reference %d' % (ske[0], e.curve), case)
            if e.version >= TLS12:
                self.stat('cmp_sig_hash')
                sig_want = 1 if SUITES[e.suite]['kx'] == 'ECDHE_RSA' else 3
                if ske[2] != sig_want:
                    self.viol('sig-alg-mismatch', 'ServerKeyExchange signature algorithm %d for suite %04x'
                              % (ske[2], e.suite), case)
                if ske[1] != e.sig_hash:
                    self.viol('sig-hash-mismatch', 'ServerKeyExchange hash %d, reference %d' % (ske[1], e.sig_hash), case)
        elif ske is not None:
            self.viol('wire:unexpected-server-key-exchange', 'ServerKeyExchange sent for suite %04x' % e.suite, case)
        return True

    # ---- what the documented accessors told an application policy handler about the ClientHello
    def _policy_view(self, case, pol, ow, S, e):
        """br_ssl_server_get_client_suites: the suites both sides support, in client order unless the server enforces its
        own; _get_client_curves / _get_client_hashes: bit fields of what the client announced (as far as this server
        supports it too: anything else is of no use to a handler and is not judged)."""
        self.stat('cmp_policy_view')
        c_list = [x for x in ow.suites if x in SUITES]
        s_list = list(S['suites'])
        both = set(c_list) & set(s_list)
        base = [x for x in (s_list if S['flags'] & OPT_SERVER_PREF else c_list) if x in both]
        ps = pol['suites']
        it = iter(base)
        if len(set(ps)) != len(ps) or not set(ps) <= both or not all(x in it for x in ps):
            self.viol('policy-view:suites', 'br_ssl_server_get_client_suites gave %s: not a selection, in preference order, of the '
                      'common suites %s' % (['%04x' % x for x in ps], ['%04x' % x for x in base]), case)
        if e.status == 'ok' and e.suite not in ps:
            self.viol('policy-view:suites', 'the suite of the expected outcome (%04x) is not in the list the policy handler '
                      'was given %s' % (e.suite, ['%04x' % x for x in ps]), case)
        cm = sum(1 << c for c in ow.curves)
        sm = sum(1 << c for c in S['curves'])
        if (pol['curves'] & ~cm) or (pol['curves'] & sm) != (cm & sm):
            self.viol('policy-view:curves', 'br_ssl_server_get_client_curves gave %#x, the ClientHello says %#x (server: %#x)'
                      % (pol['curves'], cm, sm), case)
        sh = set(S['hashes'])
        for name, shift in (('rsa', 0), ('ecdsa', 8)):
            for x in (SHA1, SHA224, SHA256, SHA384, SHA512):
                got = bool((pol['hashes'] >> (shift + x)) & 1)
                if got and x not in ow.sig[name]:
                    self.viol('policy-view:hashes', 'br_ssl_server_get_client_hashes (%#x) announces %s with hash %d, the '
                              'ClientHello does not' % (pol['hashes'], name, x), case)
                elif x in sh and got != (x in ow.sig[name]):
                    self.viol('policy-view:hashes', 'br_ssl_server_get_client_hashes (%#x) lacks %s with hash %d, which the '
                              'ClientHello announces and the server supports' % (pol['hashes'], name, x), case)

    # ---- a case with two engines
    def check_pair(self, case):
        C, S, oc, osv = case['C'], case['S'], case['oc'], case['os']
        self.stat('cases_pair')
        why = side_ok(C, True) or side_ok(S, False)
        if why:
            self.stat('unjudged_precondition')
            return
        if case['reset'] != [1, 1]:
            self.viol('reset-failed', 'reset returned %s for a supported configuration' % case['reset'], case)
            return
        if case.get('mon_failed'):
            self.stat('unjudged_monitor_failed')
            return

        # what the client put on the wire must be its configuration
        try:
            ch = parse_client_hello(case['ch'])
        except (Malformed, TypeError, ValueError):
            self.viol('client-offer-mismatch:undecodable', 'ClientHello not decodable: %r' % case.get('ch'), case)
            return
        o = offer_from_config(C)
        self.stat('cmp_client_offer')
        hs = sorted(set(C['hashes']) & {2, 3, 4, 5, 6})
        offer = [
            ('version', ch['version'], C['vmax']),
            ('suites', ch['suites'], C['suites']),
            ('compression', ch['compression'], [0]),
            ('sig-algs', sorted(set(ch['sig_algs'] or [])), sorted((h, s) for h in hs for s in (1, 3))),
            ('curves', sorted(ch['curves'] or []), sorted(C['curves'])),
            ('alpn', ch['alpn'], o.alpn),
            ('sni', ch['sni'], o.sni),
            ('reneg', ch['reneg_ext'], b'\x00'),
        ]
        for f, got, want in offer:
            if got != want:
                self.viol('client-offer-mismatch:' + f, 'ClientHello %s is %r, configuration says %r' % (f, got, want), case)
                return

        e = negotiate(o, S)
        # client authentication comes after the parameters are settled
        ca = client_auth_reference(C, S, e.version, e.suite) if S['creq'] and e.suite is not None else None
        if e.status == 'ok' and S['creq'] and C['cert'] == 0 and not (S['flags'] & OPT_TOLERATE_NO_CAUTH):
            e.status, e.server_err, e.why = 'server-local', 29, 'no client certificate and no tolerance flag'
        if ca is not None and C['cert'] != 0:
            silent = None
            static_seen = ca['static_possible'] and case.get('cke_len') == 0
            if e.status == 'ok' and ca['no_common_hash']:
                silent = 'no common hash for the client signature'
            elif e.status == 'fail-any' and e.why == 'server key curve not offered by the client' and ca['static_possible']:
                silent = 'static ECDH possible but server key curve not in the client engine'
            elif (e.status == 'ok' and C['cert'] == 2 and CLIENT_KEY_CURVE not in S['curves'] and not static_seen):
                silent = 'ECDSA client key on a curve the server engine lacks'
            if silent:
                e.status, e.why = 'client-auth-unjudged', silent
        self.stat('expect_' + e.status)
        if case['kind'] == 'profile':
            self.stat('profile_cases_judged')
            self.stat('profile_expect_' + e.status)
        if e.why:
            self.stat('reason_' + e.why.replace(' ', '_'))
        self.stat('cmp_outcome')
        if case.get('pol'):
            self._policy_view(case, case['pol'], offer_from_hello(ch), S, e)
        both_done = oc['done'] and osv['done']
        any_done = oc['done'] or osv['done']

        if e.status == 'unjudged':
            self.stat('unjudged_doc_silent')
            return
        if e.status == 'client-auth-unjudged':
            self._client_auth_safety(case, e, ca)
            return
        if e.status != 'ok':
            if any_done:
                self.viol('unexpected-success', 'handshake completed (client %d, server %d) although: %s'
                          % (oc['done'], osv['done'], e.why), case)
                return
            if e.status == 'alert':
                self._check_alert(case, e)
            elif e.status == 'server-local':
                self.stat('cmp_client_cert')
                if osv['err'] != e.server_err:
                    self.viol('client-auth-mismatch', 'server last_error %d, documented %d (%s)'
                              % (osv['err'], e.server_err, e.why), case)
                # the request, and the empty Certificate message that answered it
                self.stat('client_auth_requested')
                self.stat('client_auth_none_refused')
                if not case.get('hs_truncated'):
                    self._check_cert_request(case, e, ca)
                    certs = self._check_client_chain(case, C)
                    if certs is not None and (case.get('cv') is not None or osv['xnow'] != 0):
                        self.viol('client-auth:proof-without-certificate', 'CertificateVerify %r / %d chains through the server '
                                  'validator although the client has no certificate' % (case.get('cv'), osv['xnow']), case)
            else:
                self.stat('cmp_fail_any')
                if ca is not None and not case.get('hs_truncated'):
                    self._check_cert_request(case, e, ca)
            # a failed engine refuses renegotiation
            for nm, ob in (('client', oc), ('server', osv)):
                if ob['closed']:
                    self.stat('cmp_reneg')
                    if ob['reneg'] != 0:
                        self.viol('reneg-mismatch', 'br_ssl_engine_renegotiate returned %d on the failed %s'
                                  % (ob['reneg'], nm), case)
            return

        # ---- success expected
        if not both_done:
            self.viol('unexpected-failure', 'handshake failed (client err %d, server err %d, alerts %s); reference: '
                      'version %04x suite %04x%s' % (oc['err'], osv['err'], case['alerts'], e.version, e.suite,
                                                   '' if ca is None else ', client certificate requested, client has %s'
                                                   % ['none', 'an RSA certificate', 'an EC certificate'][C['cert']]), case)
            # what went over the wire for client authentication may tell why
            if ca is not None and not case.get('hs_truncated'):
                cr = self._check_cert_request(case, e, ca)
                if case.get('ccert') is not None and self._check_client_chain(case, C) and case.get('cv') is not None \
                        and C['cert'] != 0 and case.get('cke_len') != 0:
                    self._check_cert_verify(case, e, C, cr, ca)
            return
        if self._fatal_alerts(case, 0) or self._fatal_alerts(case, 1):
            self.viol('alert-mismatch', 'fatal alert on a completed handshake: %s' % case['alerts'], case)
        want_name = o.sni if o.sni is not None else b''
        want_proto = e.alpn.decode() if e.alpn is not None else None
        for who, ob in (('client', oc), ('server', osv)):
            self.stat('cmp_version')
            if ob['ver'] != e.version:
                self.viol('version-mismatch', '%s reports version %04x, reference %04x' % (who, ob['ver'], e.version), case)
            self.stat('cmp_suite')
            if ob['suite'] != e.suite:
                self.viol('suite-mismatch', '%s reports suite %04x, reference %04x' % (who, ob['suite'], e.suite), case)
            if e.ecdhe and ob['suite'] == e.suite:
                self.stat('cmp_curve')
                if ob['curve'] != e.curve:
                    key = 'curve-mismatch' if ob['curve'] in (o.curves & set(S['curves'])) else 'curve-not-common'
                    self.viol(key, '%s reports ECDHE curve %d, reference %d' % (who, ob['curve'], e.curve), case)
            self.stat('cmp_alpn')
            if ob['proto'] != want_proto:
                self.viol('alpn-mismatch', '%s reports protocol %r, reference %r' % (who, ob['proto'], want_proto), case)
            self.stat('cmp_sni')
            if bytes.fromhex(ob['name']) != want_name:
                self.viol('sni-mismatch', '%s reports server name %r, client configuration %r'
                          % (who, bytes.fromhex(ob['name']), want_name), case)
            self.stat('cmp_reneg')
            flags = C['flags'] if who == 'client' else S['flags']
            want_r = 0 if flags & OPT_NO_RENEG else 1
            if ob['reneg'] != want_r:
                self.viol('reneg-mismatch', 'br_ssl_engine_renegotiate returned %d on the idle %s, documented %d'
                          % (ob['reneg'], who, want_r), case)
        # both endpoints agree with each other
        fields = ['ver', 'suite', 'proto', 'name'] + (['curve'] if e.ecdhe and oc['suite'] == osv['suite'] == e.suite else [])
        if not ((C['flags'] | S['flags']) & OPT_NO_RENEG):
            fields.append('reneg')
        for f in fields:
            self.stat('cmp_sides_' + f)
            if oc[f] != osv[f]:
                self.viol('sides-disagree:' + f, 'client %r, server %r' % (oc[f], osv[f]), case)
        self._check_server_hello(case, e, o, ch)
        self._check_client_auth(case, e, ca)

    # ---- client authentication (see the docstring for the source of each rule)
    def _check_cert_request(self, case, e, ca):
        """the CertificateRequest on the wire against the server configuration -> decoded request or None"""
        if case.get('cr') is None or case.get('sh') is None:
            return None
        sh = parse_server_hello(case['sh'])
        if sh['version'] != e.version or sh['suite'] != e.suite:
            return None         # reported elsewhere; the request depends on both
        try:
            cr = parse_cert_request(bytes.fromhex(case['cr']), e.version)
        except Malformed as ex:
            self.viol('client-auth:cert-request-undecodable', 'CertificateRequest %s: %s' % (case['cr'], ex), case)
            return None
        self.stat('cmp_cert_request')
        if len(cr['types']) != len(set(cr['types'])) or set(cr['types']) != ca['cr_types']:
            self.viol('client-auth:cert-request-types', 'CertificateRequest lists certificate types %s, documented %s for suite '
                      '%04x' % (cr['types'], sorted(ca['cr_types']), e.suite), case)
        if ca['cr_sigalgs'] is not None:
            self.stat('cmp_cert_request_algorithms')
            if len(cr['sigalgs']) != len(set(cr['sigalgs'])) or set(cr['sigalgs']) != ca['cr_sigalgs']:
                self.viol('client-auth:cert-request-algorithms', 'CertificateRequest lists (hash, signature) %s, the server '
                          'engine has hash functions %s' % (cr['sigalgs'], case['S']['hashes']), case)
        if sorted(cr['names']) != trust_anchor_names():
            self.viol('client-auth:cert-request-names', 'CertificateRequest carries %d names that are not the configured trust '
                      'anchor names' % len(cr['names']), case)
        return cr

    def _check_client_chain(self, case, C):
        """the client's Certificate message against its configuration -> list of certificates or None"""
        if case.get('ccert') is None:
            self.viol('client-auth:no-certificate-message', 'no Certificate message answers the CertificateRequest (client '
                      'messages %s)' % case['hs'][0], case)
            return None
        try:
            certs = parse_cert_list(bytes.fromhex(case['ccert']))
        except Malformed as ex:
            self.viol('client-auth:certificate-undecodable', 'client Certificate message: %s' % ex, case)
            return None
        self.stat('cmp_client_chain')
        if certs != client_chain(C['cert']):
            self.viol('client-auth:chain-on-wire', 'client sends %d certificates (lengths %s), configured: %s'
                      % (len(certs), [len(c) for c in certs],
                         ['none', 'the RSA certificate', 'the EC certificate'][C['cert']]), case)
            return None
        return certs

    def _validator_fed(self, case, certs):
        """the server's X.509 engine was fed exactly the client's chain"""
        osv = case['os']
        fed = [(n, int(h, 16)) for n, h in osv['xfed']] if osv['xnow'] else []
        wire = [(len(c), fnv1a64(c)) for c in certs]
        return osv['xnow'] == (1 if certs else 0) and fed == wire

    def _check_cert_verify(self, case, e, C, cr, ca):
        """CertificateVerify of a signing client: algorithm bytes (TLS 1.2)"""
        sigtype = 1 if C['cert'] == 1 else 3
        try:
            alg, sig = parse_cert_verify(bytes.fromhex(case['cv']), e.version)
        except Malformed as ex:
            self.viol('client-auth:verify-undecodable', 'CertificateVerify %s: %s' % (case['cv'], ex), case)
            return
        self.stat('cmp_cert_verify')
        if not sig:
            self.viol('client-auth:verify-empty-signature', 'CertificateVerify with an empty signature', case)
        if e.version < TLS12:
            self.stat('cert_verify_below_tls12')
            return
        self.stat('cmp_cert_verify_algorithm')
        listed = list(cr['sigalgs']) if cr is not None else sorted(ca['cr_sigalgs'])
        usable = {h for h, g in listed if g == sigtype and SHA1 <= h <= SHA512 and h in C['hashes']}
        want = next((h for h in HASH_PREFERENCE if h in usable), None)
        if alg not in listed:
            self.viol('client-auth:verify-algorithm-not-listed', 'CertificateVerify names (hash, signature) %s, the '
                      'CertificateRequest lists %s' % (alg, listed), case)
        elif alg[1] != sigtype:
            self.viol('client-auth:verify-signature-type', 'CertificateVerify names signature type %d for %s'
                      % (alg[1], 'an RSA key' if sigtype == 1 else 'an EC key'), case)
        elif alg[0] != want:
            self.viol('client-auth:verify-hash-mismatch', 'CertificateVerify hash %d, reference %s (listed for the key type '
                      'and present in the client: %s)' % (alg[0], want, sorted(usable)), case)
        self.stat('cert_verify_hash_%d' % alg[0])
        if alg[0] != SHA256:
            self.stat('cert_verify_hash_other_than_sha256')

    def _check_client_auth(self, case, e, ca):
        """a completed handshake"""
        C, S, osv = case['C'], case['S'], case['os']
        self.stat('cmp_client_cert')
        asked = 13 in case['hs'][1]
        if asked != bool(S['creq']):
            self.viol('client-auth-mismatch', 'CertificateRequest on the wire: %s, configured: %s' % (asked, S['creq']), case)
            return
        if not S['creq']:
            if osv['xchains'] or 11 in case['hs'][0] or 15 in case['hs'][0]:
                self.viol('client-auth-mismatch', 'client certificate processed without a request', case)
            return
        self.stat('client_auth_requested')
        if case.get('hs_truncated'):
            self.stat('unjudged_client_auth_message_too_long_for_the_log')
            return
        cr = self._check_cert_request(case, e, ca)
        certs = self._check_client_chain(case, C)
        if certs is None:
            return
        self.stat('cmp_client_chain_validator')
        if not self._validator_fed(case, certs):
            self.viol('client-auth:validator-input', 'server validator ran %d times on %s (length, FNV-1a), the client sent %s'
                      % (osv['xnow'], osv['xfed'], [(len(c), '%016x' % fnv1a64(c)) for c in certs]), case)
            return
        if certs and osv['xverdict'] != 0:
            self.viol('client-auth-mismatch', 'completed although the validator verdict was %d' % osv['xverdict'], case)
            return
        cv, cke = case.get('cv'), case.get('cke_len')
        if C['cert'] == 0:
            # only under the tolerance flag (otherwise BR_ERR_NO_CLIENT_AUTH was expected)
            self.stat('client_auth_none_tolerated')
            if cv is not None:
                self.viol('client-auth:proof-without-certificate', 'CertificateVerify from a client without certificate', case)
            return
        if len(C['hashes']) != 6 or len(S['hashes']) != 6:
            self.stat('client_auth_with_reduced_hashes')
        if len(C['curves']) != 4 or len(S['curves']) != 4:
            self.stat('client_auth_with_reduced_curves')
        if cv is None:
            if cke == 0:
                self.stat('client_auth_static_ecdh')
                if not ca['static_possible']:
                    self.viol('client-auth:static-ecdh-outside-its-conditions', 'empty ClientKeyExchange and no CertificateVerify '
                              '(full static ECDH) with suite %04x, client certificate %d, server key curve %d'
                              % (e.suite, C['cert'], S['kcurve']), case)
            else:
                self.viol('client-auth:no-proof-of-possession', 'client certificate sent, ClientKeyExchange of %s bytes and no '
                          'CertificateVerify: completed without proof of possession' % cke, case)
            return
        if cke == 0:
            self.viol('client-auth:verify-after-empty-key-exchange', 'CertificateVerify after an empty ClientKeyExchange', case)
            return
        self.stat('client_auth_rsa_signed' if C['cert'] == 1 else 'client_auth_ecdsa_signed')
        if ca['static_possible']:
            self.stat('client_auth_ecdsa_where_static_ecdh_possible')
        self._check_cert_verify(case, e, C, cr, ca)

    def _client_auth_safety(self, case, e, ca):
        """client authentication in a situation the documentation does not settle: both sides agree, and nobody completes with
        an unauthenticated client unless BR_OPT_TOLERATE_NO_CLIENT_AUTH is set"""
        C, S, oc, osv = case['C'], case['S'], case['oc'], case['os']
        self.stat('unjudged_client_auth_' + e.why.replace(' ', '_'))
        self.stat('client_auth_requested')
        self.stat('cmp_client_auth_safety')
        if not case.get('hs_truncated'):
            self._check_cert_request(case, e, ca)
        if oc['done'] != osv['done']:
            self.viol('sides-disagree:outcome', 'client done %d (err %d), server done %d (err %d)'
                      % (oc['done'], oc['err'], osv['done'], osv['err']), case)
            return
        if not osv['done']:
            self.stat('client_auth_unjudged_failed')
            return
        self.stat('client_auth_unjudged_completed')
        for f in ('ver', 'suite'):
            if oc[f] != osv[f] or oc[f] != (e.version if f == 'ver' else e.suite):
                self.viol('sides-disagree:' + f, 'client %r, server %r, reference %r'
                          % (oc[f], osv[f], e.version if f == 'ver' else e.suite), case)
        if S['flags'] & OPT_TOLERATE_NO_CAUTH or case.get('hs_truncated'):
            return
        try:
            certs = parse_cert_list(bytes.fromhex(case['ccert'])) if case.get('ccert') is not None else None
        except Malformed:
            certs = None
        proof = case.get('cv') is not None or case.get('cke_len') == 0
        if not certs or certs != client_chain(C['cert']) or not self._validator_fed(case, certs) or osv['xverdict'] != 0 \
                or not proof:
            self.viol('client-auth:unauthenticated-completion', 'completed without BR_OPT_TOLERATE_NO_CLIENT_AUTH although the '
                      'client was not authenticated (certificates on the wire %s, validator runs %d verdict %d, CertificateVerify '
                      '%s, ClientKeyExchange %s bytes)' % (None if certs is None else len(certs), osv['xnow'], osv['xverdict'],
                                                         case.get('cv') is not None, case.get('cke_len')), case)

    # ---- a scripted ClientHello against a server engine
    def check_scripted(self, case):
        S, osv = case['S'], case['os']
        self.stat('cases_scripted')
        why = side_ok(S, False)
        if why:
            self.stat('unjudged_precondition')
            return
        if case['reset'][1] != 1:
            self.viol('reset-failed', 'server reset failed for a supported configuration', case)
            return
        ch = parse_client_hello(case['ch'])     # the harness only builds well-formed hellos
        if 0 not in ch['compression']:
            self.stat('unjudged_precondition')
            return
        o = offer_from_hello(ch)
        e = negotiate(o, S)
        self.stat('expect_scripted_' + e.status)
        if e.why:
            self.stat('reason_scripted_' + e.why.replace(' ', '_'))
        for t in ('ext_block',):
            self.stat('scripted_with_extension_block' if ch[t] else 'scripted_without_extension_block')
        if any(s not in SUITES and s not in (FALLBACK_SCSV, RENEG_SCSV) for s in ch['suites']):
            self.stat('scripted_unknown_suite_values')
        if e.alt_fail_ok:
            self.stat('scripted_duplicate_suites')
        if e.status == 'unjudged':
            self.stat('unjudged_doc_silent')
            return
        self.stat('cmp_outcome')
        answered = case.get('sh') is not None
        if e.alt_fail_ok and not answered and osv['err'] != 0 and not case['alerts']:
            # "Duplicates are invalid so this is not a problem if we reject such clients" (T)
            self.stat('duplicates_refused')
            return
        if e.status == 'alert':
            if answered:
                self.viol('unexpected-success', 'ServerHello sent although: %s' % e.why, case)
                return
            self._check_alert(case, e)
            return
        if not answered:
            self.viol('unexpected-failure', 'no ServerHello (server err %d, alerts %s); reference: version %04x '
                      'suite %04x' % (osv['err'], case['alerts'], e.version, e.suite), case)
            return
        if case['alerts']:
            self.viol('alert-mismatch', 'alert after a ServerHello that should stand: %s' % case['alerts'], case)
        suite_ok = self._check_server_hello(case, e, o, ch)
        self.stat('cmp_version')
        if osv['ver'] != e.version:
            self.viol('version-mismatch', 'server reports version %04x, reference %04x' % (osv['ver'], e.version), case)
        if e.ecdhe and suite_ok:
            self.stat('cmp_curve')
            if osv['curve'] != e.curve:
                self.viol('curve-mismatch', 'server reports ECDHE curve %d, reference %d' % (osv['curve'], e.curve), case)
        self.stat('cmp_alpn')
        want_proto = e.alpn.decode() if e.alpn is not None else None
        if osv['proto'] != want_proto:
            self.viol('alpn-mismatch', 'server reports protocol %r, reference %r' % (osv['proto'], want_proto), case)
        # server name: host_name value when it fits, empty otherwise; bytes after a NUL are not visible through a C string
        want = o.sni if o.sni is not None else b''
        if b'\x00' in want:
            self.stat('unjudged_sni_with_nul')
        else:
            self.stat('cmp_sni')
            if bytes.fromhex(osv['name']) != want:
                self.viol('sni-mismatch', 'server reports server name %r, hello carried %r'
                          % (bytes.fromhex(osv['name']), ch['sni']), case)

    # ---- a scripted ServerHello against a client engine
    def _srv_client_ok(self, C, cx):
        """the caller's obligations for the client configurations of this kind"""
        if not (TLS10 <= C['vmin'] <= C['vmax'] <= TLS12):
            return 'version range'
        su = list(C['suites'])
        if su and su[-1] == FALLBACK_SCSV:
            su = su[:-1]
        if not su or len(su) != len(set(su)) or any(s not in SUITES for s in su):
            return 'suite list'
        hs = set(C['hashes'])
        if C['vmin'] < TLS12 and not {MD5, SHA1} <= hs:
            return 'MD5/SHA-1 missing below TLS 1.2'
        for s in su:
            p = SUITES[s]
            if (p['mac'] is not None and p['mac'] not in hs) or p['prf'] not in hs:
                return 'suite without its hash functions'
            if not C['curves'] and p['kx'] != 'RSA':
                return 'EC suite without a curve'
            if cx['nosig'] and p['kx'].startswith('ECDHE'):
                return 'ECDHE suite without signature verification'
        if not set(C['curves']) <= {23, 24, 25, 29}:
            return 'curves'
        if len(C['alpn']) != len(set(C['alpn'])) or any(not a for a in C['alpn']):
            return 'alpn'
        return None

    def check_scripted_srv(self, case):
        C, cx, oc = case['C'], case['cx'], case['oc']
        self.stat('cases_scripted_srv')
        why = self._srv_client_ok(C, cx)
        if why:
            self.stat('unjudged_precondition')
            return
        if case['reset'][0] != 1:
            self.viol('reset-failed', 'client reset failed for a supported configuration', case)
            return
        if case.get('mon_failed'):
            self.stat('unjudged_monitor_failed')
            return

        # ---- what the client put on the wire must be its configuration; it also tells which extensions it sent
        try:
            ch = parse_client_hello(case['ch'])
        except (Malformed, TypeError, ValueError):
            self.viol('client-offer-mismatch:undecodable', 'ClientHello not decodable: %r' % case.get('ch'), case)
            return
        self.stat('cmp_client_offer')
        hs = sorted(set(C['hashes']) & {2, 3, 4, 5, 6})
        offer = [
            ('version', ch['version'], C['vmax']),
            ('suites', ch['suites'], C['suites']),
            ('compression', ch['compression'], [0]),
            ('sig-algs', None if ch['sig_algs'] is None else sorted(set(ch['sig_algs'])),
             None if cx['nosig'] else sorted((h, s) for h in hs for s in (1, 3))),
            ('curves', sorted(ch['curves'] or []), sorted(C['curves'])),
            ('point-formats', 11 in ch['ext_types'], bool(C['curves'])),
            ('alpn', ch['alpn'], [a.encode() for a in C['alpn']] or None),
            ('sni', ch['sni'], bytes.fromhex(C['sni']) if C['sni'] else None),
            ('reneg', ch['reneg_ext'], b'\x00'),
        ]
        for f, got, want in offer:
            if got != want:
                self.viol('client-offer-mismatch:' + f, 'ClientHello %s is %r, configuration says %r' % (f, got, want), case)
                return
        if len(ch['ext_types']) != len(set(ch['ext_types'])):
            self.viol('client-offer-mismatch:duplicate-extension', 'ClientHello extensions %s' % ch['ext_types'], case)
            return
        if ch['max_frag'] is not None and (len(ch['max_frag']) != 1 or not 1 <= ch['max_frag'][0] <= 4):
            self.viol('client-offer-mismatch:max-fragment-length', 'ClientHello max_fragment_length %r' % ch['max_frag'], case)
            return
        self.stat('srvhello_client_sent_mfl' if ch['max_frag'] is not None else 'srvhello_client_sent_no_mfl')
        sent = set(ch['ext_types'])
        offered = [a.encode() for a in C['alpn']]
        alpn_flag = bool(C['flags'] & OPT_ALPN_FAIL)
        for name in case.get('plan', []):
            self.stat('srvhello_plan_' + name.replace('-', '_'))

        # ---- the reference: defects of the flight, each with the documented error codes (None: not pinned down)
        recs = [(t, v, bytes.fromhex(x)) for t, v, x in case['recs']]
        sess = case.get('sess')
        self.stat('srvhello_client_offers_session' if sess else 'srvhello_client_without_session')
        if ch['session_id'] != (bytes.fromhex(sess['id']) if sess else b''):
            self.viol('client-offer-mismatch:session-id', 'ClientHello session ID %r, session to resume %r'
                      % (ch['session_id'], sess), case)
            return
        resumed = False
        fl = scan_server_flight(recs)
        F = fl['fields']
        defects = {}
        notes = []
        if fl['status'] == 'record-major':
            defects['record_major_version'] = {ERR_UNSUPPORTED_VERSION}
        elif F.get('msg_type') is not None and F['msg_type'] != 2:
            defects['not_a_server_hello'] = {ERR_UNEXPECTED} if F['msg_type'] != 0 else None
        else:
            ver, suite = F.get('version'), F.get('suite')
            if ver is not None:
                if not C['vmin'] <= ver <= C['vmax']:
                    defects['version_out_of_range'] = {ERR_UNSUPPORTED_VERSION}
                if ver != fl['rv']:
                    defects['record_version_differs'] = {ERR_BAD_VERSION}
            if F.get('sid_len', 0) > 32:
                defects['oversized_id'] = {ERR_OVERSIZED_ID}
            # the client's own session ID comes back: abbreviated handshake with the parameters of that session
            resumed = bool(sess) and F.get('sid') == ch['session_id']
            if resumed and suite is not None and (ver != sess['ver'] or suite != sess['suite']):
                defects['resume_mismatch'] = {ERR_RESUME_MISMATCH}
            if suite is not None:
                if suite not in C['suites']:
                    defects['suite_not_offered'] = {ERR_BAD_CIPHER_SUITE}
                elif suite not in SUITES:
                    defects['suite_is_signalling_value'] = None
                elif SUITES[suite]['only12'] and ver < TLS12:
                    defects['suite_needs_tls12'] = None
            if F.get('compression', 0) != 0:
                defects['compression'] = {ERR_BAD_COMPRESSION}
            if fl['framing']:
                defects['framing'] = None
                notes += fl['framing']
            seen = set()
            for t, body in fl['ext'] or []:
                if t not in SERVER_EXT_KNOWN or t not in sent:
                    defects['extension_not_solicited'] = {ERR_EXTRA_EXTENSION}
                    continue
                if t in seen:
                    defects['extension_duplicated'] = {ERR_EXTRA_EXTENSION}
                    continue
                seen.add(t)
                if t == 0x0000 and body != b'':
                    defects['sni_not_empty'] = {ERR_BAD_SNI}
                elif t == 0x0001:
                    if len(body) != 1:
                        defects['mfl_malformed'] = None
                    elif body != ch['max_frag']:
                        defects['mfl_differs'] = {ERR_BAD_FRAGLEN}
                elif t == 0xFF01 and body != b'\x00':
                    if len(body) >= 2 and body[0] == len(body) - 1:
                        defects['reneg_info_not_empty'] = {ERR_BAD_SECRENEG}
                    else:
                        defects['reneg_info_malformed'] = None
                elif t == 0x0010:
                    name = None
                    if len(body) >= 3 and int.from_bytes(body[:2], 'big') == len(body) - 2 and body[2] == len(body) - 3:
                        name = body[3:]
                    if name is None:
                        defects['alpn_malformed'] = None
                    elif name not in offered:
                        if alpn_flag:
                            defects['alpn_name_not_offered_flag'] = None
                        else:
                            notes.append('alpn-tolerated')
        complete = fl['status'] != 'incomplete'
        if fl['status'] == 'incomplete' and fl['rec2_bad']:
            # the rest of the message would have to come in a record of another version
            defects['later_record_version_differs'] = {ERR_BAD_VERSION}
            complete = True
        elif fl['status'] == 'incomplete' and fl['ccs'] is not None:
            # a record of another type arrives while a handshake message is unfinished (H: BR_ERR_UNEXPECTED, "incoming
            # record ... has wrong type with regards to the current engine state")
            defects['other_record_type_inside_message'] = {ERR_UNEXPECTED}
            complete = True
        sel_alpn, mfl_echo, reneg_echo = None, False, False
        if complete and not defects:
            for t, body in fl['ext'] or []:
                if t == 0x0010 and 'alpn-tolerated' not in notes:
                    sel_alpn = body[3:].decode('latin-1')
                mfl_echo |= t == 0x0001
                reneg_echo |= t == 0xFF01
            # what follows the ServerHello: a Certificate message, or ChangeCipherSpec when the session is resumed
            lo = fl['leftover']
            self.stat('srvhello_resumed' if resumed else 'srvhello_full_handshake')
            if resumed:
                if lo:
                    defects['handshake_message_instead_of_ccs'] = {ERR_UNEXPECTED}
                elif fl['rec2_bad']:
                    defects['later_record_version_differs'] = {ERR_BAD_VERSION}
                elif fl['ccs'] is not None:
                    if fl['ccs'] != b'\x01':
                        defects['malformed_ccs'] = {ERR_BAD_CCS}
                    else:
                        self.stat('srvhello_resumed_ccs_taken')
            elif lo:
                if lo[0] == 0:
                    self.stat('unjudged_srvhello_followed_by_hello_request')
                    return
                if lo[0] != 11:
                    if len(lo) < 4:
                        # the type may be looked at when the 4-byte message header is there
                        self.stat('unjudged_srvhello_next_header_incomplete')
                        return
                    defects['next_message_not_certificate'] = {ERR_UNEXPECTED}
                elif len(lo) >= 4 and int.from_bytes(lo[1:4], 'big') == 3:
                    # a Certificate message that holds nothing but the length of its certificate list
                    if len(lo) < 7:
                        self.stat('unjudged_srvhello_short_certificate_incomplete')
                        return
                    if lo[4:7] == b'\x00\x00\x00':
                        defects['empty_certificate_list'] = None
                    else:
                        defects['certificate_list_length'] = None
                    self.stat('srvhello_certificate_message_of_length_3')
            elif fl['rec2_bad']:
                defects['later_record_version_differs'] = {ERR_BAD_VERSION}
            elif fl['ccs'] is not None:
                defects['ccs_instead_of_certificate'] = {ERR_UNEXPECTED}

        for d in defects:
            self.stat('srvhello_defect_' + d)
        if 'alpn-tolerated' in notes:
            self.stat('srvhello_alpn_foreign_name_without_flag')
        alerts_out = self._fatal_alerts(case, 0)
        self._check_alert_records(case)
        failed = oc['err'] != 0 or oc['closed']

        # ---- message whose end has not arrived: the client may wait, or already refuse what it has seen
        if not complete:
            self.stat('expect_srvhello_incomplete')
            self.stat('unjudged_srvhello_incomplete_message')
            if failed and not defects:
                self.viol('srvhello:failed-on-incomplete-message', 'client failed (err %d) on the well-formed beginning of a '
                          'ServerHello whose end has not arrived' % oc['err'], case)
            return

        self.stat('cmp_srvhello_outcome')
        # never a suite the client did not list
        self.stat('cmp_srvhello_suite_offered')
        if oc['suite'] != 0 and (oc['suite'] not in C['suites'] or oc['suite'] not in SUITES):
            self.viol('srvhello:reports-suite-not-offered', 'client reports cipher suite %04x; it offered %s'
                      % (oc['suite'], ['%04x' % x for x in C['suites']]), case)

        if defects:
            self.stat('expect_srvhello_refuse')
            self.stat('srvhello_single_defect' if len(defects) == 1 else 'srvhello_several_defects')
            desc = ', '.join(sorted(defects)) + (' (%s)' % '; '.join(notes) if notes else '')
            if not (oc['err'] != 0 and oc['closed']):
                self.viol('srvhello:accepted-' + sorted(defects)[0].replace('_', '-'),
                          'client carries on (err %d, closed %d, version %04x, suite %04x) after a ServerHello with: %s'
                          % (oc['err'], oc['closed'], oc['ver'], oc['suite'], desc), case)
                return
            self.stat('srvhello_refused')
            self.stat('srvhello_refused_with_alert' if alerts_out else 'srvhello_refused_without_alert')
            if any(v is None for v in defects.values()):
                for d, v in defects.items():
                    if v is None:
                        self.stat('unjudged_error_code_' + d)
            else:
                self.stat('cmp_srvhello_error_code')
                allowed = set().union(*defects.values())
                if oc['err'] not in allowed:
                    self.viol('srvhello:error-code:' + sorted(defects)[0].replace('_', '-'),
                              'client last_error %d, documented %s for: %s' % (oc['err'], sorted(allowed), desc), case)
            # a sent fatal alert shows in the status
            if alerts_out:
                self.stat('cmp_error_code')
                if oc['err'] != 512 + alerts_out[0]:
                    self.viol('error-code-mismatch', 'client sent fatal alert %d but reports last_error %d'
                              % (alerts_out[0], oc['err']), case)
            return

        # ---- acceptance expected
        self.stat('expect_srvhello_accept')
        if failed:
            self.viol('srvhello:unexpected-refusal', 'client failed (err %d) on an acceptable ServerHello (version %04x, '
                      'suite %04x, extensions %s)' % (oc['err'], F['version'], F['suite'],
                                                      ['%04x' % t for t, _ in fl['ext'] or []]), case)
            return
        self.stat('srvhello_accepted')
        if case['alerts']:
            self.viol('alert-mismatch', 'alert from a client that accepted the ServerHello: %s' % case['alerts'], case)
        if case['hs'][0] != [1]:
            self.viol('srvhello:client-ran-ahead', 'client handshake messages %s before the server flight is over'
                      % case['hs'][0], case)
        self.stat('cmp_srvhello_version')
        if oc['ver'] != F['version']:
            self.viol('version-mismatch', 'client reports version %04x, ServerHello says %04x' % (oc['ver'], F['version']), case)
        self.stat('cmp_srvhello_suite')
        if oc['suite'] != F['suite']:
            self.viol('suite-mismatch', 'client reports suite %04x, ServerHello says %04x' % (oc['suite'], F['suite']), case)
        self.stat('cmp_srvhello_alpn')
        if oc['proto'] != sel_alpn:
            self.viol('alpn-mismatch', 'client reports protocol %r, ServerHello selects %r (client names %s, flag %d)'
                      % (oc['proto'], sel_alpn, C['alpn'], alpn_flag), case)
        self.stat('cmp_srvhello_mfln')
        self.stat('srvhello_mfl_echoed' if mfl_echo else 'srvhello_mfl_not_echoed')
        if bool(case['mfln']) != mfl_echo:
            self.viol('srvhello:mfln-flag', 'br_ssl_engine_get_mfln_negotiated() is %d, extension %s in the ServerHello'
                      % (case['mfln'], 'echoed' if mfl_echo else 'absent'), case)
        self.stat('cmp_srvhello_reneg')
        if case['renegst'] != (2 if reneg_echo else 1):
            self.viol('srvhello:reneg-status', 'reneg status %d after a ServerHello %s renegotiation_info'
                      % (case['renegst'], 'with' if reneg_echo else 'without'), case)

    # ---- a resumption attempt on used contexts (kind "resume")
    def check_resume(self, case):
        """Second connection on the contexts of a first one, the client offering the session, both configurations
        possibly changed in between (C and S are the configurations of the second connection).  Rules:
          * the handshake is abbreviated only if the first connection completed and its version and suite are still
            acceptable to both sides (inside both version ranges, in both suite lists): the property C17 / the
            header (br_ssl_client_reset resume_session, br_ssl_server_set_cache); it then keeps that version, suite;
          * otherwise the outcome is that of a fresh negotiation of the two current configurations (negotiate());
            an abbreviated handshake is also admitted to fail over to nothing else: if a fresh negotiation would
            succeed, the second connection completes one way or the other;
          * the protocol name is negotiated anew in every handshake (RFC 7301 3.1; the header documents
            br_ssl_engine_get_selected_protocol for "the handshake"): both sides report the reference's name for
            the current lists; with BR_OPT_FAIL_ON_ALPN_MISMATCH and no common name: alert 120;
          * the server reports the server name of the second ClientHello."""
        C, S, oc, osv = case['C'], case['S'], case['oc'], case['os']
        self.stat('cases_resume')
        if side_ok(C, True) or side_ok(S, False):
            self.stat('unjudged_precondition')
            return
        if case['reset'] != [1, 1]:
            self.viol('reset-failed', 'reset returned %s for a supported configuration' % case['reset'], case)
            return
        if case.get('mon_failed'):
            self.stat('unjudged_monitor_failed')
            return
        o = offer_from_config(C)
        e = negotiate(o, S)
        ok1, v1, s1 = case['first']
        acceptable = bool(ok1) and C['vmin'] <= v1 <= C['vmax'] and S['vmin'] <= v1 <= S['vmax'] \
            and s1 in C['suites'] and s1 in S['suites']
        both_done = oc['done'] and osv['done']
        abbr = bool(case['abbreviated'])
        self.stat('resume_session_acceptable' if acceptable else 'resume_session_not_acceptable')
        if e.status in ('unjudged',):
            self.stat('unjudged_doc_silent')
            return
        if abbr and both_done:
            self.stat('cmp_resume_abbreviated')
            if not acceptable:
                self.viol('resume:abbreviated-with-unacceptable-session', 'abbreviated handshake although the remembered version %04x / suite %04x '
                          'is not acceptable to both current configurations' % (v1, s1), case)
                return
            for who, ob in (('client', oc), ('server', osv)):
                if ob['ver'] != v1 or ob['suite'] != s1:
                    self.viol('resume:parameters-differ', '%s reports %04x/%04x after resuming a %04x/%04x session'
                              % (who, ob['ver'], ob['suite'], v1, s1), case)
                    return
        elif both_done:
            self.stat('cmp_resume_full')
            if e.status != 'ok':
                self.viol('unexpected-success', 'handshake completed although: %s' % e.why, case)
                return
            for who, ob in (('client', oc), ('server', osv)):
                if ob['ver'] != e.version or ob['suite'] != e.suite:
                    self.viol('resume:full-handshake-parameters', '%s reports %04x/%04x, reference negotiation %04x/%04x'
                              % (who, ob['ver'], ob['suite'], e.version, e.suite), case)
                    return
        else:
            self.stat('cmp_resume_failed')
            if e.status == 'ok':
                self.viol('resume:failed-although-negotiable', 'second connection failed (client err %d, server err %d, alerts %s) although the '
                          'current configurations negotiate version %04x suite %04x%s'
                          % (oc['err'], osv['err'], case['alerts'], e.version, e.suite,
                             '' if acceptable else ' and the session is no longer acceptable (a full handshake is due)'), case)
            elif e.status == 'alert':
                self._check_alert(case, e)
            return
        # completed: protocol and server names are those of this connection
        want_proto = e.alpn.decode() if (e.status == 'ok' and e.alpn is not None) else None
        if e.status == 'ok':
            for who, ob in (('client', oc), ('server', osv)):
                self.stat('cmp_resume_alpn')
                if ob['proto'] != want_proto:
                    self.viol('resume:alpn-mismatch', '%s reports protocol %r after a %s handshake, reference for the current lists %r'
                              % (who, ob['proto'], 'resumed' if abbr else 'full', want_proto), case)
                    return
        want_name = o.sni if o.sni is not None else b''
        self.stat('cmp_resume_sni')
        if bytes.fromhex(osv['name']) != want_name:
            self.viol('resume:sni-mismatch', 'server reports server name %r, the second ClientHello carried %r'
                      % (bytes.fromhex(osv['name']), want_name), case)

    def check_line(self, line):
        try:
            case = json.loads(line)
        except ValueError:
            # a worker that died in mid-line; the driver reports the crash itself
            self.stat('log_lines_unreadable')
            return
        self.stat('cases_checked')
        try:
            if case['kind'] == 'resume':
                self.check_resume(case)
            elif case['kind'] == 'scripted':
                self.check_scripted(case)
            elif case['kind'] == 'scripted_srv':
                self.check_scripted_srv(case)
            else:
                self.check_pair(case)
        except Malformed as ex:
            self.viol('wire:undecodable-hello', 'hello message on the wire is malformed: %s' % ex, case)

    def check_file(self, path):
        with open(path) as f:
            for line in f:
                if line.strip():
                    self.check_line(line)
        return self


def check_path(path):
    """for multiprocessing: returns (stats, violations)"""
    c = Checker().check_file(path)
    return c.stats, c.viols


def main(argv):
    tot = Checker()
    for p in argv[1:]:
        tot.check_file(p)
    for k in sorted(tot.stats):
        print('%-44s %d' % (k, tot.stats[k]))
    seen = {}
    for key, what, case in tot.viols:
        seen.setdefault(key, []).append((what, case))
    for key, lst in sorted(seen.items()):
        print('VIOLATION %s x%d: %s\n   case: %s' % (key, len(lst), lst[0][0], json.dumps(lst[0][1])[:1500]))
    return 1 if tot.viols else 0


if __name__ == '__main__':
    sys.exit(main(sys.argv))
