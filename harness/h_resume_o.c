/*
 * C17 (c): a BearSSL client resuming sessions of an independent server (OpenSSL) that issues session IDs of any
 * length from 1 to 32 bytes (RFC 5246: opaque SessionID<0..32>).  One client context, two connections: the second
 * offers the remembered session; the server's cache still holds it and nothing else changed, so the handshake is
 * abbreviated (OpenSSL reports the session as reused), both sides hold the master secret of the first connection,
 * the randoms are fresh, and data flows under the new keys.  Control: a client that forgot the session
 * (br_ssl_client_forget_session) or that does not ask for resumption gets a full handshake.
 */
#include "tlspair.h"
#include <openssl/ssl.h>
#include <openssl/err.h>

static unsigned g_idlen;

static int
gen_id(SSL *ssl, unsigned char *id, unsigned int *id_len)
{
	unsigned i;
	static unsigned ctr;
	(void)ssl;
	ctr ++;
	for (i = 0; i < g_idlen; i ++) id[i] = (unsigned char)(0xA0 + 13 * i + 7 * ctr);
	*id_len = g_idlen;
	return 1;
}

typedef struct { SSL *ssl; BIO *rbio, *wbio; int fatal; size_t rx; unsigned char rxh[64]; } oside;

static int
pump(tp_ep *b, oside *o, long max)
{
	long n = 0;
	int moved_any = 0;
	while (n ++ < max) {
		int moved = 0;
		unsigned st = br_ssl_engine_current_state(b->eng);
		size_t l;
		unsigned char *p;
		unsigned char tmp[4096];
		if (st & BR_SSL_SENDREC) {
			p = br_ssl_engine_sendrec_buf(b->eng, &l);
			BIO_write(o->rbio, p, (int)l);
			br_ssl_engine_sendrec_ack(b->eng, l);
			tp_calls ++; tp_check(b, "sendrec_ack");
			moved = 1;
		}
		if (!o->fatal) {
			if (!SSL_is_init_finished(o->ssl)) {
				int r = SSL_do_handshake(o->ssl);
				if (r <= 0) { int e = SSL_get_error(o->ssl, r); if (e != SSL_ERROR_WANT_READ && e != SSL_ERROR_WANT_WRITE) o->fatal = 1; }
			} else {
				int r = SSL_read(o->ssl, tmp, sizeof tmp);
				if (r > 0) { if (o->rx + (size_t)r <= sizeof o->rxh) memcpy(o->rxh + o->rx, tmp, (size_t)r); o->rx += (size_t)r; moved = 1; }
			}
		}
		if ((st = br_ssl_engine_current_state(b->eng)) & BR_SSL_RECVREC) {
			int r;
			p = br_ssl_engine_recvrec_buf(b->eng, &l);
			r = BIO_read(o->wbio, p, (int)l);
			if (r > 0) { br_ssl_engine_recvrec_ack(b->eng, (size_t)r); tp_calls ++; tp_check(b, "recvrec_ack"); moved = 1; }
		}
		if (!moved) break;
		moved_any = 1;
	}
	return moved_any;
}

int
main(int argc, char **argv)
{
	long long seed = vf_argi(argc, argv, "--seed", 1);
	int worker = (int)vf_argi(argc, argv, "--worker", 0);
	int nworkers = (int)vf_argi(argc, argv, "--nworkers", 1);
	long ncases = (long)vf_argi(argc, argv, "--cases", 120);
	long idx;
	static const unsigned idlens[8] = { 32, 1, 16, 31, 8, 24, 2, 20 };
	static const uint16_t suites[4] = { 0xC02F, 0x009C, 0x002F, 0xCCA8 };

	tp_prop = "C17";
	tp_fixtures();
	for (idx = worker; idx < ncases; idx += nworkers) {
		vf_rng r;
		tp_ep b;
		tp_cfg cfg;
		SSL_CTX *ctx;
		uint16_t sl[1];
		int k, mode = (int)((idx / 8) % 3);        /* 0: resume; 1: client forgot the session; 2: resume not asked for */
		unsigned version = suites[(idx / 24) % 4] == 0x002F ? 0x0301 + (unsigned)((idx / 96) % 3) : 0x0303;
		unsigned char ms1[48], cr1[32];
		unsigned sidl1 = 0;
		const unsigned char *p;
		X509 *crt; EVP_PKEY *pk;
		char what[300];

		vf_rng_init(&r, (uint64_t)seed, (uint64_t)idx);
		g_idlen = idlens[idx % 8];
		memset(&b, 0, sizeof b);
		ctx = SSL_CTX_new(TLS_server_method());
		SSL_CTX_set_security_level(ctx, 0);
		SSL_CTX_set_min_proto_version(ctx, (int)version); SSL_CTX_set_max_proto_version(ctx, (int)version);
		SSL_CTX_set_options(ctx, SSL_OP_NO_TICKET);
		SSL_CTX_set_session_cache_mode(ctx, SSL_SESS_CACHE_SERVER);
		SSL_CTX_set_session_id_context(ctx, (const unsigned char *)"verif", 5);
		SSL_CTX_set_generate_session_id(ctx, gen_id);
		p = FX_srv_rsa_crt; crt = d2i_X509(NULL, &p, (long)FX_srv_rsa_crt_len);
		p = FX_srv_rsa_key; pk = d2i_AutoPrivateKey(NULL, &p, (long)FX_srv_rsa_key_len);
		if (!crt || !pk || SSL_CTX_use_certificate(ctx, crt) != 1 || SSL_CTX_use_PrivateKey(ctx, pk) != 1) { fprintf(stderr, "HARNESS_ASSERT openssl-key\n"); return 3; }
		X509_free(crt); EVP_PKEY_free(pk);
		snprintf(tp_case, sizeof tp_case, "seed=%lld idx=%ld openssl-server id-length=%u suite=%04x ver=%04x mode=%d", seed, idx, g_idlen, suites[(idx / 24) % 4], version, mode);
		for (k = 0; k < 2; k ++) {
			oside o;
			br_ssl_session_parameters sp;
			unsigned char msg[16];
			size_t l, i;
			memset(&o, 0, sizeof o);
			o.ssl = SSL_new(ctx);
			{
				char cl[100];
				unsigned char id2[2] = { (unsigned char)(suites[(idx / 24) % 4] >> 8), (unsigned char)suites[(idx / 24) % 4] };
				const SSL_CIPHER *ci = SSL_CIPHER_find(o.ssl, id2);
				snprintf(cl, sizeof cl, "%s:@SECLEVEL=0", ci ? SSL_CIPHER_get_name(ci) : "ALL");
				SSL_set_cipher_list(o.ssl, cl);
			}
			o.rbio = BIO_new(BIO_s_mem()); o.wbio = BIO_new(BIO_s_mem());
			BIO_set_mem_eof_return(o.rbio, -1); BIO_set_mem_eof_return(o.wbio, -1);
			SSL_set_bio(o.ssl, o.rbio, o.wbio);
			SSL_set_accept_state(o.ssl);
			tp_cfg_default(&cfg, 0);
			cfg.layout = (int)(idx % 3);
			cfg.buflen = cfg.layout == TP_LAYOUT_MONO ? BR_SSL_BUFSIZE_MONO : (cfg.layout == TP_LAYOUT_SPLIT1 ? BR_SSL_BUFSIZE_BIDI : BR_SSL_BUFSIZE_INPUT);
			cfg.buflen_out = BR_SSL_BUFSIZE_OUTPUT;
			sl[0] = suites[(idx / 24) % 4]; cfg.suites = sl; cfg.nsuites = 1; cfg.vmin = cfg.vmax = version;
			cfg.reuse_ctx = k > 0; cfg.resume = k > 0 && mode != 2;
			vf_bytes(&r, cfg.seed, 32);
			if (k > 0 && mode == 1) br_ssl_client_forget_session(b.cc);
			if (!tp_ep_start(&b, &cfg)) { TP_VIOL("setup:reset-failed", "client reset failed"); SSL_free(o.ssl); break; }
			pump(&b, &o, 100000);
			if (!tp_ep_ready(&b) || !SSL_is_init_finished(o.ssl)) {
				snprintf(what, sizeof what, "connection %d with an OpenSSL server issuing %u-byte session IDs did not complete: client err=%d openssl fatal=%d",
					k + 1, g_idlen, br_ssl_engine_last_error(b.eng), o.fatal);
				TP_VIOL(k ? "resume:handshake-failed" : "setup:first-handshake-failed", what);
				SSL_free(o.ssl);
				break;
			}
			br_ssl_engine_get_session_parameters(b.eng, &sp);
			vf_stat("openssl_connections", 1);
			if (k == 0) {
				memcpy(ms1, sp.master_secret, 48); memcpy(cr1, b.eng->client_random, 32); sidl1 = sp.session_id_len;
				if (sidl1 != g_idlen) { TP_VIOL("resume:session-id-length", "client does not remember the session ID the server issued"); SSL_free(o.ssl); break; }
			} else {
				int reused = SSL_session_reused(o.ssl);
				unsigned char mk[48];
				vf_stat(reused ? "openssl_resumed" : "openssl_full_second", 1);
				vf_distinct("openssl_resume", "len%u/%04x/%04x/m%d/r%d", g_idlen, sl[0], version, mode, reused);
				if (mode == 0 && !reused) { TP_VIOL("resume:full-where-abbreviated-expected", "the server still holds the session the client was asked to resume, yet a full handshake took place"); SSL_free(o.ssl); break; }
				if (mode != 0 && reused) { TP_VIOL("resume:abbreviated-where-full-expected", "session resumed although the client had forgotten it / was not asked to resume"); SSL_free(o.ssl); break; }
				if (reused && memcmp(sp.master_secret, ms1, 48) != 0) { TP_VIOL("resume:master-secret-differs", "resumed session with another master secret on the client"); SSL_free(o.ssl); break; }
				if (SSL_SESSION_get_master_key(SSL_get_session(o.ssl), mk, 48) != 48 || memcmp(mk, sp.master_secret, 48) != 0) { TP_VIOL("resume:master-secret-differs", "client and OpenSSL hold different master secrets"); SSL_free(o.ssl); break; }
				if (memcmp(cr1, b.eng->client_random, 32) == 0) { TP_VIOL("resume:random-reused", "client random of the first connection used again"); SSL_free(o.ssl); break; }
			}
			/* data under the keys of this connection, both ways */
			for (i = 0; i < sizeof msg; i ++) msg[i] = (unsigned char)(idx + 3 * i + k);
			{
				unsigned char *ab = br_ssl_engine_sendapp_buf(b.eng, &l);
				if (ab == NULL || l < sizeof msg) { TP_VIOL("stream:incomplete", "client cannot send after the handshake"); SSL_free(o.ssl); break; }
				memcpy(ab, msg, sizeof msg); br_ssl_engine_sendapp_ack(b.eng, sizeof msg); br_ssl_engine_flush(b.eng, 0);
			}
			pump(&b, &o, 100000);
			if (o.rx != sizeof msg || memcmp(o.rxh, msg, sizeof msg) != 0) { TP_VIOL("stream:incomplete", "OpenSSL did not receive the client's bytes"); SSL_free(o.ssl); break; }
			SSL_write(o.ssl, msg, sizeof msg);
			pump(&b, &o, 100000);
			{
				unsigned char *rb = br_ssl_engine_recvapp_buf(b.eng, &l);
				if (rb == NULL || l != sizeof msg || memcmp(rb, msg, sizeof msg) != 0) { TP_VIOL("stream:incomplete", "client did not receive OpenSSL's bytes"); SSL_free(o.ssl); break; }
				br_ssl_engine_recvapp_ack(b.eng, l);
			}
			/* orderly end, so that the server keeps the session */
			br_ssl_engine_close(b.eng);
			pump(&b, &o, 100000);
			SSL_shutdown(o.ssl);
			pump(&b, &o, 100000);
			SSL_free(o.ssl);
			vf_stat("cases", 1);
		}
		tp_ep_free(&b);
		SSL_CTX_free(ctx);
	}
	vf_stat("monitored_calls", tp_calls);
	vf_done();
	return 0;
}
