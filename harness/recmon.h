/*
 * E2 "recmon" / "recforge": an independent TLS 1.0-1.2 record layer built on
 * OpenSSL EVP primitives. It watches the bytes on the wire, learns the hello
 * randoms, obtains the master secret from a callback at each
 * ChangeCipherSpec, derives the key block with OpenSSL's TLS1-PRF and
 * decrypts / authenticates every record. It shares no code with the
 * library's ssl_rec_*.c and prf*.c. recforge builds protected records with
 * chosen sequence number, IV/nonce and padding.
 */
#ifndef RECMON_H__
#define RECMON_H__

#include <openssl/evp.h>
#include <openssl/hmac.h>
#include <openssl/kdf.h>
#include <openssl/core_names.h>
#include <openssl/params.h>
#include "common.h"

#define RM_MAXREC  (16384 + 2048 + 5)

typedef struct {
	int active;               /* protection on */
	int enc;                  /* see tp_suite_info.enc */
	int mac;                  /* 2 SHA1, 4 SHA256, 5 SHA384, 0 AEAD */
	unsigned version;
	unsigned char mac_key[48]; size_t mac_len;
	unsigned char key[32]; size_t key_len;
	unsigned char iv[16]; size_t iv_len;     /* CBC TLS1.0 chained IV / AEAD implicit part */
	uint64_t seq;
	int epoch;                /* number of CCS seen in this direction */
} rm_cipher;

typedef struct {
	int dir, type; unsigned version;
	int epoch; uint64_t seq;
	size_t wire_len;          /* record payload length on the wire (without header) */
	size_t plain_len;
	unsigned char expl[16]; size_t expl_len;   /* explicit IV / nonce */
	int protected_;
	int padlen;               /* CBC: value of the padding length byte, else -1 */
} rm_record;

typedef struct rm_state_ rm_state;
struct rm_state_ {
	/* raw wire accumulation per direction (0 = client to server) */
	unsigned char *acc[2]; size_t acc_len[2], acc_cap[2];
	rm_cipher cs[2];
	/* handshake reassembly per direction */
	unsigned char *hs[2]; size_t hs_len[2], hs_cap[2];
	/* learnt from hellos */
	unsigned char client_random[32], server_random[32];
	int have_cr, have_sr;
	unsigned version;         /* from ServerHello */
	unsigned suite;
	unsigned char session_id[32]; size_t session_id_len;
	unsigned char ch_session_id[32]; size_t ch_session_id_len;
	unsigned char last_ch[2048]; size_t last_ch_len;   /* last ClientHello message (with 4-byte header) */
	unsigned char last_sh[512]; size_t last_sh_len;
	int n_ch, n_sh;
	/* pending (next) secrets: taken at the first CCS after a ServerHello */
	unsigned char master[48];
	int keys_ready;           /* key block derived for current handshake */
	int waiting_master;
	unsigned char keyblock[256];
	/* message type log */
	unsigned char hs_types[2][64]; int n_hs[2];
	unsigned char alerts[2][16][2]; int n_alerts[2];
	/* counters */
	long n_records[2], n_protected[2], n_app_bytes[2];
	int failed;               /* a record failed to verify: monitor stops decoding that direction */
	int dead[2];
	char fail_what[200];
	/* callbacks */
	int (*get_master)(void *arg, int dir, unsigned char *out48);
	void *cb_arg;
	void (*on_record)(void *arg, const rm_record *r, const unsigned char *plain);
	void (*on_app)(void *arg, int dir, const unsigned char *data, size_t len);
	void (*on_hs)(void *arg, int dir, int type, const unsigned char *body, size_t len);
	/* suite info lookup */
	int (*suite_info)(unsigned suite, int *enc, int *mac, int *prf);
	int verbose;
};

static void
rm_init(rm_state *st)
{
	memset(st, 0, sizeof *st);
}

static void
rm_free(rm_state *st)
{
	int d;
	for (d = 0; d < 2; d ++) { free(st->acc[d]); free(st->hs[d]); }
	memset(st, 0, sizeof *st);
}

static void
rm_append_(unsigned char **buf, size_t *len, size_t *cap, const unsigned char *src, size_t n)
{
	if (*len + n > *cap) {
		size_t nc = *cap ? *cap : 4096;
		while (*len + n > nc) nc *= 2;
		*buf = realloc(*buf, nc);
		*cap = nc;
	}
	memcpy(*buf + *len, src, n);
	*len += n;
}

/* ---- primitives over EVP ---- */

static const EVP_MD *
rm_md(int id)
{
	switch (id) {
	case 2: return EVP_sha1();
	case 4: return EVP_sha256();
	case 5: return EVP_sha384();
	}
	return NULL;
}

static void
rm_enc_params(int enc, size_t *key_len, size_t *fixed_iv_len, size_t *block)
{
	switch (enc) {
	case 0: *key_len = 24; *fixed_iv_len = 8; *block = 8; break;
	case 1: *key_len = 16; *fixed_iv_len = 16; *block = 16; break;
	case 2: *key_len = 32; *fixed_iv_len = 16; *block = 16; break;
	case 3: case 5: case 7: *key_len = 16; *fixed_iv_len = 4; *block = 0; break;
	case 4: case 6: case 8: *key_len = 32; *fixed_iv_len = 4; *block = 0; break;
	default: *key_len = 32; *fixed_iv_len = 12; *block = 0; break;
	}
}

static int
rm_prf(unsigned version, int prf_id, const unsigned char *secret, size_t slen,
	const char *label, const unsigned char *seed1, size_t l1,
	const unsigned char *seed2, size_t l2, unsigned char *out, size_t olen)
{
	EVP_KDF *kdf = EVP_KDF_fetch(NULL, "TLS1-PRF", NULL);
	EVP_KDF_CTX *kc = EVP_KDF_CTX_new(kdf);
	OSSL_PARAM ps[6];
	const char *md = version >= 0x0303 ? (prf_id == 5 ? "SHA384" : "SHA256") : "MD5-SHA1";
	int i = 0, r;
	ps[i ++] = OSSL_PARAM_construct_utf8_string(OSSL_KDF_PARAM_DIGEST, (char *)md, 0);
	ps[i ++] = OSSL_PARAM_construct_octet_string(OSSL_KDF_PARAM_SECRET, (void *)secret, slen);
	ps[i ++] = OSSL_PARAM_construct_octet_string(OSSL_KDF_PARAM_SEED, (void *)label, strlen(label));
	ps[i ++] = OSSL_PARAM_construct_octet_string(OSSL_KDF_PARAM_SEED, (void *)seed1, l1);
	ps[i ++] = OSSL_PARAM_construct_octet_string(OSSL_KDF_PARAM_SEED, (void *)seed2, l2);
	ps[i ++] = OSSL_PARAM_construct_end();
	r = EVP_KDF_derive(kc, out, olen, ps);
	EVP_KDF_CTX_free(kc);
	EVP_KDF_free(kdf);
	return r > 0;
}

static const EVP_CIPHER *
rm_cbc_cipher(int enc)
{
	switch (enc) {
	case 0: return EVP_des_ede3_cbc();
	case 1: return EVP_aes_128_cbc();
	default: return EVP_aes_256_cbc();
	}
}

static int
rm_cbc(int encrypt, int enc, const unsigned char *key, const unsigned char *iv,
	unsigned char *data, size_t len)
{
	EVP_CIPHER_CTX *c = EVP_CIPHER_CTX_new();
	int ol = 0, ok;
	unsigned char *tmp = malloc(len + 32);
	ok = EVP_CipherInit_ex(c, rm_cbc_cipher(enc), NULL, key, iv, encrypt)
		&& EVP_CIPHER_CTX_set_padding(c, 0)
		&& EVP_CipherUpdate(c, tmp, &ol, data, (int)len);
	if (ok && (size_t)ol == len) memcpy(data, tmp, len); else ok = 0;
	free(tmp);
	EVP_CIPHER_CTX_free(c);
	return ok;
}

static void
rm_mac_header(unsigned char *h, uint64_t seq, int type, unsigned version, size_t len)
{
	int i;
	for (i = 0; i < 8; i ++) h[i] = (unsigned char)(seq >> (56 - 8 * i));
	h[8] = (unsigned char)type;
	h[9] = (unsigned char)(version >> 8); h[10] = (unsigned char)version;
	h[11] = (unsigned char)(len >> 8); h[12] = (unsigned char)len;
}

static size_t
rm_hmac(int mac, const unsigned char *key, size_t klen, uint64_t seq, int type,
	unsigned version, const unsigned char *data, size_t len, unsigned char *out)
{
	unsigned char h[13];
	unsigned ol = 0;
	HMAC_CTX *hc = HMAC_CTX_new();
	rm_mac_header(h, seq, type, version, len);
	HMAC_Init_ex(hc, key, (int)klen, rm_md(mac), NULL);
	HMAC_Update(hc, h, 13);
	HMAC_Update(hc, data, len);
	HMAC_Final(hc, out, &ol);
	HMAC_CTX_free(hc);
	return ol;
}

/* AEAD seal/open. Returns 1 on success. nonce is 12 bytes. tag_len 16 or 8. */
static int
rm_aead(int encrypt, int enc, const unsigned char *key, const unsigned char *nonce,
	const unsigned char *aad, size_t aad_len, unsigned char *data, size_t len,
	unsigned char *tag, size_t tag_len)
{
	EVP_CIPHER_CTX *c = EVP_CIPHER_CTX_new();
	const EVP_CIPHER *ci;
	int ol = 0, ok = 1, is_ccm = (enc >= 5 && enc <= 8);
	unsigned char *tmp = malloc(len + 32);
	switch (enc) {
	case 3: ci = EVP_aes_128_gcm(); break;
	case 4: ci = EVP_aes_256_gcm(); break;
	case 5: case 7: ci = EVP_aes_128_ccm(); break;
	case 6: case 8: ci = EVP_aes_256_ccm(); break;
	default: ci = EVP_chacha20_poly1305(); break;
	}
	ok = ok && EVP_CipherInit_ex(c, ci, NULL, NULL, NULL, encrypt);
	ok = ok && EVP_CIPHER_CTX_ctrl(c, EVP_CTRL_AEAD_SET_IVLEN, 12, NULL);
	if (is_ccm) {
		ok = ok && EVP_CIPHER_CTX_ctrl(c, EVP_CTRL_AEAD_SET_TAG, (int)tag_len,
			encrypt ? NULL : tag);
	}
	ok = ok && EVP_CipherInit_ex(c, NULL, NULL, key, nonce, encrypt);
	if (is_ccm) {
		ok = ok && EVP_CipherUpdate(c, NULL, &ol, NULL, (int)len);
	}
	ok = ok && EVP_CipherUpdate(c, NULL, &ol, aad, (int)aad_len);
	if (!is_ccm && !encrypt) {
		ok = ok && EVP_CIPHER_CTX_ctrl(c, EVP_CTRL_AEAD_SET_TAG, (int)tag_len, tag);
	}
	if (ok) {
		/* CCM with empty plaintext still needs one update call */
		int r = EVP_CipherUpdate(c, tmp, &ol, data, (int)len);
		if (is_ccm && !encrypt) {
			ok = r > 0;
		} else {
			ok = r > 0;
		}
		if (ok && len > 0) memcpy(data, tmp, len);
	}
	if (ok && !is_ccm) {
		int fl = 0;
		ok = EVP_CipherFinal_ex(c, tmp, &fl) > 0;
	} else if (ok && is_ccm && encrypt) {
		int fl = 0;
		EVP_CipherFinal_ex(c, tmp, &fl);
	}
	if (ok && encrypt) {
		ok = EVP_CIPHER_CTX_ctrl(c, EVP_CTRL_AEAD_GET_TAG, (int)tag_len, tag) > 0;
	}
	free(tmp);
	EVP_CIPHER_CTX_free(c);
	return ok;
}

static size_t
rm_tag_len(int enc) { return (enc == 7 || enc == 8) ? 8 : 16; }

/* ---- key derivation at ChangeCipherSpec ---- */

static int
rm_derive(rm_state *st)
{
	int enc, mac, prf;
	size_t kl, il, bl, ml, need;
	unsigned char seed_unused = 0;
	(void)seed_unused;
	if (!st->suite_info || !st->suite_info(st->suite, &enc, &mac, &prf)) {
		snprintf(st->fail_what, sizeof st->fail_what, "unknown suite %04x", st->suite);
		return 0;
	}
	rm_enc_params(enc, &kl, &il, &bl);
	ml = mac ? (size_t)EVP_MD_get_size(rm_md(mac)) : 0;
	/* TLS 1.1+ CBC does not take IVs from the key block, but the block is a prefix anyway */
	need = 2 * ml + 2 * kl + 2 * il;
	if (!rm_prf(st->version, prf, st->master, 48, "key expansion",
		st->server_random, 32, st->client_random, 32, st->keyblock, need))
	{
		snprintf(st->fail_what, sizeof st->fail_what, "PRF failure");
		return 0;
	}
	st->keys_ready = 1;
	return 1;
}

static void
rm_install(rm_state *st, int dir)
{
	int enc = 0, mac = 0, prf = 0;
	size_t kl, il, bl, ml;
	rm_cipher *c = &st->cs[dir];
	const unsigned char *kb = st->keyblock;
	st->suite_info(st->suite, &enc, &mac, &prf);
	rm_enc_params(enc, &kl, &il, &bl);
	ml = mac ? (size_t)EVP_MD_get_size(rm_md(mac)) : 0;
	c->active = 1;
	c->enc = enc; c->mac = mac; c->version = st->version;
	c->mac_len = ml; c->key_len = kl; c->iv_len = il;
	memcpy(c->mac_key, kb + (dir ? ml : 0), ml);
	memcpy(c->key, kb + 2 * ml + (dir ? kl : 0), kl);
	memcpy(c->iv, kb + 2 * ml + 2 * kl + (dir ? il : 0), il);
	c->seq = 0;
	c->epoch ++;
}

/* ---- record decoding ---- */

static void
rm_fail(rm_state *st, int dir, const char *what)
{
	if (!st->failed) snprintf(st->fail_what, sizeof st->fail_what, "dir %d: %s", dir, what);
	st->failed = 1;
	st->dead[dir] = 1;
}

/* decrypt one protected record in place; returns plaintext length or -1 */
static long
rm_open(rm_state *st, int dir, int type, unsigned version, unsigned char *p, size_t len,
	rm_record *rr)
{
	rm_cipher *c = &st->cs[dir];
	rr->padlen = -1;
	rr->expl_len = 0;
	if (c->enc <= 2) {
		size_t bl = c->enc == 0 ? 8 : 16, ml = c->mac_len, plen, pad, i;
		unsigned char iv[16], mac[64], nextiv[16];
		unsigned char *body = p;
		size_t blen = len;
		if (c->version >= 0x0302) {
			if (len < bl) { rm_fail(st, dir, "CBC record shorter than IV"); return -1; }
			memcpy(iv, p, bl);
			memcpy(rr->expl, p, bl); rr->expl_len = bl;
			body = p + bl; blen = len - bl;
		} else {
			memcpy(iv, c->iv, bl);
		}
		if (blen == 0 || blen % bl != 0) { rm_fail(st, dir, "CBC length not a block multiple"); return -1; }
		memcpy(nextiv, body + blen - bl, bl);
		if (!rm_cbc(0, c->enc, c->key, iv, body, blen)) { rm_fail(st, dir, "CBC decrypt error"); return -1; }
		if (c->version < 0x0302) memcpy(c->iv, nextiv, bl);
		pad = body[blen - 1];
		rr->padlen = (int)pad;
		if (pad + 1 + ml > blen) { rm_fail(st, dir, "CBC padding longer than record"); return -1; }
		for (i = 0; i <= pad; i ++) {
			if (body[blen - 1 - i] != pad) { rm_fail(st, dir, "CBC padding bytes wrong"); return -1; }
		}
		plen = blen - pad - 1 - ml;
		rm_hmac(c->mac, c->mac_key, ml, c->seq, type, version, body, plen, mac);
		if (memcmp(mac, body + plen, ml) != 0) { rm_fail(st, dir, "CBC MAC wrong (or wrong sequence number)"); return -1; }
		memmove(p, body, plen);
		return (long)plen;
	} else {
		unsigned char nonce[12], aad[13];
		size_t tl = rm_tag_len(c->enc), plen, off = 0;
		int i;
		if (c->enc == 9) {
			if (len < tl) { rm_fail(st, dir, "AEAD record too short"); return -1; }
			memcpy(nonce, c->iv, 12);
			for (i = 0; i < 8; i ++) nonce[4 + i] ^= (unsigned char)(c->seq >> (56 - 8 * i));
		} else {
			if (len < 8 + tl) { rm_fail(st, dir, "AEAD record too short"); return -1; }
			memcpy(nonce, c->iv, 4);
			memcpy(nonce + 4, p, 8);
			memcpy(rr->expl, p, 8); rr->expl_len = 8;
			off = 8;
		}
		plen = len - off - tl;
		rm_mac_header(aad, c->seq, type, version, plen);
		if (!rm_aead(0, c->enc, c->key, nonce, aad, 13, p + off, plen, p + off + plen, tl)) {
			rm_fail(st, dir, "AEAD tag wrong (or wrong sequence number / nonce)");
			return -1;
		}
		memmove(p, p + off, plen);
		return (long)plen;
	}
}

static void
rm_handshake_bytes(rm_state *st, int dir, const unsigned char *p, size_t len)
{
	rm_append_(&st->hs[dir], &st->hs_len[dir], &st->hs_cap[dir], p, len);
	for (;;) {
		unsigned char *m = st->hs[dir];
		size_t ml;
		if (st->hs_len[dir] < 4) break;
		ml = ((size_t)m[1] << 16) | ((size_t)m[2] << 8) | m[3];
		if (st->hs_len[dir] < 4 + ml) break;
		if (st->n_hs[dir] < 64) st->hs_types[dir][st->n_hs[dir] ++] = m[0];
		if (st->on_hs) st->on_hs(st->cb_arg, dir, m[0], m + 4, ml);
		if (m[0] == 1 && dir == 0 && ml >= 35) {
			size_t sl = m[4 + 34];
			memcpy(st->client_random, m + 4 + 2, 32);
			st->have_cr = 1;
			st->n_ch ++;
			st->ch_session_id_len = sl <= 32 ? sl : 0;
			if (sl <= 32 && ml >= 35 + sl) memcpy(st->ch_session_id, m + 4 + 35, sl);
			st->last_ch_len = 4 + ml <= sizeof st->last_ch ? 4 + ml : 0;
			memcpy(st->last_ch, m, st->last_ch_len);
			st->keys_ready = 0;
		} else if (m[0] == 2 && dir == 1 && ml >= 38) {
			size_t sl = m[4 + 34];
			st->version = ((unsigned)m[4] << 8) | m[5];
			memcpy(st->server_random, m + 4 + 2, 32);
			st->have_sr = 1;
			st->n_sh ++;
			if (sl <= 32 && ml >= 35 + sl + 3) {
				st->session_id_len = sl;
				memcpy(st->session_id, m + 4 + 35, sl);
				st->suite = ((unsigned)m[4 + 35 + sl] << 8) | m[4 + 36 + sl];
			}
			st->last_sh_len = 4 + ml <= sizeof st->last_sh ? 4 + ml : 0;
			memcpy(st->last_sh, m, st->last_sh_len);
			st->keys_ready = 0;
		}
		memmove(m, m + 4 + ml, st->hs_len[dir] - 4 - ml);
		st->hs_len[dir] -= 4 + ml;
	}
}

/*
 * Decode as many complete records as possible in direction dir.
 * Returns number of records decoded in this call.
 */
static int
rm_drain(rm_state *st, int dir)
{
	int n = 0;
	while (!st->dead[dir]) {
		unsigned char *a = st->acc[dir];
		size_t al = st->acc_len[dir], rl;
		int type;
		unsigned version;
		long pl;
		rm_record rr;
		static unsigned char work[RM_MAXREC + 64];
		if (al < 5) break;
		type = a[0];
		version = ((unsigned)a[1] << 8) | a[2];
		rl = ((size_t)a[3] << 8) | a[4];
		if (rl > RM_MAXREC - 5) { rm_fail(st, dir, "record length field too large"); break; }
		if (al < 5 + rl) break;
		if (type == 20 && !st->keys_ready) {
			/* keys are needed right after this record: fetch the master secret
			   first; if the sender cannot provide it yet, retry at the next feed */
			if (!st->have_cr || !st->have_sr) { rm_fail(st, dir, "CCS before hellos"); break; }
			if (!st->get_master || !st->get_master(st->cb_arg, dir, st->master)) {
				st->waiting_master = 1;
				break;
			}
			st->waiting_master = 0;
			if (!rm_derive(st)) { rm_fail(st, dir, st->fail_what); break; }
		}
		memset(&rr, 0, sizeof rr);
		rr.dir = dir; rr.type = type; rr.version = version; rr.wire_len = rl;
		rr.epoch = st->cs[dir].epoch; rr.seq = st->cs[dir].seq;
		rr.protected_ = st->cs[dir].active;
		rr.padlen = -1;
		memcpy(work, a + 5, rl);
		if (st->cs[dir].active) {
			pl = rm_open(st, dir, type, version, work, rl, &rr);
			if (pl < 0) break;
			st->cs[dir].seq ++;
			st->n_protected[dir] ++;
		} else {
			pl = (long)rl;
		}
		rr.plain_len = (size_t)pl;
		st->n_records[dir] ++;
		n ++;
		/* consume from accumulator */
		memmove(a, a + 5 + rl, al - 5 - rl);
		st->acc_len[dir] = al - 5 - rl;
		if (st->on_record) st->on_record(st->cb_arg, &rr, work);
		switch (type) {
		case 20:
			if (pl != 1 || work[0] != 1) { rm_fail(st, dir, "malformed ChangeCipherSpec"); break; }
			rm_install(st, dir);
			break;
		case 21:
			{
				long i;
				/* alerts may be split or coalesced; log pairs when aligned */
				for (i = 0; i + 1 < pl; i += 2) {
					if (st->n_alerts[dir] < 16) {
						st->alerts[dir][st->n_alerts[dir]][0] = work[i];
						st->alerts[dir][st->n_alerts[dir]][1] = work[i + 1];
						st->n_alerts[dir] ++;
					}
				}
			}
			break;
		case 22:
			rm_handshake_bytes(st, dir, work, (size_t)pl);
			break;
		case 23:
			st->n_app_bytes[dir] += pl;
			if (st->on_app) st->on_app(st->cb_arg, dir, work, (size_t)pl);
			break;
		}
	}
	return n;
}

static void
rm_feed(rm_state *st, int dir, const unsigned char *data, size_t len)
{
	rm_append_(&st->acc[dir], &st->acc_len[dir], &st->acc_cap[dir], data, len);
	rm_drain(st, dir);
}

/* ---- recforge: build a protected record for direction dir ---- */

typedef struct {
	int use_seq; uint64_t seq;        /* override sequence number */
	int use_expl; unsigned char expl[16];   /* explicit IV / nonce override */
	int padlen;                       /* CBC: padding length byte value (-1 = minimal) */
	int bad_pad_index;                /* CBC: corrupt this padding byte (counted from the end, 0 = length byte), -1 none */
	int bad_mac_index;                /* corrupt this MAC/tag byte, -1 none */
	int tag_trunc;                    /* AEAD: drop this many bytes from the tag */
	unsigned version;                 /* 0 = cipher's version */
} rm_forge_opts;

static void
rm_forge_defaults(rm_forge_opts *o)
{
	memset(o, 0, sizeof *o);
	o->padlen = -1; o->bad_pad_index = -1; o->bad_mac_index = -1;
}

/*
 * Builds header + protected payload into out (capacity >= len + 5 + 400).
 * If advance is non-zero the cipher state (seq, chained IV) is advanced as a
 * real sender's would be. Returns total length.
 */
static size_t
rm_seal(rm_cipher *c, int type, const unsigned char *plain, size_t len,
	const rm_forge_opts *o, vf_rng *rng, int advance, unsigned char *out)
{
	unsigned version = o->version ? o->version : c->version;
	uint64_t seq = o->use_seq ? o->seq : c->seq;
	unsigned char *p = out + 5;
	size_t rl;
	if (!c->active) {
		memcpy(p, plain, len);
		rl = len;
	} else if (c->enc <= 2) {
		size_t bl = c->enc == 0 ? 8 : 16, ml = c->mac_len, off = 0, blen, i;
		size_t minpad, pad;
		unsigned char iv[16];
		if (c->version >= 0x0302) {
			if (o->use_expl) memcpy(iv, o->expl, bl); else vf_bytes(rng, iv, bl);
			memcpy(p, iv, bl);
			off = bl;
		} else {
			memcpy(iv, c->iv, bl);
		}
		memcpy(p + off, plain, len);
		rm_hmac(c->mac, c->mac_key, ml, seq, type, version, plain, len, p + off + len);
		if (o->bad_mac_index >= 0 && (size_t)o->bad_mac_index < ml) p[off + len + o->bad_mac_index] ^= 0x01;
		minpad = bl - 1 - ((len + ml) % bl);
		pad = minpad;
		if (o->padlen >= 0) {
			/* smallest admissible value >= requested that keeps block alignment */
			pad = minpad;
			while ((int)pad < o->padlen) pad += bl;
			if (pad > 255) pad -= bl;
		}
		for (i = 0; i <= pad; i ++) p[off + len + ml + i] = (unsigned char)pad;
		blen = len + ml + pad + 1;
		if (o->bad_pad_index >= 0 && (size_t)o->bad_pad_index <= pad) {
			p[off + blen - 1 - o->bad_pad_index] ^= 0x01;
		}
		rm_cbc(1, c->enc, c->key, iv, p + off, blen);
		if (advance && c->version < 0x0302) memcpy(c->iv, p + off + blen - bl, bl);
		rl = off + blen;
	} else {
		unsigned char nonce[12], aad[13];
		size_t tl = rm_tag_len(c->enc), off = 0;
		int i;
		if (c->enc == 9) {
			memcpy(nonce, c->iv, 12);
			for (i = 0; i < 8; i ++) nonce[4 + i] ^= (unsigned char)(seq >> (56 - 8 * i));
		} else {
			memcpy(nonce, c->iv, 4);
			if (o->use_expl) memcpy(nonce + 4, o->expl, 8);
			else for (i = 0; i < 8; i ++) nonce[4 + i] = (unsigned char)(seq >> (56 - 8 * i));
			memcpy(p, nonce + 4, 8);
			off = 8;
		}
		memcpy(p + off, plain, len);
		rm_mac_header(aad, seq, type, version, len);
		rm_aead(1, c->enc, c->key, nonce, aad, 13, p + off, len, p + off + len, tl);
		if (o->bad_mac_index >= 0 && (size_t)o->bad_mac_index < tl) p[off + len + o->bad_mac_index] ^= 0x01;
		rl = off + len + tl - (size_t)o->tag_trunc;
	}
	out[0] = (unsigned char)type;
	out[1] = (unsigned char)(version >> 8); out[2] = (unsigned char)version;
	out[3] = (unsigned char)(rl >> 8); out[4] = (unsigned char)rl;
	if (advance && c->active) c->seq ++;
	return rl + 5;
}

#endif
