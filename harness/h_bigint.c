/*
 * C09 (b): big-integer routines of the i15 / i31 / i32 / i62 variants against
 * GMP.  The per-variant code is the template h_bigint_var.c, included three
 * times below.
 *
 *   h_bigint --seed S --worker i --nworkers n --tier q|t [--budget B] [--only k]
 *
 * Work = list of modulus bit lengths (enumerated, independent of the seed),
 * dealt round-robin to the workers; for each bit length a list of modulus
 * patterns; for each (bit length, pattern, variant) one "suite" of calls.
 * The random stream of a suite depends only on (seed, bit length, pattern,
 * variant), so "--only k" replays the suite of any worker.
 */
#include "common.h"
#include "inner.h"
#include <gmp.h>

#if BR_INT128 || BR_UMUL128
#define I62_NATIVE 1
#else
#define I62_NATIVE 0
#endif

static vf_rng R;
static int g_thorough = 0;
static long long g_budget = 1000000;   /* word-multiplications allowed per modpow call */
static unsigned long long g_seed = 1;

#define HASSERT(c, name) do { if (!(c)) { fflush(stdout); \
	fprintf(stderr, "HARNESS_ASSERT %s line %d\n", name, __LINE__); abort(); } } while (0)

/* ------------------------------------------------------------------ */
/* placed blocks: [pad garbage][object][slack garbage], exact-size malloc */

typedef struct {
	unsigned char *blk, *snap;
	size_t blen, pad, nbytes, slack;
} vblk;

static void *
blk_new(vblk *b, size_t nbytes, size_t pad, size_t slack)
{
	b->blen = pad + nbytes + slack;
	b->blk = malloc(b->blen ? b->blen : 1);
	b->snap = malloc(b->blen ? b->blen : 1);
	HASSERT(b->blk != NULL && b->snap != NULL, "oom");
	HASSERT(((uintptr_t)b->blk & 7) == 0, "malloc-align");
	vf_bytes(&R, b->blk, b->blen);
	b->pad = pad;
	b->nbytes = nbytes;
	b->slack = slack;
	return b->blk + pad;
}

static void blk_snap(vblk *b) { memcpy(b->snap, b->blk, b->blen); }

/* garbage around the object untouched? */
static int
blk_guard_ok(const vblk *b)
{
	return memcmp(b->blk, b->snap, b->pad) == 0
		&& memcmp(b->blk + b->pad + b->nbytes, b->snap + b->pad + b->nbytes, b->slack) == 0;
}

static int blk_same(const vblk *b) { return memcmp(b->blk, b->snap, b->blen) == 0; }

/* change the slack garbage (used to show results do not depend on it) */
static void
blk_free(vblk *b)
{
	free(b->blk);
	free(b->snap);
	b->blk = b->snap = NULL;
}

/* ------------------------------------------------------------------ */
/* case description and violation reporting */

static char g_case[120000];
static size_t g_caselen;

static void
case_begin(const char *var, const char *fn, unsigned k, int pat)
{
	g_caselen = (size_t)snprintf(g_case, sizeof g_case, "seed=%llu v=%s fn=%s k=%u pat=%d",
		g_seed, var, fn, k, pat);
}

static void
case_add(const char *fmt, ...)
{
	va_list ap;
	int n;
	if (g_caselen >= sizeof g_case - 1) return;
	va_start(ap, fmt);
	n = gmp_vsnprintf(g_case + g_caselen, sizeof g_case - g_caselen, fmt, ap);
	va_end(ap);
	if (n > 0) g_caselen += (size_t)n;
	if (g_caselen >= sizeof g_case) g_caselen = sizeof g_case - 1;
}

static void
report(const char *var, const char *fn, const char *aspect, const char *what)
{
	char key[128];
	snprintf(key, sizeof key, "C09:%s:%s:%s", var, fn, aspect);
	vf_viol(key, what, "%s", g_case);
}

static void
count(const char *var, const char *fn)
{
	char name[96];
	snprintf(name, sizeof name, "cmp_%s_%s", var, fn);
	vf_stat(name, 1);
	vf_stat("cmp_total", 1);
}

/* ------------------------------------------------------------------ */
/* random big numbers */

static void
rnd_bits(mpz_t r, size_t bits)
{
	size_t nb = (bits + 7) >> 3;
	unsigned char *tmp = malloc(nb + 1);
	vf_bytes(&R, tmp, nb);
	mpz_import(r, nb, 1, 1, 0, 0, tmp);
	mpz_fdiv_r_2exp(r, r, bits);
	free(tmp);
}

/* each word of width wb is zero, all-ones or random */
static void
rnd_wordy(mpz_t r, size_t bits, unsigned wb)
{
	mpz_t w;
	size_t off;
	mpz_init(w);
	mpz_set_ui(r, 0);
	for (off = 0; off < bits; off += wb) {
		unsigned c = vf_below(&R, 4);
		if (c == 0) continue;
		if (c == 1) { mpz_set_ui(w, 1); mpz_mul_2exp(w, w, wb); mpz_sub_ui(w, w, 1); }
		else rnd_bits(w, wb);
		mpz_mul_2exp(w, w, off);
		mpz_add(r, r, w);
	}
	mpz_fdiv_r_2exp(r, r, bits);
	mpz_clear(w);
}

static void
rnd_below(mpz_t r, const mpz_t m)
{
	rnd_bits(r, mpz_sizeinbase(m, 2) + 64);
	mpz_fdiv_r(r, r, m);
}

/*
 * Value in [0, lim) of a given class (lim >= 2).
 */
#define NCLS 12
static void
gen_value(mpz_t x, const mpz_t lim, int cls, unsigned wb)
{
	size_t k = mpz_sizeinbase(lim, 2);
	unsigned j;
	mpz_t t;
	mpz_init(t);
	switch (cls) {
	case 0: mpz_set_ui(x, 0); break;
	case 1: mpz_set_ui(x, 1); break;
	case 2: mpz_sub_ui(x, lim, 1); break;
	case 3: case 4: case 5:
		j = vf_below(&R, (uint32_t)k);
		mpz_set_ui(x, 1);
		mpz_mul_2exp(x, x, j);
		if (cls == 4) mpz_sub_ui(x, x, 1);
		if (cls == 5) mpz_add_ui(x, x, 1);
		break;
	case 6: rnd_wordy(x, k, wb); break;
	case 7: rnd_below(x, lim); break;
	case 8:  /* lim - small */
		mpz_set_ui(t, 1 + vf_below(&R, 70000));
		mpz_sub(x, lim, t);
		break;
	case 9:  /* same top part as lim, random low part */
		j = vf_below(&R, (uint32_t)k);
		rnd_bits(t, j);
		mpz_sub(x, lim, t);
		mpz_sub_ui(x, x, 1);
		break;
	case 10: /* all ones below the top bit */
		mpz_set_ui(x, 1);
		mpz_mul_2exp(x, x, k - 1);
		mpz_sub_ui(x, x, 1);
		break;
	default: /* random short */
		rnd_bits(x, 1 + vf_below(&R, (uint32_t)k));
		break;
	}
	if (mpz_sgn(x) < 0) mpz_set_ui(x, 0);
	if (mpz_cmp(x, lim) >= 0) mpz_fdiv_r(x, x, lim);
	mpz_clear(t);
}

/*
 * Modulus of exactly k bits (k >= 2), odd or even, of a given pattern.
 */
#define NPAT 7
static void
gen_modulus(mpz_t m, unsigned k, int pat, int odd, unsigned wb)
{
	mpz_t t;
	unsigned topbits = k % wb ? k % wb : wb;
	mpz_init(t);
	switch (pat) {
	default:
	case 0: rnd_bits(m, k); break;
	case 1: /* 2^k - 1 */
		mpz_set_ui(m, 1); mpz_mul_2exp(m, m, k); mpz_sub_ui(m, m, 1); break;
	case 2: /* 2^(k-1) + 1: low words zero */
		mpz_set_ui(m, 1); break;
	case 3: /* top word all ones, rest random */
		rnd_bits(m, k - topbits);
		mpz_set_ui(t, 1); mpz_mul_2exp(t, t, topbits); mpz_sub_ui(t, t, 1);
		mpz_mul_2exp(t, t, k - topbits);
		mpz_add(m, m, t);
		break;
	case 4: /* words zero / all-ones / random */
		rnd_wordy(m, k, wb); break;
	case 5: /* top word minimal (only top bit), rest all ones */
		mpz_set_ui(m, 1); mpz_mul_2exp(m, m, k - topbits); mpz_sub_ui(m, m, 1); break;
	case 6: /* 2^(k-1) + small */
		mpz_set_ui(m, vf_u32(&R) & 0xFFFF); break;
	}
	mpz_fdiv_r_2exp(m, m, k);
	mpz_setbit(m, k - 1);
	if (odd) mpz_setbit(m, 0); else mpz_clrbit(m, 0);
	mpz_clear(t);
	HASSERT(mpz_sizeinbase(m, 2) == k, "modulus-bits");
}

static void
be_export(unsigned char *dst, size_t L, const mpz_t v)
{
	size_t cnt = 0, nb = (mpz_sizeinbase(v, 2) + 7) >> 3;
	memset(dst, 0, L);
	if (mpz_sgn(v) == 0) return;
	HASSERT(nb <= L, "be-export");
	mpz_export(dst + L - nb, &cnt, 1, 1, 0, 0, v);
}

/* exponent bytes */
#define NECLS 7
static void
gen_exp(unsigned char *e, size_t elen, int cls)
{
	size_t z;
	if (elen == 0) return;
	memset(e, 0, elen);
	switch (cls) {
	case 0: break;
	case 1: e[elen - 1] = 1; break;
	case 2: e[elen - 1] = 2; break;
	case 3: memset(e, 0xFF, elen); break;
	case 4: vf_bytes(&R, e, elen); break;
	case 5:
		vf_bytes(&R, e, elen);
		z = vf_below(&R, (uint32_t)elen);
		memset(e, 0, z);
		break;
	default:
		vf_bytes(&R, e, elen);
		e[0] |= 0x80;
		break;
	}
}

static size_t
exp_bytes(size_t n, size_t full)
{
	long long b = g_budget / (long long)(n * n) / 8;
	if (b < 1) b = 1;
	if (b > 64) b = 64;
	if ((size_t)b > full + 2) b = (long long)full + 2;
	return (size_t)b;
}

/* ------------------------------------------------------------------ */
/* the three word variants */

#define VAR_NAME "i15"
#define VAR_SUFFIX _i15
#define VAR_PREFIX br_i15_
#define VAR_NINV br_i15_ninv15
#define W uint16_t
#define WB 15
#define VAR_ENC 1
#define VAR_SH 4
#define VAR_IDX 0
#define HAVE_RSHIFT 1
#define HAVE_MODDIV 1
#define HAVE_MODPOW_OPT 1
#define HAVE_I62 0
#define MONT_SLACK 1        /* see DESIGN §C09: known look-ahead load of i15_montmul.c */
#include "h_bigint_var.c"
#undef VAR_NAME
#undef VAR_SUFFIX
#undef VAR_PREFIX
#undef VAR_NINV
#undef W
#undef WB
#undef VAR_ENC
#undef VAR_SH
#undef VAR_IDX
#undef HAVE_RSHIFT
#undef HAVE_MODDIV
#undef HAVE_MODPOW_OPT
#undef HAVE_I62
#undef MONT_SLACK

#define VAR_NAME "i31"
#define VAR_SUFFIX _i31
#define VAR_PREFIX br_i31_
#define VAR_NINV br_i31_ninv31
#define W uint32_t
#define WB 31
#define VAR_ENC 1
#define VAR_SH 5
#define VAR_IDX 1
#define HAVE_RSHIFT 1
#define HAVE_MODDIV 1
#define HAVE_MODPOW_OPT 1
#define HAVE_I62 1
#define MONT_SLACK 0
#include "h_bigint_var.c"
#undef VAR_NAME
#undef VAR_SUFFIX
#undef VAR_PREFIX
#undef VAR_NINV
#undef W
#undef WB
#undef VAR_ENC
#undef VAR_SH
#undef VAR_IDX
#undef HAVE_RSHIFT
#undef HAVE_MODDIV
#undef HAVE_MODPOW_OPT
#undef HAVE_I62
#undef MONT_SLACK

#define VAR_NAME "i32"
#define VAR_SUFFIX _i32
#define VAR_PREFIX br_i32_
#define VAR_NINV br_i32_ninv32
#define W uint32_t
#define WB 32
#define VAR_ENC 0
#define VAR_SH 5
#define VAR_IDX 2
#define HAVE_RSHIFT 0
#define HAVE_MODDIV 0
#define HAVE_MODPOW_OPT 0
#define HAVE_I62 0
#define MONT_SLACK 0
#include "h_bigint_var.c"

/* ------------------------------------------------------------------ */

int
main(int argc, char **argv)
{
	long long worker = vf_argi(argc, argv, "--worker", 0);
	long long nworkers = vf_argi(argc, argv, "--nworkers", 1);
	long long only = vf_argi(argc, argv, "--only", 0);
	long long onlypat = vf_argi(argc, argv, "--pat", -1);
	const char *tier = vf_arg(argc, argv, "--tier", "q");
	const char *onlyvar = vf_arg(argc, argv, "--var", "");
	unsigned k, idx = 0;

	g_seed = (unsigned long long)vf_argi(argc, argv, "--seed", 1);
	g_thorough = tier[0] == 't';
	g_budget = vf_argi(argc, argv, "--budget", g_budget);
	vf_max_samples = 2;

	/* word-level functions without a modulus: one slice per worker */
	if (!only) {
		vf_rng_init(&R, g_seed, 0xFFFF0000ull + (uint64_t)worker);
		wordfn_i15((unsigned)worker, (unsigned)nworkers);
		wordfn_i31((unsigned)worker, (unsigned)nworkers);
		wordfn_i32((unsigned)worker, (unsigned)nworkers);
	}

	for (k = 9; k <= 4096; k ++) {
		int pat, npat_run = 0;
		if (!g_thorough && k > 1100 && (k - 1100) % 37 != 0 && k != 4096) continue;
		if (only ? (k != (unsigned)only) : ((idx ++ % (unsigned)nworkers) != (unsigned)worker)) continue;
		for (pat = 0; pat < NPAT; pat ++) {
			/* quick: the random pattern and one forced pattern per bit length */
			if (!g_thorough && pat != 0 && pat != 1 + (int)(k % (NPAT - 1))) continue;
			if (onlypat >= 0 && pat != onlypat) continue;
			if (!onlyvar[0] || !strcmp(onlyvar, "i15")) {
				vf_rng_init(&R, g_seed, ((uint64_t)k << 8) + ((uint64_t)pat << 2) + 0);
				suite_i15(k, pat);
			}
			if (!onlyvar[0] || !strcmp(onlyvar, "i31")) {
				vf_rng_init(&R, g_seed, ((uint64_t)k << 8) + ((uint64_t)pat << 2) + 1);
				suite_i31(k, pat);
			}
			if (!onlyvar[0] || !strcmp(onlyvar, "i32")) {
				vf_rng_init(&R, g_seed, ((uint64_t)k << 8) + ((uint64_t)pat << 2) + 2);
				suite_i32(k, pat);
			}
			npat_run ++;
		}
		vf_stat("bitlengths", 1);
		vf_stat("moduli_patterns", npat_run);
	}

	/* exponents as long as the modulus for RSA-size moduli (the suites above bound the exponent by a cost budget):
	   modpow_opt of i15 / i31 / i62 with the smallest and the largest temporary area for 2048, 3072 and 4096 bits,
	   plain modpow of i15 / i31 for 2048 bits: 20 calls, dealt round-robin from the last worker downwards
	   (--full k replays the items of one bit length on one process) */
	{
		static const unsigned fk[3] = { 4096, 3072, 2048 };
		long long fullonly = vf_argi(argc, argv, "--full", 0);
		unsigned item = 0;
		int ki, v, mode;
		for (ki = 0; ki < 3; ki ++) for (v = 0; v < 4; v ++) for (mode = 1; mode <= 2; mode ++) {
			int mine;
			if (v == 3 && (fk[ki] != 2048)) continue;
			item ++;
			mine = fullonly ? (fk[ki] == (unsigned)fullonly) : (!only && (item % (unsigned)nworkers) == (unsigned)(nworkers - 1 - worker));
			if (!mine) continue;
			vf_rng_init(&R, g_seed, 0xFA110000ull + item);
			switch (v) {
			case 0: modpow_full_i15(fk[ki], 0, mode); break;
			case 1: modpow_full_i31(fk[ki], 0, mode); break;
			case 2: modpow_full_i31(fk[ki], 1, mode); break;
			default: if (mode == 1) modpow_full_i15(fk[ki], 3, 1); else modpow_full_i31(fk[ki], 3, 1); break;
			}
		}
	}
	vf_done();
	return 0;
}
