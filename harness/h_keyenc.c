/*
 * C18 (part 1): private-key encoders, br_skey_decoder, br_pkey_decoder.
 *
 * Oracles (reference = OpenSSL 3.0 libcrypto, legacy i2d_/d2i_ paths):
 *  enc   br_encode_{rsa,ec}_{raw,pkcs8}_der: length query == bytes written,
 *        guard bytes intact, bytes == i2d_RSAPrivateKey / i2d_ECPrivateKey /
 *        i2d_PKCS8_PRIV_KEY_INFO; for EC scalars shorter than the order
 *        (OpenSSL always pads) our encoding must decode in OpenSSL to the
 *        same key.
 *  skey  br_skey_decoder on our and on OpenSSL's encodings returns every
 *        field equal to the input (integers modulo leading zeros).
 *  pkey  br_pkey_decoder on i2d_PUBKEY (SPKI) and on i2d_RSAPublicKey (raw)
 *        == key extracted by br_x509_decoder from a certificate (built with
 *        OpenSSL's X509 API) carrying the same key.
 *  pem   key DER armoured with br_pem_encode(LINE64) == PEM_write_bio and
 *        br_pem_decoder gives back name and DER.
 *  alt   legal private-key encodings that neither our encoders nor OpenSSL's
 *        produce, built by hand: EC PKCS#8 whose inner ECPrivateKey carries
 *        the [0] parameters (Java / BouncyCastle) -> same key; inner and outer
 *        curve differ -> not decoded; ECPrivateKey without parameters, PKCS#8
 *        with the curve only inside, RSA PKCS#8 without the NULL parameters ->
 *        executed, judged only "if it decodes, the key is the encoded one".
 */
#define OPENSSL_SUPPRESS_DEPRECATED
#include "common.h"
#include "bearssl.h"
#include <openssl/bn.h>
#include <openssl/rsa.h>
#include <openssl/ec.h>
#include <openssl/evp.h>
#include <openssl/x509.h>
#include <openssl/pem.h>
#include <openssl/bio.h>
#include <openssl/objects.h>

#define G 64   /* guard bytes on each side of an encoder output buffer */

static long long g_seed;
static int g_worker, g_nworkers;
static const char *g_fix;
static EVP_PKEY *g_signkey;

#define HASSERT(c, name) do { if (!(c)) { \
	fprintf(stderr, "HARNESS_ASSERT %s line %d\n", name, __LINE__); exit(3); } } while (0)

typedef struct { unsigned char *p; size_t n; } blob;


static void
strip(const unsigned char **p, size_t *n)
{
	while (*n > 0 && **p == 0) { (*p) ++; (*n) --; }
}

static int
eq_stripped(const unsigned char *a, size_t an, const unsigned char *b, size_t bn)
{
	strip(&a, &an);
	strip(&b, &bn);
	return an == bn && (an == 0 || memcmp(a, b, an) == 0);
}

static uint32_t
bitlen(const unsigned char *a, size_t an)
{
	uint32_t r;
	unsigned v;
	strip(&a, &an);
	if (an == 0) return 0;
	r = (uint32_t)(an - 1) << 3;
	for (v = a[0]; v; v >>= 1) r ++;
	return r;
}

static BIGNUM *bn(blob b) { BIGNUM *x = BN_bin2bn(b.p, (int)b.n, NULL); HASSERT(x, "bn"); return x; }

static blob
bn_blob(const BIGNUM *x, size_t padlen)
{
	blob b;
	b.n = padlen ? padlen : (size_t)BN_num_bytes(x);
	b.p = malloc(b.n ? b.n : 1);
	if (padlen) HASSERT(BN_bn2binpad(x, b.p, (int)padlen) == (int)padlen, "bn2binpad");
	else BN_bn2bin(x, b.p);
	return b;
}

static unsigned char *
read_file(const char *name, size_t *len)
{
	char path[1024];
	FILE *f;
	unsigned char *buf = malloc(8192);
	snprintf(path, sizeof path, "%s/%s", g_fix, name);
	f = fopen(path, "rb");
	if (!f) { fprintf(stderr, "HARNESS_ASSERT fixture-missing %s\n", path); exit(3); }
	*len = fread(buf, 1, 8192, f);
	fclose(f);
	return buf;
}

/* ------------------------------------------------------------------ */
/* guarded two-pass encoder call */

typedef size_t (*enc_fn)(void *dest, void *arg);

/* returns exact-size copy of the output (NULL if length query says 0) */
static unsigned char *
guarded(enc_fn f, void *arg, size_t *outlen, const char *what, const char *cs)
{
	size_t lq, lw, i;
	unsigned char *raw, *out;
	char key[128];
	int bad = 0;

	lq = f(NULL, arg);
	*outlen = lq;
	vf_stat("cmp_lenquery", 1);
	raw = malloc(lq + 2 * G);
	memset(raw, 0xA5, lq + 2 * G);
	lw = f(raw + G, arg);
	if (lw != lq) {
		snprintf(key, sizeof key, "C18:enc:len-query:%s", what);
		vf_viol(key, "length query differs from written length", "%s query=%zu written=%zu", cs, lq, lw);
	}
	for (i = 0; i < G; i ++) {
		if (raw[i] != 0xA5 || raw[G + lq + i] != 0xA5) bad = 1;
	}
	if (bad) {
		snprintf(key, sizeof key, "C18:enc:guard:%s", what);
		vf_viol(key, "encoder wrote outside the announced length", "%s query=%zu", cs, lq);
	}
	if (lq == 0) { free(raw); return NULL; }
	out = vf_dup(raw + G, lq);
	free(raw);
	return out;
}

static void
cmp_bytes(const char *what, const unsigned char *a, size_t an,
	const unsigned char *b, size_t bn_, const char *cs)
{
	char key[128];
	vf_stat("cmp_enc_bytes", 1);
	if (a != NULL && an == bn_ && memcmp(a, b, an) == 0) return;
	snprintf(key, sizeof key, "C18:enc:bytes:%s", what);
	vf_viol(key, "encoding differs from OpenSSL", "%s ours=%s(%zu) ossl=%s(%zu)",
		cs, a ? vf_hexs(a, an) : "-", an, vf_hexs(b, bn_), bn_);
}

/* ------------------------------------------------------------------ */
/* PEM armour of a key: br_pem_encode(LINE64) == PEM_write_bio; decode back */

typedef struct { unsigned char *d; size_t n, cap; int outside; } sink;
static void
sink_cb(void *ctx, const void *src, size_t len)
{
	sink *s = ctx;
	if (s->n + len > s->cap) { s->cap = (s->n + len) * 2 + 64; s->d = realloc(s->d, s->cap); }
	memcpy(s->d + s->n, src, len);
	s->n += len;
}

static void
pem_key_check(vf_rng *r, const char *banner, const unsigned char *der, size_t len,
	const char *what, const char *cs)
{
	BIO *b = BIO_new(BIO_s_mem());
	char *ref, key[128];
	long reflen;
	size_t lq, lw, off;
	char *txt;
	br_pem_decoder_context pc;
	sink s = { 0 };
	int nbegin = 0, nend = 0, nerr = 0, nameok = 0;

	PEM_write_bio(b, banner, "", der, (long)len);
	reflen = BIO_get_mem_data(b, &ref);
	lq = br_pem_encode(NULL, NULL, len, banner, BR_PEM_LINE64);
	txt = malloc(lq + 1);
	lw = br_pem_encode(txt, der, len, banner, BR_PEM_LINE64);
	vf_stat("cmp_keypem", 1);
	if (lw != lq || lq != (size_t)reflen || memcmp(txt, ref, lq) != 0 || txt[lq] != 0) {
		snprintf(key, sizeof key, "C18:keypem:enc:%s", what);
		vf_viol(key, "PEM armour of key differs from PEM_write_bio", "%s lenq=%zu written=%zu ref=%ld",
			cs, lq, lw, reflen);
	}
	/* decode OpenSSL's text (exact-size block), random chunks */
	{
		unsigned char *in = vf_dup(ref, (size_t)reflen);
		br_pem_decoder_init(&pc);
		off = 0;
		while (off < (size_t)reflen) {
			size_t k = vf_range(r, 1, 200), n;
			if (k > (size_t)reflen - off) k = (size_t)reflen - off;
			n = br_pem_decoder_push(&pc, in + off, k);
			off += n;
			switch (br_pem_decoder_event(&pc)) {
			case BR_PEM_BEGIN_OBJ:
				nbegin ++;
				nameok = strcmp(br_pem_decoder_name(&pc), banner) == 0;
				br_pem_decoder_setdest(&pc, sink_cb, &s);
				break;
			case BR_PEM_END_OBJ: nend ++; break;
			case BR_PEM_ERROR: nerr ++; break;
			default:
				HASSERT(n > 0, "pem-push-stuck");
			}
		}
		free(in);
	}
	if (nbegin != 1 || nend != 1 || nerr != 0 || !nameok || s.n != len || memcmp(s.d, der, len) != 0) {
		snprintf(key, sizeof key, "C18:keypem:dec:%s", what);
		vf_viol(key, "PEM-armoured key does not decode back", "%s begin=%d end=%d err=%d nameok=%d got=%zu want=%zu",
			cs, nbegin, nend, nerr, nameok, s.n, len);
	}
	free(s.d);
	free(txt);
	BIO_free(b);
}

/* ------------------------------------------------------------------ */
/* certificate carrying a key (OpenSSL X509 API), br_x509_decoder */

static unsigned char *
make_cert(EVP_PKEY *pk, size_t *len)
{
	X509 *x = X509_new();
	X509_NAME *nm = X509_NAME_new();
	unsigned char *out = NULL;
	int n;
	HASSERT(x && nm, "x509-new");
	X509_set_version(x, 2);
	ASN1_INTEGER_set(X509_get_serialNumber(x), 1);
	X509_NAME_add_entry_by_txt(nm, "CN", MBSTRING_ASC, (const unsigned char *)"c18 key carrier", -1, -1, 0);
	X509_set_subject_name(x, nm);
	X509_set_issuer_name(x, nm);
	HASSERT(ASN1_TIME_set_string_X509(X509_getm_notBefore(x), "20000101000000Z"), "time");
	HASSERT(ASN1_TIME_set_string_X509(X509_getm_notAfter(x), "20991231235959Z"), "time");
	HASSERT(X509_set_pubkey(x, pk), "set-pubkey");
	HASSERT(X509_sign(x, g_signkey, EVP_sha256()) > 0, "x509-sign");
	n = i2d_X509(x, &out);
	HASSERT(n > 0, "i2d-x509");
	*len = (size_t)n;
	X509_NAME_free(nm);
	X509_free(x);
	return out;
}

/*
 * Feed a DER object in chunks (exact-size heap block). Like a careful caller
 * we stop pushing once the decoder reports a definite error: the T0 decoders
 * resume *after* the failing instruction when pushed again (observed: null
 * `ip` dereference in br_pkey_decoder_run when data is pushed after an error);
 * that behaviour belongs to C05/C07, not to this property.
 */
static void
push_chunks(vf_rng *r, void (*push)(void *, const void *, size_t), int (*lasterr)(void *),
	void *ctx, const unsigned char *buf, size_t len)
{
	unsigned char *in = vf_dup(buf, len);
	size_t off = 0;
	int mode = vf_below(r, 3);
	while (off < len) {
		size_t k = mode == 0 ? len : mode == 1 ? vf_range(r, 1, 16) : vf_range(r, 1, 300);
		int e;
		if (k > len - off) k = len - off;
		push(ctx, in + off, k);
		off += k;
		e = lasterr(ctx);
		if (e != 0 && e != BR_ERR_X509_TRUNCATED) break;
	}
	free(in);
}

static void skey_push(void *c, const void *d, size_t n) { br_skey_decoder_push(c, d, n); }
static void pkey_push(void *c, const void *d, size_t n) { br_pkey_decoder_push(c, d, n); }
static void x509_push(void *c, const void *d, size_t n) { br_x509_decoder_push(c, d, n); }
static int skey_err(void *c) { return br_skey_decoder_last_error(c); }
static int pkey_err(void *c) { return br_pkey_decoder_last_error(c); }
static int x509_err(void *c) { return br_x509_decoder_last_error(c); }

/* ------------------------------------------------------------------ */
/* hand-built DER (for encodings no encoder at hand produces) */

static blob
der_tlv(unsigned tag, const blob *parts, int nparts)
{
	size_t n = 0, h;
	int i;
	blob b;
	unsigned char hdr[6];
	for (i = 0; i < nparts; i ++) n += parts[i].n;
	hdr[0] = (unsigned char)tag;
	if (n < 0x80) { hdr[1] = (unsigned char)n; h = 2; }
	else if (n < 0x100) { hdr[1] = 0x81; hdr[2] = (unsigned char)n; h = 3; }
	else { HASSERT(n < 0x10000, "der-len"); hdr[1] = 0x82; hdr[2] = (unsigned char)(n >> 8); hdr[3] = (unsigned char)n; h = 4; }
	b.n = h + n;
	b.p = malloc(b.n);
	memcpy(b.p, hdr, h);
	for (i = 0, n = h; i < nparts; i ++) { if (parts[i].n) memcpy(b.p + n, parts[i].p, parts[i].n); n += parts[i].n; }
	return b;
}

static blob
der_const(const char *hex)
{
	blob b;
	size_t i;
	b.n = strlen(hex) / 2;
	b.p = malloc(b.n ? b.n : 1);
	for (i = 0; i < b.n; i ++) { unsigned v; sscanf(hex + 2 * i, "%2x", &v); b.p[i] = (unsigned char)v; }
	return b;
}

static const char *OID_CURVE[3] = { "06082A8648CE3D030107", "06052B81040022", "06052B81040023" };
#define OID_ECPUB   "06072A8648CE3D0201"
#define OID_RSAENC  "06092A864886F70D010101"

/* outcome of a decoder run that the header does not pin down: 0 = not decoded, 1 = decoded */
static int
skey_try(vf_rng *r, br_skey_decoder_context *dc, const unsigned char *der, size_t len)
{
	br_skey_decoder_init(dc);
	push_chunks(r, skey_push, skey_err, dc, der, len);
	return br_skey_decoder_last_error(dc) == 0 && br_skey_decoder_key_type(dc) != 0;
}

/* ------------------------------------------------------------------ */
/* RSA */

typedef struct { blob n, e, d, p, q, dp, dq, iq; } rsa_case;

struct rsa_enc_arg { br_rsa_private_key *sk; br_rsa_public_key *pk; blob d; int pk8; };
static size_t
rsa_enc(void *dest, void *arg)
{
	struct rsa_enc_arg *a = arg;
	return a->pk8 ? br_encode_rsa_pkcs8_der(dest, a->sk, a->pk, a->d.p, a->d.n)
		: br_encode_rsa_raw_der(dest, a->sk, a->pk, a->d.p, a->d.n);
}

static void
skey_check_rsa(vf_rng *r, const rsa_case *c, const unsigned char *der, size_t len,
	const char *what, const char *cs)
{
	br_skey_decoder_context *dc = malloc(sizeof *dc);
	const br_rsa_private_key *k;
	char key[128];
	br_skey_decoder_init(dc);
	push_chunks(r, skey_push, skey_err, dc, der, len);
	vf_stat("cmp_skey_rsa", 1);
	k = br_skey_decoder_get_rsa(dc);
	if (br_skey_decoder_last_error(dc) != 0 || br_skey_decoder_key_type(dc) != BR_KEYTYPE_RSA || k == NULL) {
		snprintf(key, sizeof key, "C18:skey:rsa-rejected:%s", what);
		vf_viol(key, "br_skey_decoder rejects a valid RSA key encoding", "%s err=%d type=%d der=%s",
			cs, br_skey_decoder_last_error(dc), br_skey_decoder_key_type(dc), vf_hexs(der, len));
	} else {
		const char *f = NULL;
		if (k->n_bitlen != bitlen(c->n.p, c->n.n)) f = "n_bitlen";
		else if (!eq_stripped(k->p, k->plen, c->p.p, c->p.n)) f = "p";
		else if (!eq_stripped(k->q, k->qlen, c->q.p, c->q.n)) f = "q";
		else if (!eq_stripped(k->dp, k->dplen, c->dp.p, c->dp.n)) f = "dp";
		else if (!eq_stripped(k->dq, k->dqlen, c->dq.p, c->dq.n)) f = "dq";
		else if (!eq_stripped(k->iq, k->iqlen, c->iq.p, c->iq.n)) f = "iq";
		if (f) {
			snprintf(key, sizeof key, "C18:skey:rsa-field:%s", what);
			vf_viol(key, "decoded RSA private key differs from the encoded one", "%s field=%s n_bitlen=%u der=%s",
				cs, f, (unsigned)k->n_bitlen, vf_hexs(der, len));
		}
	}
	free(dc);
}

/* pkey decoder vs x509 decoder, RSA */
static void
pkey_check_rsa(vf_rng *r, RSA *rk, const char *cs)
{
	EVP_PKEY *pk = EVP_PKEY_new();
	unsigned char *cert, *spki = NULL, *raw = NULL;
	size_t clen;
	int slen, rlen, i;
	br_x509_decoder_context *xc = malloc(sizeof *xc);
	br_x509_pkey *ref;

	EVP_PKEY_set1_RSA(pk, rk);
	cert = make_cert(pk, &clen);
	slen = i2d_PUBKEY(pk, &spki);
	rlen = i2d_RSAPublicKey(rk, &raw);
	HASSERT(slen > 0 && rlen > 0, "i2d-pub");
	br_x509_decoder_init(xc, 0, 0, 0, 0);
	push_chunks(r, x509_push, x509_err, xc, cert, clen);
	ref = br_x509_decoder_get_pkey(xc);
	if (ref == NULL || ref->key_type != BR_KEYTYPE_RSA) {
		vf_stat("unjudged_x509_rejects_cert", 1);
		vf_distinct("x509_reject", "rsa-err%d", br_x509_decoder_last_error(xc));
		goto done;
	}
	for (i = 0; i < 2; i ++) {
		br_pkey_decoder_context *dc = malloc(sizeof *dc);
		const unsigned char *in = i ? raw : spki;
		size_t inlen = (size_t)(i ? rlen : slen);
		const br_rsa_public_key *k;
		int err;
		br_pkey_decoder_init(dc);
		push_chunks(r, pkey_push, pkey_err, dc, in, inlen);
		vf_stat(i ? "cmp_pkey_rsa_raw" : "cmp_pkey_rsa_spki", 1);
		err = br_pkey_decoder_last_error(dc);
		k = br_pkey_decoder_get_rsa(dc);
		if (err != 0 || k == NULL) {
			if (i == 1) {
				vf_viol("C18:pkey:raw-rsa-form",
					"br_pkey_decoder rejects the raw RSAPublicKey DER form that bearssl_x509.h documents as recognised (SPKI form of the same key is checked separately)",
					"%s err=%d der=%s", cs, err, vf_hexs(in, inlen));
			} else {
				vf_viol("C18:pkey:rsa-spki-rejected",
					"br_pkey_decoder rejects an RSA SubjectPublicKeyInfo the certificate decoder accepts",
					"%s err=%d type=%d der=%s", cs, err, br_pkey_decoder_key_type(dc), vf_hexs(in, inlen));
			}
		} else if (k->nlen != ref->key.rsa.nlen || k->elen != ref->key.rsa.elen
			|| memcmp(k->n, ref->key.rsa.n, k->nlen) != 0
			|| memcmp(k->e, ref->key.rsa.e, k->elen) != 0)
		{
			vf_viol(i ? "C18:pkey:raw-rsa-mismatch" : "C18:pkey:rsa-spki-mismatch",
				"br_pkey_decoder and br_x509_decoder disagree on n/e",
				"%s nlen=%zu/%zu elen=%zu/%zu der=%s", cs, k->nlen, ref->key.rsa.nlen,
				k->elen, ref->key.rsa.elen, vf_hexs(in, inlen));
		}
		free(dc);
	}
done:
	free(xc);
	OPENSSL_free(cert); OPENSSL_free(spki); OPENSSL_free(raw);
	EVP_PKEY_free(pk);
}

static void
rsa_run(vf_rng *r, const rsa_case *c, const char *cs, const unsigned char *filebytes, size_t filelen)
{
	br_rsa_private_key sk;
	br_rsa_public_key pk;
	struct rsa_enc_arg a;
	RSA *rk = RSA_new();
	EVP_PKEY *ek = EVP_PKEY_new();
	PKCS8_PRIV_KEY_INFO *p8;
	unsigned char *oraw = NULL, *opk8 = NULL, *braw, *bpk8;
	int orawlen, opk8len;
	size_t brawlen, bpk8len;
	/* exact-size copies for the library */
	blob n = { vf_dup(c->n.p, c->n.n), c->n.n }, e = { vf_dup(c->e.p, c->e.n), c->e.n };
	blob d = { vf_dup(c->d.p, c->d.n), c->d.n }, p = { vf_dup(c->p.p, c->p.n), c->p.n };
	blob q = { vf_dup(c->q.p, c->q.n), c->q.n }, dp = { vf_dup(c->dp.p, c->dp.n), c->dp.n };
	blob dq = { vf_dup(c->dq.p, c->dq.n), c->dq.n }, iq = { vf_dup(c->iq.p, c->iq.n), c->iq.n };

	sk.n_bitlen = bitlen(n.p, n.n);
	sk.p = p.p; sk.plen = p.n; sk.q = q.p; sk.qlen = q.n;
	sk.dp = dp.p; sk.dplen = dp.n; sk.dq = dq.p; sk.dqlen = dq.n;
	sk.iq = iq.p; sk.iqlen = iq.n;
	pk.n = n.p; pk.nlen = n.n; pk.e = e.p; pk.elen = e.n;

	HASSERT(RSA_set0_key(rk, bn(c->n), bn(c->e), bn(c->d)), "rsa-set0");
	HASSERT(RSA_set0_factors(rk, bn(c->p), bn(c->q)), "rsa-set0");
	HASSERT(RSA_set0_crt_params(rk, bn(c->dp), bn(c->dq), bn(c->iq)), "rsa-set0");
	orawlen = i2d_RSAPrivateKey(rk, &oraw);
	EVP_PKEY_set1_RSA(ek, rk);
	p8 = EVP_PKEY2PKCS8(ek);
	HASSERT(p8 != NULL, "pkey2pkcs8-rsa");
	opk8len = i2d_PKCS8_PRIV_KEY_INFO(p8, &opk8);
	HASSERT(orawlen > 0 && opk8len > 0, "i2d-rsa");
	if (filebytes) {
		HASSERT((size_t)orawlen == filelen && memcmp(oraw, filebytes, filelen) == 0, "fixture-reencode");
	}

	a.sk = &sk; a.pk = &pk; a.d = d;
	a.pk8 = 0; braw = guarded(rsa_enc, &a, &brawlen, "rsa-raw", cs);
	a.pk8 = 1; bpk8 = guarded(rsa_enc, &a, &bpk8len, "rsa-pkcs8", cs);
	cmp_bytes("rsa-raw", braw, brawlen, oraw, (size_t)orawlen, cs);
	cmp_bytes("rsa-pkcs8", bpk8, bpk8len, opk8, (size_t)opk8len, cs);
	vf_stat("cases_rsa", 1);
	vf_max("max_rsa_der_len", (long long)brawlen);

	if (bitlen(n.p, n.n) > 0) {
		if (braw) skey_check_rsa(r, c, braw, brawlen, "ours-raw", cs);
		if (bpk8) skey_check_rsa(r, c, bpk8, bpk8len, "ours-pkcs8", cs);
		skey_check_rsa(r, c, oraw, (size_t)orawlen, "openssl-raw", cs);
		skey_check_rsa(r, c, opk8, (size_t)opk8len, "openssl-pkcs8", cs);
	} else {
		vf_stat("unjudged_rsa_zero_modulus", 1);
	}
	if (bitlen(n.p, n.n) > 0) {
		/* PKCS#8 whose AlgorithmIdentifier has no parameters at all (RFC 3279 wants NULL; some writers omit it) */
		blob ver = der_const("020100"), oid = der_const(OID_RSAENC), alg, oct, in = { oraw, (size_t)orawlen }, parts[3], p8b;
		br_skey_decoder_context *dc = malloc(sizeof *dc);
		alg = der_tlv(0x30, &oid, 1);
		oct = der_tlv(0x04, &in, 1);
		parts[0] = ver; parts[1] = alg; parts[2] = oct;
		p8b = der_tlv(0x30, parts, 3);
		vf_stat("alt_rsa_pkcs8_no_null", 1);
		if (skey_try(r, dc, p8b.p, p8b.n)) {
			vf_stat("alt_rsa_pkcs8_no_null_decoded", 1);
			free(dc);
			skey_check_rsa(r, c, p8b.p, p8b.n, "pkcs8-without-null-parameters", cs);
		} else {
			vf_stat("unjudged_rsa_pkcs8_no_null_rejected", 1);
			vf_distinct("obs_rsa_pkcs8_no_null_err", "%d", br_skey_decoder_last_error(dc));
			free(dc);
		}
		free(ver.p); free(oid.p); free(alg.p); free(oct.p); free(p8b.p);
	}
	if (braw) pem_key_check(r, BR_ENCODE_PEM_RSA_RAW, braw, brawlen, "rsa-raw", cs);
	if (bpk8) pem_key_check(r, BR_ENCODE_PEM_PKCS8, bpk8, bpk8len, "rsa-pkcs8", cs);

	/* public side: needs non-zero n; x509 decoder holds n+e in 520 bytes */
	{
		const unsigned char *np = n.p, *ep = e.p;
		size_t nl = n.n, el = e.n;
		strip(&np, &nl); strip(&ep, &el);
		if (nl > 0 && nl + el <= BR_X509_BUFSIZE_KEY) pkey_check_rsa(r, rk, cs);
		else vf_stat("unjudged_pkey_size", 1);
	}

	free(braw); free(bpk8);
	OPENSSL_free(oraw); OPENSSL_free(opk8);
	PKCS8_PRIV_KEY_INFO_free(p8);
	EVP_PKEY_free(ek); RSA_free(rk);
	free(n.p); free(e.p); free(d.p); free(p.p); free(q.p); free(dp.p); free(dq.p); free(iq.p);
}

/* component generator: lz leading zero bytes, then vlen value bytes whose top
   byte is >= 0x80 (top=1) or in 1..0x7f (top=0) */
static blob
gen_comp(vf_rng *r, size_t vlen, int top, size_t lz)
{
	blob b;
	b.n = lz + vlen;
	b.p = malloc(b.n ? b.n : 1);
	memset(b.p, 0, lz);
	if (vlen) {
		vf_bytes(r, b.p + lz, vlen);
		if (top) b.p[lz] |= 0x80;
		else { b.p[lz] &= 0x7F; if (b.p[lz] == 0) b.p[lz] = 1 + vf_below(r, 0x7F); }
	}
	return b;
}

static const unsigned short EDGE[] = { 126, 127, 128, 129, 130, 254, 255, 256, 257 };

static size_t
wild_len(vf_rng *r, size_t max)
{
	size_t v;
	switch (vf_below(r, 4)) {
	case 0: v = vf_below(r, 21); break;
	case 1: v = EDGE[vf_below(r, 9)]; break;
	case 2: v = vf_range(r, 1, (uint32_t)max); break;
	default: v = vf_below(r, 4); break;
	}
	return v > max ? max : v;
}

static char shape_[256];
static blob
gen_comp_auto(vf_rng *r, size_t vlen, int allow_zero, char tag)
{
	int top = vf_below(r, 2);
	size_t lz = vf_below(r, 10) < 6 ? 0 : vf_range(r, 1, 3);
	size_t l;
	if (allow_zero && vf_below(r, 20) == 0) vlen = 0;
	l = strlen(shape_);
	snprintf(shape_ + l, sizeof shape_ - l, "%c%s%s%s", tag,
		vlen == 0 ? "0" : vlen < 127 ? "s" : vlen <= 129 ? "e" : vlen < 254 ? "m" : vlen <= 257 ? "E" : "l",
		top ? "h" : "", lz ? "z" : "");
	return gen_comp(r, vlen, top, lz);
}

static void
rsa_synth(long long idx)
{
	vf_rng r;
	rsa_case c;
	char cs[128];
	int wild;
	vf_rng_init(&r, (uint64_t)g_seed, (1ull << 40) + (uint64_t)idx);
	wild = vf_below(&r, 10) < 3;
	shape_[0] = 0;
	if (!wild) {
		static const unsigned short NB[] = { 64, 96, 127, 128, 129, 192, 255, 256, 257, 384, 511, 512 };
		size_t nb = vf_below(&r, 3) ? NB[vf_below(&r, 12)] : vf_range(&r, 64, 512);
		size_t hb = (nb + 1) / 2;
		static const unsigned char ELEN[] = { 1, 1, 3, 3, 3, 5, 2, 4, 8 };
		c.n = gen_comp_auto(&r, nb, 0, 'n');
		c.e = gen_comp_auto(&r, ELEN[vf_below(&r, 9)], 0, 'e');
		c.d = gen_comp_auto(&r, nb - vf_below(&r, 3), 1, 'd');
		c.p = gen_comp_auto(&r, hb + vf_below(&r, 2), 1, 'p');
		c.q = gen_comp_auto(&r, hb - vf_below(&r, 2), 1, 'q');
		c.dp = gen_comp_auto(&r, hb - vf_below(&r, 4), 1, 'P');
		c.dq = gen_comp_auto(&r, hb - vf_below(&r, 4), 1, 'Q');
		c.iq = gen_comp_auto(&r, hb - vf_below(&r, 4), 1, 'i');
	} else {
		size_t nl = wild_len(&r, 512);
		if (nl == 0) nl = 1;
		c.n = gen_comp_auto(&r, nl, 0, 'n');
		c.e = gen_comp_auto(&r, vf_range(&r, 0, 8), 1, 'e');
		c.d = gen_comp_auto(&r, wild_len(&r, 512), 1, 'd');
		c.p = gen_comp_auto(&r, wild_len(&r, 257), 1, 'p');
		c.q = gen_comp_auto(&r, wild_len(&r, 257), 1, 'q');
		c.dp = gen_comp_auto(&r, wild_len(&r, 257), 1, 'P');
		c.dq = gen_comp_auto(&r, wild_len(&r, 257), 1, 'Q');
		c.iq = gen_comp_auto(&r, wild_len(&r, 257), 1, 'i');
	}
	vf_distinct("rsa_shape", "%s%s", wild ? "W" : "R", shape_);
	snprintf(cs, sizeof cs, "rsa-synth seed=%lld idx=%lld shape=%.60s", g_seed, idx, shape_);
	vf_sample("{\"kind\":\"rsa-synth\",\"idx\":%lld,\"shape\":\"%s\",\"nlen\":%zu,\"n_head\":\"%s\"}",
		idx, shape_, c.n.n, vf_hexs(c.n.p, c.n.n < 8 ? c.n.n : 8));
	rsa_run(&r, &c, cs, NULL, 0);
	free(c.n.p); free(c.e.p); free(c.d.p); free(c.p.p); free(c.q.p); free(c.dp.p); free(c.dq.p); free(c.iq.p);
}

static void
rsa_fixture(const char *name)
{
	size_t len;
	unsigned char *buf = read_file(name, &len);
	const unsigned char *p = buf;
	RSA *rk = d2i_RSAPrivateKey(NULL, &p, (long)len);
	const BIGNUM *n, *e, *d, *pp, *q, *dp, *dq, *iq;
	rsa_case c;
	vf_rng r;
	char cs[128];
	HASSERT(rk != NULL, "fixture-rsa-parse");
	RSA_get0_key(rk, &n, &e, &d);
	RSA_get0_factors(rk, &pp, &q);
	RSA_get0_crt_params(rk, &dp, &dq, &iq);
	c.n = bn_blob(n, 0); c.e = bn_blob(e, 0); c.d = bn_blob(d, 0);
	c.p = bn_blob(pp, 0); c.q = bn_blob(q, 0);
	c.dp = bn_blob(dp, 0); c.dq = bn_blob(dq, 0); c.iq = bn_blob(iq, 0);
	vf_rng_init(&r, (uint64_t)g_seed, (2ull << 40) + len);
	snprintf(cs, sizeof cs, "rsa-fixture %s", name);
	vf_distinct("rsa_shape", "F%s", name);
	vf_stat("fixture_keys", 1);
	rsa_run(&r, &c, cs, buf, len);
	RSA_free(rk);
	free(buf);
}

/* ------------------------------------------------------------------ */
/* EC */

static const struct { int curve, nid; size_t olen, qlen; } CURVES[3] = {
	{ BR_EC_secp256r1, NID_X9_62_prime256v1, 32, 65 },
	{ BR_EC_secp384r1, NID_secp384r1, 48, 97 },
	{ BR_EC_secp521r1, NID_secp521r1, 66, 133 },
};

struct ec_enc_arg { br_ec_private_key *sk; br_ec_public_key *pk; int pk8; };
static size_t
ec_enc(void *dest, void *arg)
{
	struct ec_enc_arg *a = arg;
	return a->pk8 ? br_encode_ec_pkcs8_der(dest, a->sk, a->pk) : br_encode_ec_raw_der(dest, a->sk, a->pk);
}

/* expected: x numerically equal; if exact_len != 0 then xlen must equal it */
static void
skey_check_ec(vf_rng *r, int curve, blob x, size_t exact_len,
	const unsigned char *der, size_t len, const char *what, const char *cs)
{
	br_skey_decoder_context *dc = malloc(sizeof *dc);
	const br_ec_private_key *k;
	char key[128];
	br_skey_decoder_init(dc);
	push_chunks(r, skey_push, skey_err, dc, der, len);
	vf_stat("cmp_skey_ec", 1);
	k = br_skey_decoder_get_ec(dc);
	if (br_skey_decoder_last_error(dc) != 0 || br_skey_decoder_key_type(dc) != BR_KEYTYPE_EC || k == NULL) {
		snprintf(key, sizeof key, "C18:skey:ec-rejected:%s", what);
		vf_viol(key, "br_skey_decoder rejects a valid EC key encoding", "%s err=%d type=%d der=%s",
			cs, br_skey_decoder_last_error(dc), br_skey_decoder_key_type(dc), vf_hexs(der, len));
	} else if (k->curve != curve || k->xlen != exact_len
		|| !eq_stripped(k->x, k->xlen, x.p, x.n))
	{
		snprintf(key, sizeof key, "C18:skey:ec-field:%s", what);
		vf_viol(key, "decoded EC private key differs from the encoded one", "%s curve=%d/%d xlen=%zu want=%zu der=%s",
			cs, k->curve, curve, k->xlen, exact_len, vf_hexs(der, len));
	}
	free(dc);
}

static void
pkey_check_ec(vf_rng *r, EC_KEY *ek, int ci, const char *cs)
{
	EVP_PKEY *pk = EVP_PKEY_new();
	unsigned char *cert, *spki = NULL;
	size_t clen;
	int slen, err;
	br_x509_decoder_context *xc = malloc(sizeof *xc);
	br_pkey_decoder_context *dc = malloc(sizeof *dc);
	br_x509_pkey *ref;
	const br_ec_public_key *k;

	EVP_PKEY_set1_EC_KEY(pk, ek);
	cert = make_cert(pk, &clen);
	slen = i2d_PUBKEY(pk, &spki);
	HASSERT(slen > 0, "i2d-pub-ec");
	br_x509_decoder_init(xc, 0, 0, 0, 0);
	push_chunks(r, x509_push, x509_err, xc, cert, clen);
	ref = br_x509_decoder_get_pkey(xc);
	if (ref == NULL || ref->key_type != BR_KEYTYPE_EC) {
		vf_stat("unjudged_x509_rejects_cert", 1);
		vf_distinct("x509_reject", "ec-err%d", br_x509_decoder_last_error(xc));
		goto done;
	}
	/* harness sanity: the certificate decoder's view is the standard one */
	HASSERT(ref->key.ec.curve == CURVES[ci].curve && ref->key.ec.qlen == CURVES[ci].qlen
		&& ref->key.ec.q[0] == 0x04, "x509-ec-ref");
	br_pkey_decoder_init(dc);
	push_chunks(r, pkey_push, pkey_err, dc, spki, (size_t)slen);
	vf_stat("cmp_pkey_ec_spki", 1);
	err = br_pkey_decoder_last_error(dc);
	k = br_pkey_decoder_get_ec(dc);
	if (err != 0 || k == NULL) {
		vf_viol("C18:pkey:ec-spki-rejected", "br_pkey_decoder rejects an EC SubjectPublicKeyInfo the certificate decoder accepts",
			"%s err=%d type=%d der=%s", cs, err, br_pkey_decoder_key_type(dc), vf_hexs(spki, (size_t)slen));
	} else if (k->curve != ref->key.ec.curve) {
		vf_viol("C18:pkey:ec-curve", "br_pkey_decoder and br_x509_decoder disagree on the curve",
			"%s curve=%d/%d der=%s", cs, k->curve, ref->key.ec.curve, vf_hexs(spki, (size_t)slen));
	} else if (k->qlen == ref->key.ec.qlen && memcmp(k->q, ref->key.ec.q, k->qlen) == 0) {
		vf_stat("pkey_ec_equal", 1);
	} else if (k->qlen + 1 == ref->key.ec.qlen && memcmp(k->q, ref->key.ec.q + 1, k->qlen) == 0) {
		vf_viol("C18:pkey:ec-point-prefix",
			"br_pkey_decoder returns the EC point without its 0x04 format byte (qlen 64/96/132) whereas br_x509_decoder returns the uncompressed point (65/97/133)",
			"%s curve=%d qlen=%zu want=%zu spki=%s", cs, k->curve, k->qlen, ref->key.ec.qlen,
			vf_hexs(spki, (size_t)slen));
	} else {
		vf_viol("C18:pkey:ec-point-mismatch", "br_pkey_decoder and br_x509_decoder disagree on the point",
			"%s qlen=%zu/%zu q=%s der=%s", cs, k->qlen, ref->key.ec.qlen, vf_hexs(k->q, k->qlen),
			vf_hexs(spki, (size_t)slen));
	}
done:
	free(xc); free(dc);
	OPENSSL_free(cert); OPENSSL_free(spki);
	EVP_PKEY_free(pk);
}

/* our encoding decoded by OpenSSL gives the same key (used when OpenSSL cannot
   produce the same bytes: scalars shorter than the order) */
static void
ossl_decode_ec(const unsigned char *der, size_t len, int pk8, int ci, blob x,
	const unsigned char *q, size_t qlen, int haspub, const char *what, const char *cs)
{
	const unsigned char *p = der;
	EC_KEY *k = NULL;
	EVP_PKEY *ek = NULL;
	BIGNUM *bx = bn(x);
	char key[128];
	const char *why = NULL;
	unsigned char pt[140];
	vf_stat("cmp_ec_ossl_decodes_ours", 1);
	if (pk8) {
		PKCS8_PRIV_KEY_INFO *p8 = d2i_PKCS8_PRIV_KEY_INFO(NULL, &p, (long)len);
		if (p8) { ek = EVP_PKCS82PKEY(p8); PKCS8_PRIV_KEY_INFO_free(p8); }
		if (ek) k = EVP_PKEY_get1_EC_KEY(ek);
	} else {
		k = d2i_ECPrivateKey(NULL, &p, (long)len);
	}
	if (k == NULL || (size_t)(p - der) != len) why = "openssl cannot parse";
	else if (EC_GROUP_get_curve_name(EC_KEY_get0_group(k)) != CURVES[ci].nid) why = "curve";
	else if (BN_cmp(EC_KEY_get0_private_key(k), bx) != 0) why = "private scalar";
	else if (haspub) {
		size_t l = EC_POINT_point2oct(EC_KEY_get0_group(k), EC_KEY_get0_public_key(k),
			POINT_CONVERSION_UNCOMPRESSED, pt, sizeof pt, NULL);
		if (l != qlen || memcmp(pt, q, qlen) != 0) why = "public point";
	}
	if (why) {
		snprintf(key, sizeof key, "C18:enc:ossl-decode:%s", what);
		vf_viol(key, "our EC encoding does not decode in OpenSSL to the same key", "%s why=%s der=%s",
			cs, why, vf_hexs(der, len));
	}
	BN_free(bx);
	EC_KEY_free(k);
	EVP_PKEY_free(ek);
}

/*
 * Encodings of an EC private key that no encoder at hand writes. inner = ECPrivateKey { 1, x padded to the order
 * length, [0] curve OID (optional), [1] public point (optional) }; PKCS#8 = { 0, { id-ecPublicKey, curve OID
 * (optional) }, OCTET STRING { inner } }.
 */
static void
ec_alt_encodings(vf_rng *r, int ci, blob x, const unsigned char *q, size_t qlen, EC_KEY *ek, const char *cs)
{
	size_t olen = CURVES[ci].olen;
	blob xp, ver1 = der_const("020101"), ver0 = der_const("020100"), ecpub = der_const(OID_ECPUB);
	blob oidc[3], xo, pubbits, pub1, qb;
	int i, withpub, oc;
	br_skey_decoder_context *dc = malloc(sizeof *dc);

	xp.n = olen; xp.p = calloc(1, olen);
	{ const unsigned char *xs = x.p; size_t xn = x.n; strip(&xs, &xn); HASSERT(xn <= olen, "ec-x-len"); memcpy(xp.p + olen - xn, xs, xn); }
	for (i = 0; i < 3; i ++) oidc[i] = der_const(OID_CURVE[i]);
	xo = der_tlv(0x04, &xp, 1);
	qb.n = qlen + 1; qb.p = malloc(qb.n); qb.p[0] = 0; memcpy(qb.p + 1, q, qlen);
	pubbits = der_tlv(0x03, &qb, 1);
	pub1 = der_tlv(0xA1, &pubbits, 1);

	for (withpub = 0; withpub < 2; withpub ++) {
		for (oc = -1; oc < 3; oc ++) {          /* curve named inside: none, or curve oc */
			blob par0 = { NULL, 0 }, parts[4], inner, oct;
			int np = 0, outer;
			parts[np ++] = ver1; parts[np ++] = xo;
			if (oc >= 0) { par0 = der_tlv(0xA0, &oidc[oc], 1); parts[np ++] = par0; }
			if (withpub) parts[np ++] = pub1;
			inner = der_tlv(0x30, parts, np);
			oct = der_tlv(0x04, &inner, 1);
			if (oc == ci && withpub) {
				/* harness sanity: this is byte for byte what OpenSSL writes for the raw form */
				unsigned char *o = NULL;
				int ol;
				EC_KEY_set_enc_flags(ek, 0);
				ol = i2d_ECPrivateKey(ek, &o);
				HASSERT(ol > 0 && (size_t)ol == inner.n && memcmp(o, inner.p, inner.n) == 0, "ec-inner-vs-openssl");
				OPENSSL_free(o);
			}
			if (oc < 0) {
				/* raw ECPrivateKey without parameters: nothing names the curve; the header only says that raw EC keys
				   are recognised */
				vf_stat("alt_ec_raw_no_params", 1);
				if (skey_try(r, dc, inner.p, inner.n)) {
					const br_ec_private_key *k = br_skey_decoder_get_ec(dc);
					vf_stat("unjudged_ec_raw_no_params_decoded", 1);
					if (k == NULL || !eq_stripped(k->x, k->xlen, x.p, x.n)) {
						vf_viol("C18:skey:ec-field:raw-without-parameters", "decoded EC private key differs from the encoded one",
							"%s der=%s", cs, vf_hexs(inner.p, inner.n));
					}
				} else {
					vf_stat("unjudged_ec_raw_no_params_rejected", 1);
					vf_distinct("obs_ec_raw_no_params_err", "%d", br_skey_decoder_last_error(dc));
				}
			}
			for (outer = -1; outer < 3; outer ++) {   /* curve named in the AlgorithmIdentifier: none, or curve outer */
				blob ap[2], alg, pp[3], p8b;
				if (oc < 0 && outer < 0) continue;      /* no curve anywhere */
				if (oc < 0 && outer != ci) continue;    /* (outer only: what the encoders write, covered above) */
				if (oc < 0) continue;
				ap[0] = ecpub; if (outer >= 0) ap[1] = oidc[outer];
				alg = der_tlv(0x30, ap, outer >= 0 ? 2 : 1);
				pp[0] = ver0; pp[1] = alg; pp[2] = oct;
				p8b = der_tlv(0x30, pp, 3);
				if (outer == ci && oc == ci) {
					/* the form Java / BouncyCastle write: must give the same key; OpenSSL reads it too */
					const unsigned char *pq = p8b.p;
					PKCS8_PRIV_KEY_INFO *p8 = d2i_PKCS8_PRIV_KEY_INFO(NULL, &pq, (long)p8b.n);
					EVP_PKEY *e = p8 ? EVP_PKCS82PKEY(p8) : NULL;
					EC_KEY *k2 = e ? EVP_PKEY_get1_EC_KEY(e) : NULL;
					HASSERT(k2 != NULL && BN_cmp(EC_KEY_get0_private_key(k2), EC_KEY_get0_private_key(ek)) == 0, "ec-pkcs8-inner-params-vs-openssl");
					EC_KEY_free(k2); EVP_PKEY_free(e); PKCS8_PRIV_KEY_INFO_free(p8);
					vf_stat("cmp_skey_ec_pkcs8_inner_params", 1);
					skey_check_ec(r, CURVES[ci].curve, x, olen, p8b.p, p8b.n,
						withpub ? "pkcs8-inner-parameters-and-public-key" : "pkcs8-inner-parameters", cs);
				} else if (outer >= 0 && oc != outer) {
					/* the two places name different curves: no key may come out of that */
					vf_stat("cmp_skey_ec_curve_conflict", 1);
					if (skey_try(r, dc, p8b.p, p8b.n)) {
						const br_ec_private_key *k = br_skey_decoder_get_ec(dc);
						vf_viol("C18:skey:ec-curve-conflict-accepted",
							"br_skey_decoder returns a key from a PKCS#8 object whose AlgorithmIdentifier and inner ECPrivateKey name different curves",
							"%s outer=%d inner=%d decoded_curve=%d der=%s", cs, CURVES[outer].curve, CURVES[oc].curve,
							k ? k->curve : -1, vf_hexs(p8b.p, p8b.n));
					} else {
						vf_distinct("obs_ec_curve_conflict_err", "%d", br_skey_decoder_last_error(dc));
					}
				} else if (outer < 0 && oc == ci) {
					/* the curve is named only inside (RFC 5480 wants it in the AlgorithmIdentifier): not documented */
					vf_stat("alt_ec_pkcs8_curve_only_inside", 1);
					if (skey_try(r, dc, p8b.p, p8b.n)) {
						const br_ec_private_key *k = br_skey_decoder_get_ec(dc);
						vf_stat("unjudged_ec_pkcs8_curve_only_inside_decoded", 1);
						if (k == NULL || k->curve != CURVES[ci].curve || !eq_stripped(k->x, k->xlen, x.p, x.n)) {
							vf_viol("C18:skey:ec-field:pkcs8-curve-only-inside", "decoded EC private key differs from the encoded one",
								"%s der=%s", cs, vf_hexs(p8b.p, p8b.n));
						}
					} else {
						vf_stat("unjudged_ec_pkcs8_curve_only_inside_rejected", 1);
					}
				}
				free(alg.p); free(p8b.p);
			}
			free(par0.p); free(inner.p); free(oct.p);
		}
	}
	free(xp.p); free(ver1.p); free(ver0.p); free(ecpub.p); free(xo.p); free(qb.p); free(pubbits.p); free(pub1.p);
	for (i = 0; i < 3; i ++) free(oidc[i].p);
	free(dc);
}

/* x: scalar as handed to the library (xlen <= olen) */
static void
ec_run(vf_rng *r, int ci, blob x, const char *cs, const unsigned char *filebytes, size_t filelen)
{
	EC_KEY *ek = EC_KEY_new_by_curve_name(CURVES[ci].nid);
	const EC_GROUP *g = EC_KEY_get0_group(ek);
	BIGNUM *bx = bn(x);
	EC_POINT *Q = EC_POINT_new(g);
	unsigned char qb[140];
	size_t qlen;
	blob xx = { vf_dup(x.p, x.n), x.n };
	blob qq;
	br_ec_private_key sk;
	br_ec_public_key pk;
	int v;

	HASSERT(EC_POINT_mul(g, Q, bx, NULL, NULL, NULL), "ec-mul");
	HASSERT(EC_KEY_set_private_key(ek, bx) && EC_KEY_set_public_key(ek, Q), "ec-set");
	qlen = EC_POINT_point2oct(g, Q, POINT_CONVERSION_UNCOMPRESSED, qb, sizeof qb, NULL);
	HASSERT(qlen == CURVES[ci].qlen, "ec-point-len");
	qq.p = vf_dup(qb, qlen); qq.n = qlen;
	sk.curve = CURVES[ci].curve; sk.x = xx.p; sk.xlen = xx.n;
	pk.curve = CURVES[ci].curve; pk.q = qq.p; pk.qlen = qq.n;
	vf_stat("cases_ec", 1);

	for (v = 0; v < 4; v ++) {
		int pk8 = v >> 1, haspub = v & 1;
		struct ec_enc_arg a = { &sk, haspub ? &pk : NULL, pk8 };
		static const char *W[4] = { "ec-raw-nopub", "ec-raw-pub", "ec-pkcs8-nopub", "ec-pkcs8-pub" };
		unsigned char *ours, *ossl = NULL;
		size_t ourlen;
		int ossllen;
		EC_KEY_set_enc_flags(ek, haspub ? 0 : EC_PKEY_NO_PUBKEY);
		if (pk8) {
			EVP_PKEY *e = EVP_PKEY_new();
			PKCS8_PRIV_KEY_INFO *p8;
			EVP_PKEY_set1_EC_KEY(e, ek);
			p8 = EVP_PKEY2PKCS8(e);
			HASSERT(p8 != NULL, "pkey2pkcs8-ec");
			ossllen = i2d_PKCS8_PRIV_KEY_INFO(p8, &ossl);
			PKCS8_PRIV_KEY_INFO_free(p8);
			EVP_PKEY_free(e);
		} else {
			ossllen = i2d_ECPrivateKey(ek, &ossl);
		}
		HASSERT(ossllen > 0, "i2d-ec");
		EC_KEY_set_enc_flags(ek, 0);
		if (filebytes && v == 1) {
			HASSERT((size_t)ossllen == filelen && memcmp(ossl, filebytes, filelen) == 0, "fixture-reencode-ec");
		}
		ours = guarded(ec_enc, &a, &ourlen, W[v], cs);
		if (ours == NULL) {
			char key[64];
			snprintf(key, sizeof key, "C18:enc:refused:%s", W[v]);
			vf_viol(key, "encoder returned 0 for a curve with a known OID", "%s", cs);
			OPENSSL_free(ossl);
			continue;
		}
		if (x.n == CURVES[ci].olen) {
			cmp_bytes(W[v], ours, ourlen, ossl, (size_t)ossllen, cs);
		} else {
			vf_stat("ec_short_scalar_cases", 1);
			ossl_decode_ec(ours, ourlen, pk8, ci, x, qb, qlen, haspub, W[v], cs);
		}
		{
			char w2[64];
			snprintf(w2, sizeof w2, "ours-%s", W[v]);
			skey_check_ec(r, CURVES[ci].curve, x, x.n, ours, ourlen, w2, cs);
			snprintf(w2, sizeof w2, "openssl-%s", W[v]);
			skey_check_ec(r, CURVES[ci].curve, x, CURVES[ci].olen, ossl, (size_t)ossllen, w2, cs);
		}
		if (v == 1) pem_key_check(r, BR_ENCODE_PEM_EC_RAW, ours, ourlen, "ec-raw", cs);
		if (v == 3) pem_key_check(r, BR_ENCODE_PEM_PKCS8, ours, ourlen, "ec-pkcs8", cs);
		free(ours);
		OPENSSL_free(ossl);
	}
	ec_alt_encodings(r, ci, x, qb, qlen, ek, cs);
	pkey_check_ec(r, ek, ci, cs);

	/* a curve without a known OID: documented to return 0 */
	if (vf_below(r, 8) == 0) {
		br_ec_private_key sk2 = sk;
		unsigned char tmp[512];
		sk2.curve = vf_below(r, 2) ? BR_EC_curve25519 : BR_EC_curve448;
		memset(tmp, 0xA5, sizeof tmp);
		vf_stat("cmp_ec_unknown_curve", 1);
		if (br_encode_ec_raw_der(NULL, &sk2, &pk) != 0 || br_encode_ec_pkcs8_der(NULL, &sk2, NULL) != 0
			|| br_encode_ec_raw_der(tmp, &sk2, NULL) != 0 || br_encode_ec_pkcs8_der(tmp, &sk2, &pk) != 0)
		{
			vf_viol("C18:enc:unknown-curve", "encoder does not return 0 for a curve without OID", "%s curve=%d", cs, sk2.curve);
		}
	}
	free(xx.p); free(qq.p);
	EC_POINT_free(Q); BN_free(bx); EC_KEY_free(ek);
}

static void
ec_synth(long long idx)
{
	vf_rng r;
	int ci, mode;
	size_t olen;
	blob x;
	char cs[160];
	const char *mname;
	vf_rng_init(&r, (uint64_t)g_seed, (3ull << 40) + (uint64_t)idx);
	ci = (int)(idx % 3);
	olen = CURVES[ci].olen;
	mode = (int)((idx / 3) % 8);
	switch (mode) {
	default:
	case 0: case 1: /* full length random (P-521: top byte limited to 0/1) */
		mname = "full";
		x = gen_comp(&r, olen, vf_below(&r, 2), 0);
		if (ci == 2) { x.p[0] &= 0x01; if (!x.p[0] && !x.p[1]) x.p[1] = 1; }
		break;
	case 2: /* full length with leading zero bytes */
		mname = "full-lz";
		{ size_t lz = vf_range(&r, 1, 4); x = gen_comp(&r, olen - lz, vf_below(&r, 2), lz); }
		break;
	case 3: /* short encoding */
		mname = "short";
		x = gen_comp(&r, vf_range(&r, 1, (uint32_t)olen - 1), vf_below(&r, 2), 0);
		break;
	case 4: /* short with leading zeros */
		mname = "short-lz";
		{ size_t vl = vf_range(&r, 1, (uint32_t)olen - 2); x = gen_comp(&r, vl, vf_below(&r, 2), vf_range(&r, 1, (uint32_t)(olen - 1 - vl))); }
		break;
	case 5: /* x = 1 in one byte or padded */
		mname = "one";
		x.n = vf_below(&r, 2) ? 1 : (vf_below(&r, 2) ? olen : vf_range(&r, 1, (uint32_t)olen));
		x.p = calloc(1, x.n); x.p[x.n - 1] = 1;
		break;
	case 6: /* x = n - 1 */
		mname = "n-1";
		{
			EC_GROUP *g = EC_GROUP_new_by_curve_name(CURVES[ci].nid);
			BIGNUM *o = BN_dup(EC_GROUP_get0_order(g));
			BN_sub_word(o, 1);
			x = bn_blob(o, olen);
			BN_free(o); EC_GROUP_free(g);
		}
		break;
	case 7: /* small values 2..65535 */
		mname = "small";
		x.n = vf_below(&r, 2) ? 2 : olen;
		x.p = calloc(1, x.n);
		x.p[x.n - 1] = (unsigned char)vf_range(&r, 2, 255); x.p[x.n - 2] = (unsigned char)vf_below(&r, 256);
		break;
	}
	vf_distinct("ec_shape", "c%d-%s-len%zu-top%d", CURVES[ci].curve, mname, x.n, x.p[0] >> 7);
	snprintf(cs, sizeof cs, "ec-synth seed=%lld idx=%lld curve=%d mode=%s x=%s", g_seed, idx,
		CURVES[ci].curve, mname, vf_hexs(x.p, x.n));
	vf_sample("{\"kind\":\"ec-synth\",\"idx\":%lld,\"curve\":%d,\"mode\":\"%s\",\"x\":\"%s\"}",
		idx, CURVES[ci].curve, mname, vf_hexs(x.p, x.n));
	ec_run(&r, ci, x, cs, NULL, 0);
	free(x.p);
}

static void
ec_fixture(const char *name, int ci)
{
	size_t len;
	unsigned char *buf = read_file(name, &len);
	const unsigned char *p = buf;
	EC_KEY *k = d2i_ECPrivateKey(NULL, &p, (long)len);
	blob x;
	vf_rng r;
	char cs[128];
	HASSERT(k != NULL && EC_GROUP_get_curve_name(EC_KEY_get0_group(k)) == CURVES[ci].nid, "fixture-ec-parse");
	x = bn_blob(EC_KEY_get0_private_key(k), CURVES[ci].olen);
	vf_rng_init(&r, (uint64_t)g_seed, (4ull << 40) + len);
	snprintf(cs, sizeof cs, "ec-fixture %s", name);
	vf_distinct("ec_shape", "F%s", name);
	vf_stat("fixture_keys", 1);
	ec_run(&r, ci, x, cs, buf, len);
	free(x.p);
	EC_KEY_free(k);
	free(buf);
}

/* ------------------------------------------------------------------ */

int
main(int argc, char **argv)
{
	long long nrsa, nec, i;
	int fx = 0;
	static const char *RSAF[] = { "rsa512.der", "rsa1024.der", "rsa1025.der", "rsa2048.der" };
	static const char *ECF[] = { "ec256.der", "ec384.der", "ec521.der" };

	g_seed = vf_argi(argc, argv, "--seed", 1);
	g_worker = (int)vf_argi(argc, argv, "--worker", 0);
	g_nworkers = (int)vf_argi(argc, argv, "--nworkers", 1);
	g_fix = vf_arg(argc, argv, "--fixtures", "fixtures/keys");
	nrsa = vf_argi(argc, argv, "--rsa", 200);
	nec = vf_argi(argc, argv, "--ec", 96);
	vf_max_samples = 1;

	/* certificate signing key (deterministic PKCS#1 v1.5 signatures) */
	{
		size_t len;
		unsigned char *buf = read_file("rsa1024.der", &len);
		const unsigned char *p = buf;
		RSA *rk = d2i_RSAPrivateKey(NULL, &p, (long)len);
		HASSERT(rk != NULL, "signkey");
		g_signkey = EVP_PKEY_new();
		EVP_PKEY_assign_RSA(g_signkey, rk);
		free(buf);
	}

	for (i = 0; i < 4; i ++, fx ++) if (fx % g_nworkers == g_worker) rsa_fixture(RSAF[i]);
	for (i = 0; i < 3; i ++, fx ++) if (fx % g_nworkers == g_worker) ec_fixture(ECF[i], (int)i);
	for (i = g_worker; i < nrsa; i += g_nworkers) { if (i >= 2 * g_nworkers) vf_max_samples = 1; rsa_synth(i); }
	vf_max_samples = 2;
	for (i = g_worker; i < nec; i += g_nworkers) ec_synth(i);
	vf_done();
	return 0;
}
