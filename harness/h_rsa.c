/*
 * C10 - RSA operations are correct, interoperable and strict, in every
 * implementation (i15, i31, i32, i62, default).
 *
 * Differential / model-based monitor: every br_rsa_* entry point is run on
 * fixture keys (fixtures/rsa/*.der) and on keys made by br_rsa_*_keygen, and
 * each result is judged against OpenSSL libcrypto (BIGNUM, RSA_sign, EVP
 * PSS/OAEP) or against a spec-level model written here (RFC 8017 encodings).
 *
 * Work is split in "units" (key x section x implementation, + keygen units);
 * unit u runs on worker u % nworkers and draws from its own PRNG stream
 * (seed, u), so the cases do not depend on the number of workers.
 *
 *   --seed S --worker I --nworkers N --cases C --tier 0|1 --fixtures DIR
 *   [--unit U]   run only unit U (debug / replay)
 *   [--list 1]   print the unit table
 *
 * --cases C is the work budget of one unit, expressed in "512-bit i15 private
 * operations"; the number of iterations of a unit is C divided by the
 * relative cost of one operation for that key size and implementation.
 */
#define OPENSSL_SUPPRESS_DEPRECATED
#include <openssl/bn.h>
#include <openssl/rsa.h>
#include <openssl/evp.h>
#include <openssl/objects.h>
#include <openssl/err.h>
#include <openssl/crypto.h>

#include "common.h"
#include "inner.h"

/* ------------------------------------------------------------------ */
/* globals */

static int g_tier;
static unsigned long long g_seed;
static long long g_cases;
static int g_unit;
static vf_rng R;
static char g_ctx[200];
static BN_CTX *bnctx;

#define HARNESS_FAIL(what) do { \
		fprintf(stderr, "HARNESS_ASSERT %s (%s:%d) ctx=%s\n", what, __FILE__, __LINE__, g_ctx); \
		fflush(stdout); exit(2); \
	} while (0)

#define CMP(name)   do { vf_stat("cmp_total", 1); vf_stat("cmp_" name, 1); } while (0)

static void *
xmalloc(size_t len)
{
	void *p = malloc(len ? len : 1);
	if (!p) HARNESS_FAIL("oom");
	return p;
}

/* ------------------------------------------------------------------ */
/* hash functions */

typedef struct {
	const char *name;
	const br_hash_class *bc;
	const EVP_MD *(*mdf)(void);
	int nid;
	const unsigned char *oid;   /* length-prefixed OID value (BearSSL convention) */
	size_t hlen;
} hdesc;

static const hdesc HASHES[] = {
	{ "md5",    &br_md5_vtable,    EVP_md5,    NID_md5,
	  (const unsigned char *)"\x08\x2A\x86\x48\x86\xF7\x0D\x02\x05", 16 },
	{ "sha1",   &br_sha1_vtable,   EVP_sha1,   NID_sha1,
	  (const unsigned char *)"\x05\x2B\x0E\x03\x02\x1A", 20 },
	{ "sha224", &br_sha224_vtable, EVP_sha224, NID_sha224,
	  (const unsigned char *)"\x09\x60\x86\x48\x01\x65\x03\x04\x02\x04", 28 },
	{ "sha256", &br_sha256_vtable, EVP_sha256, NID_sha256,
	  (const unsigned char *)"\x09\x60\x86\x48\x01\x65\x03\x04\x02\x01", 32 },
	{ "sha384", &br_sha384_vtable, EVP_sha384, NID_sha384,
	  (const unsigned char *)"\x09\x60\x86\x48\x01\x65\x03\x04\x02\x02", 48 },
	{ "sha512", &br_sha512_vtable, EVP_sha512, NID_sha512,
	  (const unsigned char *)"\x09\x60\x86\x48\x01\x65\x03\x04\x02\x03", 64 },
	/* the OID-less TLS <= 1.1 form: 36 bytes MD5 || SHA-1 */
	{ "md5sha1", NULL, NULL, NID_md5_sha1, NULL, 36 },
};
#define NHASH   6          /* real hash functions */
#define NHASH_P1 7         /* + md5sha1 for PKCS#1 v1.5 */

static void
ref_hash(const hdesc *h, unsigned char *out, const void *a, size_t alen,
	const void *b, size_t blen, const void *c, size_t clen)
{
	EVP_MD_CTX *mc = EVP_MD_CTX_new();
	unsigned int ol = 0;
	if (!mc || EVP_DigestInit_ex(mc, h->mdf(), NULL) != 1) HARNESS_FAIL("digest-init");
	if (alen) EVP_DigestUpdate(mc, a, alen);
	if (blen) EVP_DigestUpdate(mc, b, blen);
	if (clen) EVP_DigestUpdate(mc, c, clen);
	if (EVP_DigestFinal_ex(mc, out, &ol) != 1 || ol != h->hlen) HARNESS_FAIL("digest-final");
	EVP_MD_CTX_free(mc);
}

/* MGF1 (RFC 8017 B.2.1), XORed into dst */
static void
ref_mgf1_xor(const hdesc *h, unsigned char *dst, size_t len,
	const unsigned char *seed, size_t seedlen)
{
	uint32_t ctr = 0;
	size_t off = 0;
	while (off < len) {
		unsigned char c[4], t[64];
		size_t u;
		c[0] = (unsigned char)(ctr >> 24); c[1] = (unsigned char)(ctr >> 16);
		c[2] = (unsigned char)(ctr >> 8); c[3] = (unsigned char)ctr;
		ref_hash(h, t, seed, seedlen, c, 4, NULL, 0);
		for (u = 0; u < h->hlen && off < len; u ++, off ++) dst[off] ^= t[u];
		ctr ++;
	}
}

/* ------------------------------------------------------------------ */
/* implementations */

typedef struct {
	const char *name;
	int cost;      /* relative cost (percent) of a private op vs i15, measured under ASan */
	br_rsa_public pub;
	br_rsa_private priv;
	br_rsa_pkcs1_vrfy vrfy;
	br_rsa_pkcs1_sign sign;
	br_rsa_pss_vrfy pvrfy;
	br_rsa_pss_sign psign;
	br_rsa_oaep_encrypt oenc;
	br_rsa_oaep_decrypt odec;
	br_rsa_keygen kg;
	br_rsa_compute_modulus cmod;
	br_rsa_compute_pubexp cpub;
	br_rsa_compute_privexp cpriv;
} impl_t;

#define NIMPL 5
static impl_t IMPLS[NIMPL];

static void
init_impls(void)
{
	impl_t *m;

	m = &IMPLS[0]; m->name = "i15"; m->cost = 100;
	m->pub = br_rsa_i15_public; m->priv = br_rsa_i15_private;
	m->vrfy = br_rsa_i15_pkcs1_vrfy; m->sign = br_rsa_i15_pkcs1_sign;
	m->pvrfy = br_rsa_i15_pss_vrfy; m->psign = br_rsa_i15_pss_sign;
	m->oenc = br_rsa_i15_oaep_encrypt; m->odec = br_rsa_i15_oaep_decrypt;
	m->kg = br_rsa_i15_keygen; m->cmod = br_rsa_i15_compute_modulus;
	m->cpub = br_rsa_i15_compute_pubexp; m->cpriv = br_rsa_i15_compute_privexp;

	m = &IMPLS[1]; m->name = "i31"; m->cost = 40;
	m->pub = br_rsa_i31_public; m->priv = br_rsa_i31_private;
	m->vrfy = br_rsa_i31_pkcs1_vrfy; m->sign = br_rsa_i31_pkcs1_sign;
	m->pvrfy = br_rsa_i31_pss_vrfy; m->psign = br_rsa_i31_pss_sign;
	m->oenc = br_rsa_i31_oaep_encrypt; m->odec = br_rsa_i31_oaep_decrypt;
	m->kg = br_rsa_i31_keygen; m->cmod = br_rsa_i31_compute_modulus;
	m->cpub = br_rsa_i31_compute_pubexp; m->cpriv = br_rsa_i31_compute_privexp;

	m = &IMPLS[2]; m->name = "i32"; m->cost = 100;
	m->pub = br_rsa_i32_public; m->priv = br_rsa_i32_private;
	m->vrfy = br_rsa_i32_pkcs1_vrfy; m->sign = br_rsa_i32_pkcs1_sign;
	m->pvrfy = br_rsa_i32_pss_vrfy; m->psign = br_rsa_i32_pss_sign;
	m->oenc = br_rsa_i32_oaep_encrypt; m->odec = br_rsa_i32_oaep_decrypt;

	m = &IMPLS[3]; m->name = "i62"; m->cost = 15;
	m->pub = br_rsa_i62_public_get(); m->priv = br_rsa_i62_private_get();
	m->vrfy = br_rsa_i62_pkcs1_vrfy_get(); m->sign = br_rsa_i62_pkcs1_sign_get();
	m->pvrfy = br_rsa_i62_pss_vrfy_get(); m->psign = br_rsa_i62_pss_sign_get();
	m->oenc = br_rsa_i62_oaep_encrypt_get(); m->odec = br_rsa_i62_oaep_decrypt_get();
	m->kg = br_rsa_i62_keygen_get();

	m = &IMPLS[4]; m->name = "default"; m->cost = 15;
	m->pub = br_rsa_public_get_default(); m->priv = br_rsa_private_get_default();
	m->vrfy = br_rsa_pkcs1_vrfy_get_default(); m->sign = br_rsa_pkcs1_sign_get_default();
	m->pvrfy = br_rsa_pss_vrfy_get_default(); m->psign = br_rsa_pss_sign_get_default();
	m->oenc = br_rsa_oaep_encrypt_get_default(); m->odec = br_rsa_oaep_decrypt_get_default();
	m->kg = br_rsa_keygen_get_default(); m->cmod = br_rsa_compute_modulus_get_default();
	m->cpub = br_rsa_compute_pubexp_get_default(); m->cpriv = br_rsa_compute_privexp_get_default();
	if (m->pub != IMPLS[3].pub) m->cost = (m->pub == br_rsa_i15_public) ? 100 : 40;
}

/* ------------------------------------------------------------------ */
/* keys */

typedef struct {
	char name[48];
	int bits;
	size_t nlen;
	BIGNUM *n, *e, *d, *p, *q, *dp, *dq, *iq;
	RSA *rsa;
	EVP_PKEY *pkey;
	int m3;                 /* p = q = 3 mod 4 */
	int ebits;
	uint32_t e32;           /* e if it fits 32 bits, else 0 */
} rkey;

/* big-endian encoding of b with lz extra leading zero bytes, exact-size block */
static unsigned char *
bn_buf(const BIGNUM *b, size_t lz, size_t *len)
{
	size_t l = (size_t)BN_num_bytes(b);
	unsigned char *buf = xmalloc(l + lz);
	memset(buf, 0, lz);
	BN_bn2bin(b, buf + lz);
	*len = l + lz;
	return buf;
}

static BIGNUM *
bn_from(const unsigned char *b, size_t len)
{
	BIGNUM *r = BN_bin2bn(b, (int)len, NULL);
	if (!r) HARNESS_FAIL("bn");
	return r;
}

/* finish a key whose n,e,d,p,q,dp,dq,iq are set (takes ownership) */
static void
key_finish(rkey *k)
{
	k->bits = BN_num_bits(k->n);
	k->nlen = (size_t)BN_num_bytes(k->n);
	k->ebits = BN_num_bits(k->e);
	k->e32 = (k->ebits <= 32) ? (uint32_t)BN_get_word(k->e) : 0;
	k->m3 = (BN_is_bit_set(k->p, 0) && BN_is_bit_set(k->p, 1)
		&& BN_is_bit_set(k->q, 0) && BN_is_bit_set(k->q, 1));
	k->rsa = RSA_new();
	if (!RSA_set0_key(k->rsa, BN_dup(k->n), BN_dup(k->e), BN_dup(k->d))
		|| !RSA_set0_factors(k->rsa, BN_dup(k->p), BN_dup(k->q))
		|| !RSA_set0_crt_params(k->rsa, BN_dup(k->dp), BN_dup(k->dq), BN_dup(k->iq)))
		HARNESS_FAIL("rsa-set0");
	k->pkey = EVP_PKEY_new();
	if (!k->pkey || EVP_PKEY_set1_RSA(k->pkey, k->rsa) != 1) HARNESS_FAIL("pkey");
}

static void
key_free(rkey *k)
{
	BN_free(k->n); BN_free(k->e); BN_free(k->d); BN_free(k->p); BN_free(k->q);
	BN_free(k->dp); BN_free(k->dq); BN_free(k->iq);
	RSA_free(k->rsa); EVP_PKEY_free(k->pkey);
	memset(k, 0, sizeof *k);
}

static void
key_load(rkey *k, const char *dir, const char *file)
{
	char path[600];
	unsigned char buf[4096];
	const unsigned char *p = buf;
	size_t len;
	FILE *f;
	RSA *r;
	const BIGNUM *n, *e, *d, *pp, *qq, *dp, *dq, *iq;

	memset(k, 0, sizeof *k);
	snprintf(path, sizeof path, "%s/%s", dir, file);
	f = fopen(path, "rb");
	if (!f) HARNESS_FAIL("fixture-open");
	len = fread(buf, 1, sizeof buf, f);
	fclose(f);
	r = d2i_RSAPrivateKey(NULL, &p, (long)len);
	if (!r) HARNESS_FAIL("fixture-parse");
	RSA_get0_key(r, &n, &e, &d);
	RSA_get0_factors(r, &pp, &qq);
	RSA_get0_crt_params(r, &dp, &dq, &iq);
	k->n = BN_dup(n); k->e = BN_dup(e); k->d = BN_dup(d); k->p = BN_dup(pp); k->q = BN_dup(qq);
	k->dp = BN_dup(dp); k->dq = BN_dup(dq); k->iq = BN_dup(iq);
	RSA_free(r);
	snprintf(k->name, sizeof k->name, "%s", file);
	if (strlen(k->name) > 4) k->name[strlen(k->name) - 4] = 0;   /* strip .der */
	key_finish(k);
}

/* BearSSL-side views of a key; every field in its own exact-size block */
typedef struct {
	br_rsa_public_key pk;
	size_t lzn;             /* leading zero bytes in pk.n */
	char desc[24];
} pkv;

typedef struct {
	br_rsa_private_key sk;
	char desc[40];
} skv;

static void
mk_pk(pkv *v, const rkey *k, size_t lzn, size_t lze)
{
	v->pk.n = bn_buf(k->n, lzn, &v->pk.nlen);
	v->pk.e = bn_buf(k->e, lze, &v->pk.elen);
	v->lzn = lzn;
	snprintf(v->desc, sizeof v->desc, "lzn%u-lze%u", (unsigned)lzn, (unsigned)lze);
}

static void
free_pk(pkv *v)
{
	free(v->pk.n); free(v->pk.e);
}

/* swap: present (q, p, dq, dp, p^-1 mod q); lz[5]: leading zero bytes of p,q,dp,dq,iq */
static void
mk_sk(skv *v, const rkey *k, int swap, const size_t lz[5])
{
	static const size_t nolz[5] = { 0, 0, 0, 0, 0 };
	BIGNUM *iq2 = NULL;
	const BIGNUM *p = k->p, *q = k->q, *dp = k->dp, *dq = k->dq, *iq = k->iq;

	if (!lz) lz = nolz;
	if (swap) {
		iq2 = BN_new();
		if (!BN_mod_inverse(iq2, k->p, k->q, bnctx)) HARNESS_FAIL("modinv");
		p = k->q; q = k->p; dp = k->dq; dq = k->dp; iq = iq2;
	}
	v->sk.n_bitlen = (uint32_t)k->bits;
	v->sk.p = bn_buf(p, lz[0], &v->sk.plen);
	v->sk.q = bn_buf(q, lz[1], &v->sk.qlen);
	v->sk.dp = bn_buf(dp, lz[2], &v->sk.dplen);
	v->sk.dq = bn_buf(dq, lz[3], &v->sk.dqlen);
	v->sk.iq = bn_buf(iq, lz[4], &v->sk.iqlen);
	snprintf(v->desc, sizeof v->desc, "swap%d-lz%u.%u.%u.%u.%u", swap,
		(unsigned)lz[0], (unsigned)lz[1], (unsigned)lz[2], (unsigned)lz[3], (unsigned)lz[4]);
	BN_free(iq2);
}

static void
free_sk(skv *v)
{
	free(v->sk.p); free(v->sk.q); free(v->sk.dp); free(v->sk.dq); free(v->sk.iq);
}

/* variant number j: 0 plain, 1 leading zeros, 2 swapped, 3 swapped + leading zeros */
static void
mk_sk_var(skv *v, const rkey *k, int j)
{
	size_t lz[5] = { 0, 0, 0, 0, 0 };
	int i;
	if (j & 1) {
		for (i = 0; i < 5; i ++) lz[i] = vf_below(&R, 4);
		lz[vf_below(&R, 5)] = 1 + vf_below(&R, 3);
	}
	mk_sk(v, k, (j >> 1) & 1, lz);
}

static void
mk_pk_var(pkv *v, const rkey *k, int j)
{
	if (j & 1) mk_pk(v, k, 1 + vf_below(&R, 3), vf_below(&R, 3));
	else mk_pk(v, k, 0, 0);
}

/* ------------------------------------------------------------------ */
/* reference RSA primitives (OpenSSL BIGNUM) */

/* out (nlen bytes) = in^exp mod n; in may be any length */
static void
ref_modexp(const rkey *k, const BIGNUM *exp, unsigned char *out,
	const unsigned char *in, size_t inlen)
{
	BIGNUM *x = bn_from(in, inlen), *y = BN_new();
	if (!BN_mod_exp(y, x, exp, k->n, bnctx)) HARNESS_FAIL("modexp");
	if (BN_bn2binpad(y, out, (int)k->nlen) != (int)k->nlen) HARNESS_FAIL("binpad");
	BN_free(x); BN_free(y);
}

/* 1 if the nlen-byte string is (as an integer) < n */
static int
below_n(const rkey *k, const unsigned char *x)
{
	BIGNUM *b = bn_from(x, k->nlen);
	int r = BN_cmp(b, k->n) < 0;
	BN_free(b);
	return r;
}

/* s = em^d mod n (forging a "signature" over an arbitrary encoded message).
   Returns 0 if em >= n. */
static int
forge_priv(const rkey *k, unsigned char *s, const unsigned char *em)
{
	if (!below_n(k, em)) return 0;
	if (RSA_private_encrypt((int)k->nlen, em, s, k->rsa, RSA_NO_PADDING) != (int)k->nlen) {
		ERR_clear_error();
		ref_modexp(k, k->d, s, em, k->nlen);
	}
	return 1;
}

/* c = em^e mod n. Returns 0 if em >= n. */
static int
forge_pub(const rkey *k, unsigned char *c, const unsigned char *em)
{
	if (!below_n(k, em)) return 0;
	ref_modexp(k, k->e, c, em, k->nlen);
	return 1;
}

/* random nlen-byte value < n */
static void
rand_below_n(const rkey *k, unsigned char *x)
{
	BIGNUM *b, *r = BN_new();
	vf_bytes(&R, x, k->nlen);
	b = bn_from(x, k->nlen);
	BN_mod(r, b, k->n, bnctx);
	BN_bn2binpad(r, x, (int)k->nlen);
	BN_free(b); BN_free(r);
}

static void
drbg_init(br_hmac_drbg_context *dc)
{
	unsigned char seed[32];
	vf_bytes(&R, seed, sizeof seed);
	br_hmac_drbg_init(dc, &br_sha256_vtable, seed, sizeof seed);
}

/* a different byte value for position alteration; kind selects the style */
static unsigned char
alt_byte(unsigned char v, unsigned kind)
{
	switch (kind % 5) {
	case 0: return v ^ 0x01;
	case 1: return v ^ 0x80;
	case 2: return v ? 0x00 : 0x01;
	case 3: return v == 0xFF ? 0xFE : 0xFF;
	default: return v ^ (unsigned char)vf_range(&R, 1, 255);
	}
}

/* choose up to max positions in [0,len): all of them if len <= max, else the
   "must" positions first and random ones for the rest. Returns the count. */
static size_t
pick_positions(size_t *pos, size_t len, size_t max, const size_t *must, size_t nmust)
{
	unsigned char *mark;
	size_t n = 0, u;
	if (len <= max) {
		for (u = 0; u < len; u ++) pos[u] = u;
		return len;
	}
	mark = xmalloc(len);
	memset(mark, 0, len);
	for (u = 0; u < nmust && n < max; u ++) {
		if (must[u] < len && !mark[must[u]]) { mark[must[u]] = 1; pos[n ++] = must[u]; }
	}
	while (n < max) {
		size_t p = vf_below(&R, (uint32_t)len);
		if (!mark[p]) { mark[p] = 1; pos[n ++] = p; }
	}
	free(mark);
	return n;
}

/* iteration budget: `g_cases` 512-bit-i15-private-op units, scaled by the cube
   (private) or square (public) of the size and the implementation speed */
static long
budget(const rkey *k, const impl_t *m, int priv, long lo, long hi)
{
	double s = (double)k->bits / 512.0;
	double w = priv ? s * s * s : s * s * (double)(k->ebits < 8 ? 8 : k->ebits) / 600.0;
	double b = (double)g_cases * 100.0 / ((double)m->cost * w);
	long r = (long)b;
	if (r < lo) r = lo;
	if (r > hi) r = hi;
	return r;
}

/* ------------------------------------------------------------------ */
/* Section RAW: public / private exponentiation vs BN_mod_exp, inverses,
   range / length / parity checks, key field variants */

static void
sec_raw(const rkey *k, const impl_t *m)
{
	long np = budget(k, m, 1, 4, g_tier ? 400 : 40);
	long j;
	size_t nlen = k->nlen;
	unsigned char *x = xmalloc(nlen), *rp = xmalloc(nlen), *rs = xmalloc(nlen);

	if (!m->pub || !m->priv) { vf_stat("impl_unavailable", 1); goto done; }
	for (j = 0; j < np; j ++) {
		pkv pv;
		skv sv;
		unsigned char *b1 = xmalloc(nlen), *b2 = xmalloc(nlen);
		uint32_t r1, r2;

		mk_pk_var(&pv, k, (int)(j & 1));
		mk_sk_var(&sv, k, (int)(j & 3));
		memset(x, 0, nlen);
		switch (j) {
		case 0: break;                                   /* x = 0 */
		case 1: x[nlen - 1] = 1; break;                  /* x = 1 */
		case 2: BN_bn2binpad(k->n, x, (int)nlen); x[nlen - 1] ^= 1; break; /* n-1 (n odd) */
		case 3: x[nlen - 1] = 2; break;
		default: rand_below_n(k, x); break;
		}
		ref_modexp(k, k->e, rp, x, nlen);
		ref_modexp(k, k->d, rs, x, nlen);
		if (j & 1) {
			/* public first, then private on the result */
			memcpy(b1, x, nlen);
			r1 = m->pub(b1, nlen, &pv.pk);
			CMP("raw_pub");
			if (r1 != 1 || memcmp(b1, rp, nlen) != 0)
				vf_viol("C10:raw:public-vs-bignum", "x^e mod n differs from BN_mod_exp (or returned 0)",
					"%s pk=%s r=%u x=%s", g_ctx, pv.desc, r1, vf_hexs(x, nlen));
			memcpy(b2, rp, nlen);
			r2 = m->priv(b2, &sv.sk);
			CMP("raw_inverse");
			if (r2 != 1 || memcmp(b2, x, nlen) != 0)
				vf_viol("C10:raw:private-of-public", "private(public(x)) != x",
					"%s sk=%s r=%u x=%s", g_ctx, sv.desc, r2, vf_hexs(x, nlen));
		} else {
			memcpy(b1, x, nlen);
			r1 = m->priv(b1, &sv.sk);
			CMP("raw_priv");
			if (r1 != 1 || memcmp(b1, rs, nlen) != 0)
				vf_viol("C10:raw:private-vs-bignum", "x^d mod n differs from BN_mod_exp (or returned 0)",
					"%s sk=%s r=%u x=%s", g_ctx, sv.desc, r1, vf_hexs(x, nlen));
			memcpy(b2, rs, nlen);
			r2 = m->pub(b2, nlen, &pv.pk);
			CMP("raw_inverse");
			if (r2 != 1 || memcmp(b2, x, nlen) != 0)
				vf_viol("C10:raw:public-of-private", "public(private(x)) != x",
					"%s pk=%s r=%u x=%s", g_ctx, pv.desc, r2, vf_hexs(x, nlen));
		}
		vf_distinct("config", "raw/%s/%s/%s/%s", m->name, k->name, pv.desc, sv.desc);
		if (j == 4) vf_sample("{\"sec\":\"raw\",\"impl\":\"%s\",\"key\":\"%s\",\"x\":\"%s\",\"x^e\":\"%s\"}",
			m->name, k->name, vf_hexs(x, nlen > 32 ? 32 : nlen), vf_hexs(rp, nlen > 32 ? 32 : nlen));
		free(b1); free(b2); free_pk(&pv); free_sk(&sv);
	}

	/* ---- public: range, length, parity (documented: returns 0) */
	{
		pkv pv, pz;
		unsigned char *b;
		uint32_t r;
		size_t u;
		int v;

		mk_pk(&pv, k, 0, 0);
		mk_pk(&pz, k, 2, 1);
		/* x = n, n+1 (when it fits), all-ones */
		for (v = 0; v < 3; v ++) {
			BIGNUM *t = BN_dup(k->n);
			if (v == 1) BN_add_word(t, 1 + vf_below(&R, 1000));
			b = xmalloc(nlen);
			if (v == 2) memset(b, 0xFF, nlen);
			else if (BN_num_bytes(t) > (int)nlen) { BN_free(t); free(b); continue; }
			else BN_bn2binpad(t, b, (int)nlen);
			BN_free(t);
			r = m->pub(b, nlen, &pv.pk);
			CMP("raw_pub_range");
			if (r != 0)
				vf_viol("C10:strict:public-x-not-below-n", "public op accepted x >= n",
					"%s variant=%d", g_ctx, v);
			free(b);
		}
		/* wrong xlen: returns 0, x unmodified */
		for (v = 0; v < 3; v ++) {
			size_t xl = v == 0 ? nlen - 1 : v == 1 ? nlen + 1 : nlen + pz.lzn;
			const br_rsa_public_key *pk = v == 2 ? &pz.pk : &pv.pk;
			unsigned char *c;
			b = xmalloc(xl);
			vf_bytes(&R, b, xl);
			b[0] = 0;
			if (v == 2) memset(b, 0, pz.lzn + 1);
			c = vf_dup(b, xl);
			r = pk == &pz.pk ? m->pub(b, xl, pk) : m->pub(b, xl, pk);
			CMP("raw_pub_len");
			if (r != 0 || memcmp(b, c, xl) != 0)
				vf_viol("C10:strict:public-wrong-length", "public op with xlen != modulus length: nonzero result or x modified",
					"%s variant=%d r=%u", g_ctx, v, r);
			free(b); free(c);
		}
		/* even modulus */
		{
			pkv pe;
			mk_pk(&pe, k, 0, 0);
			pe.pk.n[pe.pk.nlen - 1] ^= 1;
			b = xmalloc(nlen);
			rand_below_n(k, b);
			b[0] = 0;
			r = m->pub(b, nlen, &pe.pk);
			CMP("raw_pub_even");
			if (r != 0)
				vf_viol("C10:strict:public-even-modulus", "public op returned 1 with an even modulus", "%s", g_ctx);
			free(b); free_pk(&pe);
		}
		/* zero modulus (all-zero bytes) */
		{
			pkv pe;
			mk_pk(&pe, k, 0, 0);
			memset(pe.pk.n, 0, pe.pk.nlen);
			b = xmalloc(nlen);
			memset(b, 0, nlen);
			r = m->pub(b, nlen, &pe.pk);
			CMP("raw_pub_zero_n");
			if (r != 0)
				vf_viol("C10:strict:public-zero-modulus", "public op returned 1 with a zero modulus", "%s", g_ctx);
			free(b); free_pk(&pe);
		}
		/* oversized modulus (4097..4104 bits): executed, sanitizers armed; result is
		   documented for vrfy/encrypt only, judged there */
		{
			br_rsa_public_key pe;
			size_t bl = (BR_MAX_RSA_SIZE >> 3) + 1 + vf_below(&R, 3);
			pe.n = xmalloc(bl); pe.nlen = bl;
			vf_bytes(&R, pe.n, bl);
			pe.n[0] |= 0x01; pe.n[bl - 1] |= 1;
			pe.e = bn_buf(k->e, 0, &pe.elen);
			b = xmalloc(bl);
			vf_bytes(&R, b, bl);
			b[0] = 0;
			r = m->pub(b, bl, &pe);
			vf_stat("unjudged_pub_oversized", 1);
			vf_stat(r ? "unjudged_pub_oversized_ret1" : "unjudged_pub_oversized_ret0", 1);
			free(b); free(pe.n); free(pe.e);
		}
		(void)u;
		free_pk(&pv); free_pk(&pz);
	}

	/* ---- private: even factor => 0 (property statement); x >= n and wrong
	   n_bitlen are outside the documented contract: executed, not judged */
	{
		skv sv;
		unsigned char *b;
		uint32_t r;
		int v;

		for (v = 0; v < 2; v ++) {
			/* p' = p - 1 (even) or q' = q - 1; n' = p'q'; x < n' */
			BIGNUM *pp = BN_dup(k->p), *qq = BN_dup(k->q), *nn = BN_new(), *xx = BN_new();
			size_t l, xl;
			mk_sk(&sv, k, 0, NULL);
			if (v == 0) { BN_sub_word(pp, 1); free(sv.sk.p); sv.sk.p = bn_buf(pp, 0, &l); sv.sk.plen = l; }
			else { BN_sub_word(qq, 1); free(sv.sk.q); sv.sk.q = bn_buf(qq, 0, &l); sv.sk.qlen = l; }
			BN_mul(nn, pp, qq, bnctx);
			sv.sk.n_bitlen = (uint32_t)BN_num_bits(nn);
			xl = (sv.sk.n_bitlen + 7) >> 3;
			b = xmalloc(xl);
			vf_bytes(&R, b, xl);
			BN_bin2bn(b, (int)xl, xx);
			BN_mod(xx, xx, nn, bnctx);
			BN_bn2binpad(xx, b, (int)xl);
			r = m->priv(b, &sv.sk);
			CMP("raw_priv_even");
			if (r != 0)
				vf_viol("C10:strict:private-even-factor", "private op returned 1 with an even factor",
					"%s which=%s", g_ctx, v ? "q" : "p");
			free(b); free_sk(&sv);
			BN_free(pp); BN_free(qq); BN_free(nn); BN_free(xx);
		}
		mk_sk(&sv, k, 0, NULL);
		b = xmalloc(nlen);
		BN_bn2binpad(k->n, b, (int)nlen);
		r = m->priv(b, &sv.sk);
		vf_stat("unjudged_priv_x_ge_n", 1);
		vf_stat(r ? "unjudged_priv_x_ge_n_ret1" : "unjudged_priv_x_ge_n_ret0", 1);
		memset(b, 0xFF, nlen);
		r = m->priv(b, &sv.sk);
		vf_stat("unjudged_priv_x_ge_n", 1);
		vf_stat(r ? "unjudged_priv_x_ge_n_ret1" : "unjudged_priv_x_ge_n_ret0", 1);
		/* n_bitlen off by one but same byte length */
		if ((k->bits & 7) != 1 && (k->bits & 7) != 0) {
			rand_below_n(k, b);
			b[0] = 0;
			sv.sk.n_bitlen = (uint32_t)k->bits - 1;
			(void)m->priv(b, &sv.sk);
			sv.sk.n_bitlen = (uint32_t)k->bits + 1;
			(void)m->priv(b, &sv.sk);
			vf_stat("unjudged_priv_wrong_bitlen", 2);
		}
		free(b); free_sk(&sv);
	}
done:
	free(x); free(rp); free(rs);
}

/* ------------------------------------------------------------------ */
/* Section P1: PKCS#1 v1.5 signatures */

/* DigestInfo prefix T for (oid, hlen); form 0 = with NULL parameters, 1 = without.
   For oid == NULL (TLS <= 1.1 form) T is empty. Returns its length. */
static size_t
ref_p1_prefix(unsigned char *t, const unsigned char *oid, size_t hlen, int form)
{
	size_t x3, u = 0;
	if (!oid) return 0;
	x3 = oid[0];
	t[u ++] = 0x30; t[u ++] = (unsigned char)(x3 + hlen + (form ? 6 : 8));
	t[u ++] = 0x30; t[u ++] = (unsigned char)(x3 + (form ? 2 : 4));
	t[u ++] = 0x06; t[u ++] = (unsigned char)x3;
	memcpy(t + u, oid + 1, x3); u += x3;
	if (!form) { t[u ++] = 0x05; t[u ++] = 0x00; }
	t[u ++] = 0x04; t[u ++] = (unsigned char)hlen;
	return u;
}

/* EMSA-PKCS1-v1_5 encoding; returns 0 if the modulus is too short (PS < 8) */
static int
ref_p1_encode(unsigned char *em, size_t k, const unsigned char *oid,
	const unsigned char *hash, size_t hlen, int form)
{
	unsigned char t[64];
	size_t tl = ref_p1_prefix(t, oid, hlen, form);
	if (k < tl + hlen + 11) return 0;
	em[0] = 0x00; em[1] = 0x01;
	memset(em + 2, 0xFF, k - tl - hlen - 3);
	em[k - tl - hlen - 1] = 0x00;
	memcpy(em + k - tl - hlen, t, tl);
	memcpy(em + k - hlen, hash, hlen);
	return 1;
}

/* model of verification: em is accepted iff it is exactly the canonical
   encoding (either DigestInfo form) of its own last hlen bytes */
static int
ref_p1_accepts(const unsigned char *em, size_t k, const unsigned char *oid, size_t hlen)
{
	unsigned char *t;
	int form, ok = 0;
	if (k < hlen) return 0;
	t = xmalloc(k);
	for (form = 0; form < (oid ? 2 : 1) && !ok; form ++) {
		if (ref_p1_encode(t, k, oid, em + k - hlen, hlen, form) && memcmp(t, em, k) == 0) ok = 1;
	}
	free(t);
	return ok;
}

static void
p1_check_vrfy(const rkey *k, const impl_t *m, const br_rsa_public_key *pk,
	const unsigned char *sig, size_t siglen, const hdesc *h,
	int expect, const unsigned char *exp_hash, const char *key, const char *what)
{
	unsigned char *s = vf_dup(sig, siglen), *ho = xmalloc(h->hlen);
	uint32_t r;
	memset(ho, 0xA5, h->hlen);
	r = m->vrfy(s, siglen, h->oid, h->hlen, pk, ho);
	if (memcmp(s, sig, siglen) != 0)
		vf_viol("C10:p1:vrfy-modified-signature", "pkcs1_vrfy modified its input signature", "%s hash=%s", g_ctx, h->name);
	if ((r != 0) != (expect != 0) || (r != 0 && r != 1)
		|| (expect && memcmp(ho, exp_hash, h->hlen) != 0))
		vf_viol(key, what, "%s hash=%s expect=%d got=%u hash_out=%s sig=%s", g_ctx, h->name, expect, r,
			vf_hexs(ho, h->hlen), vf_hexs(sig, siglen));
	(void)k;
	free(s); free(ho);
}

static void
sec_p1(const rkey *k, const impl_t *m)
{
	size_t nlen = k->nlen;
	long npos = budget(k, m, 0, 24, g_tier ? 1200 : 150);
	int hi, nvar = 0;
	pkv pv, pz;
	unsigned char *em = xmalloc(nlen), *sig = xmalloc(nlen), *ref = xmalloc(nlen), *em2 = xmalloc(nlen);
	size_t *pos = xmalloc((nlen + 1) * sizeof *pos);

	if (!m->sign || !m->vrfy) { vf_stat("impl_unavailable", 1); goto done; }
	mk_pk(&pv, k, 0, 0);
	mk_pk(&pz, k, 1 + vf_below(&R, 3), vf_below(&R, 2));
	/* hash functions to run: all 7 when cheap, else a rotating subset (always the TLS form or sha256) */
	for (hi = 0; hi < NHASH_P1; hi ++) {
		const hdesc *h = &HASHES[hi];
		unsigned char hv[64], t[64];
		size_t tl = ref_p1_prefix(t, h->oid, h->hlen, 0);
		unsigned int sl = 0;
		uint32_t r;
		skv sv;
		int fits = nlen >= tl + h->hlen + 11;
		long heavy = budget(k, m, 1, 0, 1000);

		/* budget: with < 7 private ops available, run (unit + hi) % 7 < heavy hashes */
		if (heavy < NHASH_P1 && (long)((unsigned)(g_unit + hi) % NHASH_P1) >= (heavy < 2 ? 2 : heavy)) {
			vf_stat("p1_hash_skipped_budget", 1);
			continue;
		}
		vf_bytes(&R, hv, h->hlen);
		mk_sk_var(&sv, k, nvar ++ & 3);
		{
			unsigned char *so = xmalloc(nlen);
			memset(so, 0x5A, nlen);
			r = m->sign(h->oid, hv, h->hlen, &sv.sk, so);
			memcpy(sig, so, nlen);
			free(so);
		}
		if (!fits) {
			CMP("p1_too_small");
			if (r != 0)
				vf_viol("C10:p1:sign-modulus-too-small", "pkcs1_sign succeeded although < 8 padding bytes fit",
					"%s hash=%s", g_ctx, h->name);
			free_sk(&sv);
			continue;
		}
		if (RSA_sign(h->nid, hv, (unsigned)h->hlen, ref, &sl, k->rsa) != 1 || sl != nlen) HARNESS_FAIL("RSA_sign");
		CMP("p1_sign_identical");
		if (r != 1 || memcmp(sig, ref, nlen) != 0)
			vf_viol("C10:p1:sign-vs-openssl", "pkcs1_sign output differs from OpenSSL RSA_sign (deterministic scheme) or returned 0",
				"%s hash=%s sk=%s r=%u hv=%s got=%s", g_ctx, h->name, sv.desc, r, vf_hexs(hv, h->hlen), vf_hexs(sig, nlen));
		CMP("p1_openssl_verifies");
		if (r == 1 && RSA_verify(h->nid, hv, (unsigned)h->hlen, sig, (unsigned)nlen, k->rsa) != 1) {
			ERR_clear_error();
			vf_viol("C10:p1:openssl-rejects", "OpenSSL RSA_verify rejects a signature made here",
				"%s hash=%s hv=%s", g_ctx, h->name, vf_hexs(hv, h->hlen));
		}
		free_sk(&sv);
		vf_distinct("config", "p1/%s/%s/%s", m->name, k->name, h->name);
		if (hi == 3) vf_sample("{\"sec\":\"p1\",\"impl\":\"%s\",\"key\":\"%s\",\"hash\":\"%s\",\"hv\":\"%s\",\"sig\":\"%s\"}",
			m->name, k->name, h->name, vf_hexs(hv, h->hlen), vf_hexs(ref, nlen > 48 ? 48 : nlen));

		/* OpenSSL's signature verifies here; also with leading zeros in n */
		CMP("p1_vrfy_openssl_sig");
		p1_check_vrfy(k, m, &pv.pk, ref, nlen, h, 1, hv, "C10:p1:vrfy-rejects-openssl", "pkcs1_vrfy rejects / mis-extracts an OpenSSL signature");
		CMP("p1_vrfy_leading_zero_n");
		p1_check_vrfy(k, m, &pz.pk, ref, nlen, h, 1, hv, "C10:p1:vrfy-leading-zero-n", "pkcs1_vrfy with leading zero bytes in n differs");

		/* harness self-check: own encoder == OpenSSL's */
		if (!ref_p1_encode(em, nlen, h->oid, hv, h->hlen, 0) || !forge_priv(k, em2, em)
			|| memcmp(em2, ref, nlen) != 0) HARNESS_FAIL("p1-encoder-vs-openssl");

		/* second DigestInfo form (no NULL) */
		if (h->oid && ref_p1_encode(em2, nlen, h->oid, hv, h->hlen, 1) && forge_priv(k, sig, em2)) {
			CMP("p1_vrfy_no_null_form");
			p1_check_vrfy(k, m, &pv.pk, sig, nlen, h, 1, hv, "C10:p1:vrfy-rejects-no-null-form", "pkcs1_vrfy rejects the DigestInfo form without NULL parameters");
		}

		/* wrong lengths, value not below n */
		{
			unsigned char *b = xmalloc(nlen + 1);
			BIGNUM *s = bn_from(ref, nlen);
			memcpy(b, ref, nlen - 1);
			CMP("p1_strict_len");
			p1_check_vrfy(k, m, &pv.pk, ref + 1, nlen - 1, h, 0, NULL, "C10:strict:p1-wrong-length", "pkcs1_vrfy accepted a signature of wrong length");
			b[0] = 0; memcpy(b + 1, ref, nlen);
			CMP("p1_strict_len");
			p1_check_vrfy(k, m, &pv.pk, b, nlen + 1, h, 0, NULL, "C10:strict:p1-wrong-length", "pkcs1_vrfy accepted a signature of wrong length");
			CMP("p1_strict_len");
			p1_check_vrfy(k, m, &pz.pk, b, nlen + 1, h, 0, NULL, "C10:strict:p1-wrong-length", "pkcs1_vrfy accepted a signature of wrong length");
			BN_add(s, s, k->n);
			if (BN_num_bytes(s) <= (int)nlen) {
				BN_bn2binpad(s, b, (int)nlen);
				CMP("p1_strict_s_plus_n");
				p1_check_vrfy(k, m, &pv.pk, b, nlen, h, 0, NULL, "C10:strict:p1-sig-not-below-n", "pkcs1_vrfy accepted s + n");
			}
			BN_free(s); free(b);
		}

		/* hash value not at the right end / fewer FF bytes with trailing garbage */
		if (nlen >= tl + h->hlen + 11 + 4) {
			size_t g = 1 + vf_below(&R, (uint32_t)(nlen - (tl + h->hlen + 11)));
			memset(em2, 0, nlen);
			ref_p1_encode(em2, nlen - g, h->oid, hv, h->hlen, 0);
			vf_bytes(&R, em2 + nlen - g, g);
			if (forge_priv(k, sig, em2)) {
				int exp = ref_p1_accepts(em2, nlen, h->oid, h->hlen);
				CMP("p1_strict_trailing_garbage");
				p1_check_vrfy(k, m, &pv.pk, sig, nlen, h, exp, em2 + nlen - h->hlen, "C10:strict:p1-trailing-garbage", "pkcs1_vrfy accepted an encoding with bytes after the hash");
			}
		}

		/* every (or a sample of) byte position(s) of EM altered */
		{
			size_t must[80], nm = 0, np_, u, sep = nlen - tl - h->hlen - 1;
			for (u = 0; u < 11; u ++) must[nm ++] = u;
			for (u = sep - 1; u < sep + tl + 2 && u < nlen && nm < 78; u ++) must[nm ++] = u;
			must[nm ++] = nlen - 1;
			np_ = pick_positions(pos, nlen, (size_t)npos, must, nm);
			for (u = 0; u < np_; u ++) {
				int a, na = g_tier ? 3 : 1;
				for (a = 0; a < na; a ++) {
					int exp;
					memcpy(em2, em, nlen);
					em2[pos[u]] = alt_byte(em[pos[u]], (unsigned)(u + (size_t)a * 2 + (size_t)hi));
					if (!forge_priv(k, sig, em2)) { vf_stat("forge_skipped_ge_n", 1); continue; }
					exp = ref_p1_accepts(em2, nlen, h->oid, h->hlen);
					CMP("p1_strict_altered_byte");
					vf_stat(exp ? "p1_altered_expect_accept" : "p1_altered_expect_reject", 1);
					p1_check_vrfy(k, m, &pv.pk, sig, nlen, h, exp, em2 + nlen - h->hlen,
						exp ? "C10:p1:vrfy-altered-hash-byte" : "C10:strict:p1-altered-byte",
						exp ? "pkcs1_vrfy rejected / mis-extracted a canonical encoding of another hash value"
						    : "pkcs1_vrfy accepted an encoding with an altered padding/DigestInfo byte");
				}
			}
			vf_max("p1_positions_per_em", (long long)np_);
		}
	}

	/* oversized modulus: documented to return 0 */
	{
		br_rsa_public_key pe;
		const hdesc *h = &HASHES[3];
		size_t bl = (BR_MAX_RSA_SIZE >> 3) + 1;
		unsigned char *b = xmalloc(bl), *ho = xmalloc(h->hlen);
		uint32_t r;
		pe.n = xmalloc(bl); pe.nlen = bl;
		vf_bytes(&R, pe.n, bl);
		pe.n[0] = 0x01; pe.n[bl - 1] |= 1;
		pe.e = bn_buf(k->e, 0, &pe.elen);
		vf_bytes(&R, b, bl);
		b[0] = 0;
		r = m->vrfy(b, bl, h->oid, h->hlen, &pe, ho);
		CMP("p1_oversized_modulus");
		if (r != 0)
			vf_viol("C10:strict:p1-oversized-modulus", "pkcs1_vrfy returned 1 with a 4097-bit modulus", "%s", g_ctx);
		free(b); free(ho); free(pe.n); free(pe.e);
	}
	free_pk(&pv); free_pk(&pz);
done:
	free(em); free(sig); free(ref); free(em2); free(pos);
}

/* ------------------------------------------------------------------ */
/* Section PSS */

/* EMSA-PSS-ENCODE (RFC 8017 9.1.1) into the nlen-byte string em (with the
   leading zero byte when emLen < nlen). Returns 0 if it does not fit. */
static int
ref_pss_encode(unsigned char *em, const rkey *k, const hdesc *hf, const hdesc *mgf,
	const unsigned char *mhash, const unsigned char *salt, size_t slen)
{
	static const unsigned char z8[8] = { 0 };
	size_t embits = (size_t)k->bits - 1, emlen = (embits + 7) >> 3, hl = hf->hlen;
	unsigned char *e = em + (k->nlen - emlen), *H;
	size_t dbl;

	if (emlen < hl + slen + 2) return 0;
	memset(em, 0, k->nlen);
	dbl = emlen - hl - 1;
	H = e + dbl;
	ref_hash(hf, H, z8, 8, mhash, hl, salt, slen);
	e[dbl - slen - 1] = 0x01;
	memcpy(e + dbl - slen, salt, slen);
	ref_mgf1_xor(mgf, e, dbl, H, hl);
	e[0] &= (unsigned char)(0xFF >> (8 * emlen - embits));
	e[emlen - 1] = 0xBC;
	return 1;
}

static EVP_PKEY_CTX *
pss_ctx(const rkey *k, int sign, const hdesc *hf, const hdesc *mgf, size_t slen)
{
	EVP_PKEY_CTX *c = EVP_PKEY_CTX_new(k->pkey, NULL);
	if (!c || (sign ? EVP_PKEY_sign_init(c) : EVP_PKEY_verify_init(c)) != 1
		|| EVP_PKEY_CTX_set_rsa_padding(c, RSA_PKCS1_PSS_PADDING) != 1
		|| EVP_PKEY_CTX_set_signature_md(c, hf->mdf()) != 1
		|| EVP_PKEY_CTX_set_rsa_mgf1_md(c, mgf->mdf()) != 1
		|| EVP_PKEY_CTX_set_rsa_pss_saltlen(c, (int)slen) != 1)
		HARNESS_FAIL("pss-ctx");
	return c;
}

static void
pss_check_vrfy(const impl_t *m, const br_rsa_public_key *pk, const unsigned char *sig, size_t siglen,
	const hdesc *hf, const hdesc *mgf, const unsigned char *mhash, size_t slen,
	int expect, const char *key, const char *what)
{
	unsigned char *s = vf_dup(sig, siglen), *hh = vf_dup(mhash, hf->hlen);
	uint32_t r = m->pvrfy(s, siglen, hf->bc, mgf->bc, hh, slen, pk);
	if (memcmp(s, sig, siglen) != 0)
		vf_viol("C10:pss:vrfy-modified-signature", "pss_vrfy modified its input signature", "%s", g_ctx);
	if ((r != 0) != (expect != 0) || (r != 0 && r != 1))
		vf_viol(key, what, "%s hf=%s mgf=%s slen=%u expect=%d got=%u mhash=%s sig=%s", g_ctx, hf->name, mgf->name,
			(unsigned)slen, expect, r, vf_hexs(mhash, hf->hlen), vf_hexs(sig, siglen));
	free(s); free(hh);
}

static void
sec_pss(const rkey *k, const impl_t *m)
{
	size_t nlen = k->nlen, emlen = ((size_t)k->bits + 6) >> 3;
	long ncombo = budget(k, m, 1, 2, g_tier ? 72 : 12);
	long npos = budget(k, m, 0, 16, g_tier ? 1200 : 100);
	long it;
	pkv pv, pz;
	unsigned char *sig = xmalloc(nlen), *em = xmalloc(nlen), *em2 = xmalloc(nlen), *osig = xmalloc(nlen);
	size_t *pos = xmalloc((nlen + 1) * sizeof *pos);
	br_hmac_drbg_context dc;

	if (!m->psign || !m->pvrfy) { vf_stat("impl_unavailable", 1); goto done; }
	mk_pk(&pv, k, 0, 0);
	mk_pk(&pz, k, 1 + vf_below(&R, 3), vf_below(&R, 2));
	drbg_init(&dc);
	for (it = 0; it < ncombo; it ++) {
		/* enumerate the 36 (hf, mgf) pairs in an order that depends on the unit */
		unsigned pi = (unsigned)((unsigned long)it * 7 + (unsigned)g_unit * 5) % 36;
		const hdesc *hf = &HASHES[pi / 6], *mgf = &HASHES[pi % 6];
		unsigned char mh[64], salt[600];
		long maxs = (long)emlen - (long)hf->hlen - 2;
		size_t slen;
		uint32_t r;
		skv sv;
		unsigned char *so;

		vf_bytes(&R, mh, hf->hlen);
		mk_sk_var(&sv, k, (int)(it & 3));
		so = xmalloc(nlen);
		if (maxs < 0) {
			/* modulus too small for this hash: both directions must fail */
			r = m->psign(&dc.vtable, hf->bc, mgf->bc, mh, 0, &sv.sk, so);
			CMP("pss_too_small");
			if (r != 0)
				vf_viol("C10:pss:sign-modulus-too-small", "pss_sign succeeded although hash+salt+2 > emLen",
					"%s hf=%s slen=0", g_ctx, hf->name);
			vf_bytes(&R, so, nlen); so[0] = 0;
			CMP("pss_too_small");
			pss_check_vrfy(m, &pv.pk, so, nlen, hf, mgf, mh, 0, 0, "C10:strict:pss-modulus-too-small", "pss_vrfy accepted although hash+salt+2 > emLen");
			free(so); free_sk(&sv);
			continue;
		}
		switch (it % 5) {
		case 0: slen = hf->hlen; break;
		case 1: slen = 0; break;
		case 2: slen = (size_t)maxs; break;
		default: slen = vf_range(&R, 0, (uint32_t)maxs); break;
		}
		if ((long)slen > maxs) slen = (size_t)maxs;
		vf_distinct("config", "pss/%s/%s/%s/%s/s%u", m->name, k->name, hf->name, mgf->name,
			slen == 0 ? 0u : slen == (size_t)maxs ? 9999u : slen == hf->hlen ? 1u : 2u);

		/* salt too long by one: sign and verify fail */
		r = m->psign(&dc.vtable, hf->bc, mgf->bc, mh, (size_t)maxs + 1, &sv.sk, so);
		CMP("pss_too_small");
		if (r != 0)
			vf_viol("C10:pss:sign-modulus-too-small", "pss_sign succeeded although hash+salt+2 > emLen",
				"%s hf=%s slen=%ld", g_ctx, hf->name, maxs + 1);

		/* made here -> verified by OpenSSL and here */
		memset(so, 0x5A, nlen);
		r = m->psign(slen == 0 && (it & 8) ? NULL : &dc.vtable, hf->bc, mgf->bc, mh, slen, &sv.sk, so);
		memcpy(sig, so, nlen);
		free(so);
		CMP("pss_sign_openssl_verifies");
		{
			EVP_PKEY_CTX *c = pss_ctx(k, 0, hf, mgf, slen);
			int v = r == 1 ? EVP_PKEY_verify(c, sig, nlen, mh, hf->hlen) : -2;
			EVP_PKEY_CTX_free(c);
			if (v != 1) {
				ERR_clear_error();
				vf_viol("C10:pss:openssl-rejects", "OpenSSL rejects a PSS signature made here (or pss_sign returned 0)",
					"%s hf=%s mgf=%s slen=%u sk=%s r=%u v=%d mhash=%s sig=%s", g_ctx, hf->name, mgf->name, (unsigned)slen,
					sv.desc, r, v, vf_hexs(mh, hf->hlen), vf_hexs(sig, nlen));
			}
		}
		free_sk(&sv);
		if (r == 1) {
			CMP("pss_roundtrip");
			pss_check_vrfy(m, &pv.pk, sig, nlen, hf, mgf, mh, slen, 1, "C10:pss:roundtrip", "pss_vrfy rejects a signature made by pss_sign");
		}

		/* made by OpenSSL -> verified here (plain n and n with leading zeros) */
		{
			EVP_PKEY_CTX *c = pss_ctx(k, 1, hf, mgf, slen);
			size_t ol = nlen;
			if (EVP_PKEY_sign(c, osig, &ol, mh, hf->hlen) != 1 || ol != nlen) HARNESS_FAIL("pss-openssl-sign");
			EVP_PKEY_CTX_free(c);
		}
		CMP("pss_vrfy_openssl_sig");
		pss_check_vrfy(m, &pv.pk, osig, nlen, hf, mgf, mh, slen, 1, "C10:pss:vrfy-rejects-openssl", "pss_vrfy rejects an OpenSSL PSS signature");
		CMP("pss_vrfy_leading_zero_n");
		pss_check_vrfy(m, &pz.pk, osig, nlen, hf, mgf, mh, slen, 1, "C10:pss:vrfy-leading-zero-n", "pss_vrfy with leading zero bytes in n differs");
		if (it == 0) vf_sample("{\"sec\":\"pss\",\"impl\":\"%s\",\"key\":\"%s\",\"hf\":\"%s\",\"mgf\":\"%s\",\"slen\":%u,\"mhash\":\"%s\"}",
			m->name, k->name, hf->name, mgf->name, (unsigned)slen, vf_hexs(mh, hf->hlen));

		/* wrong parameters on a good signature */
		{
			unsigned char mh2[64];
			memcpy(mh2, mh, hf->hlen);
			mh2[vf_below(&R, (uint32_t)hf->hlen)] ^= (unsigned char)(1u << vf_below(&R, 8));
			CMP("pss_strict_params");
			pss_check_vrfy(m, &pv.pk, osig, nlen, hf, mgf, mh2, slen, 0, "C10:strict:pss-wrong-hash", "pss_vrfy accepted with a different message hash");
			if ((long)slen < maxs) {
				CMP("pss_strict_params");
				pss_check_vrfy(m, &pv.pk, osig, nlen, hf, mgf, mh, slen + 1, 0, "C10:strict:pss-wrong-salt-length", "pss_vrfy accepted with salt length + 1");
			}
			if (slen > 0) {
				CMP("pss_strict_params");
				pss_check_vrfy(m, &pv.pk, osig, nlen, hf, mgf, mh, slen - 1, 0, "C10:strict:pss-wrong-salt-length", "pss_vrfy accepted with salt length - 1");
			}
			if (mgf != &HASHES[3]) {
				CMP("pss_strict_params");
				pss_check_vrfy(m, &pv.pk, osig, nlen, hf, mgf == &HASHES[3] ? &HASHES[1] : &HASHES[3], mh, slen, 0,
					"C10:strict:pss-wrong-mgf-hash", "pss_vrfy accepted with another MGF1 hash");
			}
			CMP("pss_strict_len");
			pss_check_vrfy(m, &pv.pk, osig + 1, nlen - 1, hf, mgf, mh, slen, 0, "C10:strict:pss-wrong-length", "pss_vrfy accepted a signature of wrong length");
			{
				unsigned char *b = xmalloc(nlen + 1);
				BIGNUM *s = bn_from(osig, nlen);
				b[0] = 0; memcpy(b + 1, osig, nlen);
				CMP("pss_strict_len");
				pss_check_vrfy(m, &pv.pk, b, nlen + 1, hf, mgf, mh, slen, 0, "C10:strict:pss-wrong-length", "pss_vrfy accepted a signature of wrong length");
				BN_add(s, s, k->n);
				if (BN_num_bytes(s) <= (int)nlen) {
					BN_bn2binpad(s, b, (int)nlen);
					CMP("pss_strict_s_plus_n");
					pss_check_vrfy(m, &pv.pk, b, nlen, hf, mgf, mh, slen, 0, "C10:strict:pss-sig-not-below-n", "pss_vrfy accepted s + n");
				}
				BN_free(s); free(b);
			}
		}

		/* forged encodings: own encoder accepted; any altered byte rejected */
		vf_bytes(&R, salt, slen);
		if (!ref_pss_encode(em, k, hf, mgf, mh, salt, slen)) HARNESS_FAIL("pss-encode");
		if (!forge_priv(k, sig, em)) HARNESS_FAIL("pss-em-ge-n");
		{
			/* harness self-check against OpenSSL */
			EVP_PKEY_CTX *c = pss_ctx(k, 0, hf, mgf, slen);
			if (EVP_PKEY_verify(c, sig, nlen, mh, hf->hlen) != 1) HARNESS_FAIL("pss-encoder-vs-openssl");
			EVP_PKEY_CTX_free(c);
		}
		CMP("pss_vrfy_own_encoding");
		pss_check_vrfy(m, &pv.pk, sig, nlen, hf, mgf, mh, slen, 1, "C10:pss:vrfy-rejects-rfc8017-encoding", "pss_vrfy rejects a valid RFC 8017 EMSA-PSS encoding");
		{
			size_t must[16], nm = 0, np_, u, off = nlen - emlen, dbl = emlen - hf->hlen - 1;
			must[nm ++] = 0; must[nm ++] = off; must[nm ++] = nlen - 1; must[nm ++] = nlen - 2;
			must[nm ++] = off + dbl; must[nm ++] = off + dbl - 1;
			must[nm ++] = off + dbl - slen - 1; must[nm ++] = off + (dbl - slen - 1) / 2;
			np_ = pick_positions(pos, nlen, (size_t)(npos / (ncombo > 4 ? 4 : 1) + 8), must, nm);
			for (u = 0; u < np_; u ++) {
				memcpy(em2, em, nlen);
				em2[pos[u]] = alt_byte(em[pos[u]], (unsigned)(u + (size_t)it));
				if (!forge_priv(k, sig, em2)) { vf_stat("forge_skipped_ge_n", 1); continue; }
				CMP("pss_strict_altered_byte");
				pss_check_vrfy(m, &pv.pk, sig, nlen, hf, mgf, mh, slen, 0, "C10:strict:pss-altered-byte", "pss_vrfy accepted an encoding with one altered byte");
			}
			/* unused top bits set before masking is part of the above (byte `off`) */
			vf_max("pss_positions_per_em", (long long)np_);
		}
	}
	/* oversized modulus */
	{
		br_rsa_public_key pe;
		const hdesc *h = &HASHES[3];
		size_t bl = (BR_MAX_RSA_SIZE >> 3) + 1;
		unsigned char *b = xmalloc(bl), mh[32];
		uint32_t r;
		pe.n = xmalloc(bl); pe.nlen = bl;
		vf_bytes(&R, pe.n, bl);
		pe.n[0] = 0x01; pe.n[bl - 1] |= 1;
		pe.e = bn_buf(k->e, 0, &pe.elen);
		vf_bytes(&R, b, bl); vf_bytes(&R, mh, 32);
		b[0] = 0;
		r = m->pvrfy(b, bl, h->bc, h->bc, mh, 32, &pe);
		CMP("pss_oversized_modulus");
		if (r != 0)
			vf_viol("C10:strict:pss-oversized-modulus", "pss_vrfy returned 1 with a 4097-bit modulus", "%s", g_ctx);
		free(b); free(pe.n); free(pe.e);
	}
	free_pk(&pv); free_pk(&pz);
done:
	free(sig); free(em); free(em2); free(osig); free(pos);
}
