/*
 * C10 - RSA operations are correct, interoperable and strict, in every
 * implementation (i15, i31, i32, i62, default).
 *
 * Differential / model-based monitor: every br_rsa_* entry point is run on
 * fixture keys (fixtures/rsa/k*.der) and on keys made by br_rsa_xx_keygen, and
 * each result is judged against OpenSSL libcrypto (BIGNUM, RSA_sign, EVP
 * PSS/OAEP) or against a spec-level model written here (RFC 8017 encodings).
 *
 * Work is split in "units" (key x section x implementation, + keygen units);
 * unit u runs on worker (u + u / nworkers) % nworkers (the rotation spreads the
 * slow engine's units over all workers) and draws from its own PRNG stream
 * (seed, u), so the cases do not depend on the number of workers.
 *
 *   --seed S --worker I --nworkers N --cases C --tier 0/1 --fixtures DIR
 *   [--unit U]   run only unit U (debug / replay)
 *   [--list 1]   print the unit table
 *
 * --cases C is the work budget of one unit, expressed in "512-bit i15 private
 * operations"; the number of iterations of a unit is C divided by the
 * relative cost of one operation for that key size and implementation.
 */
#define OPENSSL_SUPPRESS_DEPRECATED
#include <openssl/bn.h>
#include <openssl/rsa.h>
#include <openssl/evp.h>
#include <openssl/objects.h>
#include <openssl/err.h>
#include <openssl/crypto.h>

#include "common.h"
#include "inner.h"

/* ------------------------------------------------------------------ */
/* globals */

static int g_tier;
static unsigned long long g_seed;
static long long g_cases;
static int g_unit;
static vf_rng R;
static char g_ctx[200];
static BN_CTX *bnctx;

#define HARNESS_FAIL(what) do { \
		fprintf(stderr, "HARNESS_ASSERT %s (%s:%d) ctx=%s\n", what, __FILE__, __LINE__, g_ctx); \
		fflush(stdout); exit(2); \
	} while (0)

#define CMP(name)   do { vf_stat("cmp_total", 1); vf_stat("cmp_" name, 1); } while (0)

/* violation report: at most 3 per key and process, so that a frequent finding
   cannot use up the 25 lines vf_viol prints and hide another key */
static void
rviol(const char *key, const char *what, const char *fmt, ...)
{
	static struct { char key[64]; int n; } seen[64];
	static int nseen;
	static char buf[6000];
	va_list ap;
	int i;
	for (i = 0; i < nseen; i ++) if (strcmp(seen[i].key, key) == 0) break;
	if (i == nseen) {
		if (nseen < 64) { snprintf(seen[i].key, sizeof seen[i].key, "%s", key); seen[i].n = 0; nseen ++; }
		else i = 63;
	}
	vf_stat("violations_seen", 1);
	if (++ seen[i].n > 3) return;
	va_start(ap, fmt);
	vsnprintf(buf, sizeof buf, fmt, ap);
	va_end(ap);
	vf_viol(key, what, "%s", buf);
}

static void *
xmalloc(size_t len)
{
	void *p = malloc(len ? len : 1);
	if (!p) HARNESS_FAIL("oom");
	return p;
}

/* ------------------------------------------------------------------ */
/* hash functions */

typedef struct {
	const char *name;
	const br_hash_class *bc;
	const EVP_MD *(*mdf)(void);
	int nid;
	const unsigned char *oid;   /* length-prefixed OID value (BearSSL convention) */
	size_t hlen;
} hdesc;

static const hdesc HASHES[] = {
	{ "md5",    &br_md5_vtable,    EVP_md5,    NID_md5,
	  (const unsigned char *)"\x08\x2A\x86\x48\x86\xF7\x0D\x02\x05", 16 },
	{ "sha1",   &br_sha1_vtable,   EVP_sha1,   NID_sha1,
	  (const unsigned char *)"\x05\x2B\x0E\x03\x02\x1A", 20 },
	{ "sha224", &br_sha224_vtable, EVP_sha224, NID_sha224,
	  (const unsigned char *)"\x09\x60\x86\x48\x01\x65\x03\x04\x02\x04", 28 },
	{ "sha256", &br_sha256_vtable, EVP_sha256, NID_sha256,
	  (const unsigned char *)"\x09\x60\x86\x48\x01\x65\x03\x04\x02\x01", 32 },
	{ "sha384", &br_sha384_vtable, EVP_sha384, NID_sha384,
	  (const unsigned char *)"\x09\x60\x86\x48\x01\x65\x03\x04\x02\x02", 48 },
	{ "sha512", &br_sha512_vtable, EVP_sha512, NID_sha512,
	  (const unsigned char *)"\x09\x60\x86\x48\x01\x65\x03\x04\x02\x03", 64 },
	/* the OID-less TLS <= 1.1 form: 36 bytes MD5 || SHA-1 */
	{ "md5sha1", NULL, NULL, NID_md5_sha1, NULL, 36 },
};
#define NHASH   6          /* real hash functions */
#define NHASH_P1 7         /* + md5sha1 for PKCS#1 v1.5 */

static void
ref_hash(const hdesc *h, unsigned char *out, const void *a, size_t alen,
	const void *b, size_t blen, const void *c, size_t clen)
{
	EVP_MD_CTX *mc = EVP_MD_CTX_new();
	unsigned int ol = 0;
	if (!mc || EVP_DigestInit_ex(mc, h->mdf(), NULL) != 1) HARNESS_FAIL("digest-init");
	if (alen) EVP_DigestUpdate(mc, a, alen);
	if (blen) EVP_DigestUpdate(mc, b, blen);
	if (clen) EVP_DigestUpdate(mc, c, clen);
	if (EVP_DigestFinal_ex(mc, out, &ol) != 1 || ol != h->hlen) HARNESS_FAIL("digest-final");
	EVP_MD_CTX_free(mc);
}

/* MGF1 (RFC 8017 B.2.1), XORed into dst */
static void
ref_mgf1_xor(const hdesc *h, unsigned char *dst, size_t len,
	const unsigned char *seed, size_t seedlen)
{
	uint32_t ctr = 0;
	size_t off = 0;
	while (off < len) {
		unsigned char c[4], t[64];
		size_t u;
		c[0] = (unsigned char)(ctr >> 24); c[1] = (unsigned char)(ctr >> 16);
		c[2] = (unsigned char)(ctr >> 8); c[3] = (unsigned char)ctr;
		ref_hash(h, t, seed, seedlen, c, 4, NULL, 0);
		for (u = 0; u < h->hlen && off < len; u ++, off ++) dst[off] ^= t[u];
		ctr ++;
	}
}

/* ------------------------------------------------------------------ */
/* implementations */

typedef struct {
	const char *name;
	int cost;      /* relative cost (percent) of a private op vs i15, measured under ASan */
	br_rsa_public pub;
	br_rsa_private priv;
	br_rsa_pkcs1_vrfy vrfy;
	br_rsa_pkcs1_sign sign;
	br_rsa_pss_vrfy pvrfy;
	br_rsa_pss_sign psign;
	br_rsa_oaep_encrypt oenc;
	br_rsa_oaep_decrypt odec;
	br_rsa_keygen kg;
	br_rsa_compute_modulus cmod;
	br_rsa_compute_pubexp cpub;
	br_rsa_compute_privexp cpriv;
} impl_t;

#define NIMPL 5
static impl_t IMPLS[NIMPL];

static void
init_impls(void)
{
	impl_t *m;

	m = &IMPLS[0]; m->name = "i15"; m->cost = 100;
	m->pub = br_rsa_i15_public; m->priv = br_rsa_i15_private;
	m->vrfy = br_rsa_i15_pkcs1_vrfy; m->sign = br_rsa_i15_pkcs1_sign;
	m->pvrfy = br_rsa_i15_pss_vrfy; m->psign = br_rsa_i15_pss_sign;
	m->oenc = br_rsa_i15_oaep_encrypt; m->odec = br_rsa_i15_oaep_decrypt;
	m->kg = br_rsa_i15_keygen; m->cmod = br_rsa_i15_compute_modulus;
	m->cpub = br_rsa_i15_compute_pubexp; m->cpriv = br_rsa_i15_compute_privexp;

	m = &IMPLS[1]; m->name = "i31"; m->cost = 40;
	m->pub = br_rsa_i31_public; m->priv = br_rsa_i31_private;
	m->vrfy = br_rsa_i31_pkcs1_vrfy; m->sign = br_rsa_i31_pkcs1_sign;
	m->pvrfy = br_rsa_i31_pss_vrfy; m->psign = br_rsa_i31_pss_sign;
	m->oenc = br_rsa_i31_oaep_encrypt; m->odec = br_rsa_i31_oaep_decrypt;
	m->kg = br_rsa_i31_keygen; m->cmod = br_rsa_i31_compute_modulus;
	m->cpub = br_rsa_i31_compute_pubexp; m->cpriv = br_rsa_i31_compute_privexp;

	m = &IMPLS[2]; m->name = "i32"; m->cost = 40;
	m->pub = br_rsa_i32_public; m->priv = br_rsa_i32_private;
	m->vrfy = br_rsa_i32_pkcs1_vrfy; m->sign = br_rsa_i32_pkcs1_sign;
	m->pvrfy = br_rsa_i32_pss_vrfy; m->psign = br_rsa_i32_pss_sign;
	m->oenc = br_rsa_i32_oaep_encrypt; m->odec = br_rsa_i32_oaep_decrypt;

	m = &IMPLS[3]; m->name = "i62"; m->cost = 12;
	m->pub = br_rsa_i62_public_get(); m->priv = br_rsa_i62_private_get();
	m->vrfy = br_rsa_i62_pkcs1_vrfy_get(); m->sign = br_rsa_i62_pkcs1_sign_get();
	m->pvrfy = br_rsa_i62_pss_vrfy_get(); m->psign = br_rsa_i62_pss_sign_get();
	m->oenc = br_rsa_i62_oaep_encrypt_get(); m->odec = br_rsa_i62_oaep_decrypt_get();
	m->kg = br_rsa_i62_keygen_get();

	m = &IMPLS[4]; m->name = "default"; m->cost = 12;
	m->pub = br_rsa_public_get_default(); m->priv = br_rsa_private_get_default();
	m->vrfy = br_rsa_pkcs1_vrfy_get_default(); m->sign = br_rsa_pkcs1_sign_get_default();
	m->pvrfy = br_rsa_pss_vrfy_get_default(); m->psign = br_rsa_pss_sign_get_default();
	m->oenc = br_rsa_oaep_encrypt_get_default(); m->odec = br_rsa_oaep_decrypt_get_default();
	m->kg = br_rsa_keygen_get_default(); m->cmod = br_rsa_compute_modulus_get_default();
	m->cpub = br_rsa_compute_pubexp_get_default(); m->cpriv = br_rsa_compute_privexp_get_default();
	if (m->pub != IMPLS[3].pub) m->cost = (m->pub == br_rsa_i15_public) ? 100 : 40;
}

/* ------------------------------------------------------------------ */
/* keys */

typedef struct {
	char name[48];
	int bits;
	size_t nlen;
	BIGNUM *n, *e, *d, *p, *q, *dp, *dq, *iq;
	RSA *rsa;
	EVP_PKEY *pkey;
	int m3;                 /* p = q = 3 mod 4 */
	int ebits;
	uint32_t e32;           /* e if it fits 32 bits, else 0 */
} rkey;

/* big-endian encoding of b with lz extra leading zero bytes, exact-size block */
static unsigned char *
bn_buf(const BIGNUM *b, size_t lz, size_t *len)
{
	size_t l = (size_t)BN_num_bytes(b);
	unsigned char *buf = xmalloc(l + lz);
	memset(buf, 0, lz);
	BN_bn2bin(b, buf + lz);
	*len = l + lz;
	return buf;
}

static BIGNUM *
bn_from(const unsigned char *b, size_t len)
{
	BIGNUM *r = BN_bin2bn(b, (int)len, NULL);
	if (!r) HARNESS_FAIL("bn");
	return r;
}

/* finish a key whose n,e,d,p,q,dp,dq,iq are set (takes ownership) */
static void
key_finish(rkey *k)
{
	k->bits = BN_num_bits(k->n);
	k->nlen = (size_t)BN_num_bytes(k->n);
	k->ebits = BN_num_bits(k->e);
	k->e32 = (k->ebits <= 32) ? (uint32_t)BN_get_word(k->e) : 0;
	k->m3 = (BN_is_bit_set(k->p, 0) && BN_is_bit_set(k->p, 1)
		&& BN_is_bit_set(k->q, 0) && BN_is_bit_set(k->q, 1));
	k->rsa = RSA_new();
	if (!RSA_set0_key(k->rsa, BN_dup(k->n), BN_dup(k->e), BN_dup(k->d))
		|| !RSA_set0_factors(k->rsa, BN_dup(k->p), BN_dup(k->q))
		|| !RSA_set0_crt_params(k->rsa, BN_dup(k->dp), BN_dup(k->dq), BN_dup(k->iq)))
		HARNESS_FAIL("rsa-set0");
	k->pkey = EVP_PKEY_new();
	if (!k->pkey || EVP_PKEY_set1_RSA(k->pkey, k->rsa) != 1) HARNESS_FAIL("pkey");
}

static void
key_free(rkey *k)
{
	BN_free(k->n); BN_free(k->e); BN_free(k->d); BN_free(k->p); BN_free(k->q);
	BN_free(k->dp); BN_free(k->dq); BN_free(k->iq);
	RSA_free(k->rsa); EVP_PKEY_free(k->pkey);
	memset(k, 0, sizeof *k);
}

static void
key_load(rkey *k, const char *dir, const char *file)
{
	char path[600];
	unsigned char buf[4096];
	const unsigned char *p = buf;
	size_t len;
	FILE *f;
	RSA *r;
	const BIGNUM *n, *e, *d, *pp, *qq, *dp, *dq, *iq;

	memset(k, 0, sizeof *k);
	snprintf(path, sizeof path, "%s/%s", dir, file);
	f = fopen(path, "rb");
	if (!f) HARNESS_FAIL("fixture-open");
	len = fread(buf, 1, sizeof buf, f);
	fclose(f);
	r = d2i_RSAPrivateKey(NULL, &p, (long)len);
	if (!r) HARNESS_FAIL("fixture-parse");
	RSA_get0_key(r, &n, &e, &d);
	RSA_get0_factors(r, &pp, &qq);
	RSA_get0_crt_params(r, &dp, &dq, &iq);
	k->n = BN_dup(n); k->e = BN_dup(e); k->d = BN_dup(d); k->p = BN_dup(pp); k->q = BN_dup(qq);
	k->dp = BN_dup(dp); k->dq = BN_dup(dq); k->iq = BN_dup(iq);
	RSA_free(r);
	snprintf(k->name, sizeof k->name, "%s", file);
	if (strlen(k->name) > 4) k->name[strlen(k->name) - 4] = 0;   /* strip .der */
	key_finish(k);
}

/* BearSSL-side views of a key; every field in its own exact-size block */
typedef struct {
	br_rsa_public_key pk;
	size_t lzn;             /* leading zero bytes in pk.n */
	char desc[24];
} pkv;

typedef struct {
	br_rsa_private_key sk;
	char desc[40];
} skv;

static void
mk_pk(pkv *v, const rkey *k, size_t lzn, size_t lze)
{
	v->pk.n = bn_buf(k->n, lzn, &v->pk.nlen);
	v->pk.e = bn_buf(k->e, lze, &v->pk.elen);
	v->lzn = lzn;
	snprintf(v->desc, sizeof v->desc, "lzn%u-lze%u", (unsigned)lzn, (unsigned)lze);
}

static void
free_pk(pkv *v)
{
	free(v->pk.n); free(v->pk.e);
}

/* swap: present (q, p, dq, dp, p^-1 mod q); lz[5]: leading zero bytes of p,q,dp,dq,iq */
static void
mk_sk(skv *v, const rkey *k, int swap, const size_t lz[5])
{
	static const size_t nolz[5] = { 0, 0, 0, 0, 0 };
	BIGNUM *iq2 = NULL;
	const BIGNUM *p = k->p, *q = k->q, *dp = k->dp, *dq = k->dq, *iq = k->iq;

	if (!lz) lz = nolz;
	if (swap) {
		iq2 = BN_new();
		if (!BN_mod_inverse(iq2, k->p, k->q, bnctx)) HARNESS_FAIL("modinv");
		p = k->q; q = k->p; dp = k->dq; dq = k->dp; iq = iq2;
	}
	v->sk.n_bitlen = (uint32_t)k->bits;
	v->sk.p = bn_buf(p, lz[0], &v->sk.plen);
	v->sk.q = bn_buf(q, lz[1], &v->sk.qlen);
	v->sk.dp = bn_buf(dp, lz[2], &v->sk.dplen);
	v->sk.dq = bn_buf(dq, lz[3], &v->sk.dqlen);
	v->sk.iq = bn_buf(iq, lz[4], &v->sk.iqlen);
	snprintf(v->desc, sizeof v->desc, "swap%d-lz%u.%u.%u.%u.%u", swap,
		(unsigned)lz[0], (unsigned)lz[1], (unsigned)lz[2], (unsigned)lz[3], (unsigned)lz[4]);
	BN_free(iq2);
}

static void
free_sk(skv *v)
{
	free(v->sk.p); free(v->sk.q); free(v->sk.dp); free(v->sk.dq); free(v->sk.iq);
}

/* variant number j: 0 plain, 1 leading zeros, 2 swapped, 3 swapped + leading zeros */
static void
mk_sk_var(skv *v, const rkey *k, int j)
{
	size_t lz[5] = { 0, 0, 0, 0, 0 };
	int i;
	if (j & 1) {
		for (i = 0; i < 5; i ++) lz[i] = vf_below(&R, 4);
		lz[vf_below(&R, 5)] = 1 + vf_below(&R, 3);
	}
	mk_sk(v, k, (j >> 1) & 1, lz);
}

static void
mk_pk_var(pkv *v, const rkey *k, int j)
{
	if (j & 1) mk_pk(v, k, 1 + vf_below(&R, 3), vf_below(&R, 3));
	else mk_pk(v, k, 0, 0);
}

/* ------------------------------------------------------------------ */
/* reference RSA primitives (OpenSSL BIGNUM) */

/* out (nlen bytes) = in^exp mod n; in may be any length */
static void
ref_modexp(const rkey *k, const BIGNUM *exp, unsigned char *out,
	const unsigned char *in, size_t inlen)
{
	BIGNUM *x = bn_from(in, inlen), *y = BN_new();
	if (!BN_mod_exp(y, x, exp, k->n, bnctx)) HARNESS_FAIL("modexp");
	if (BN_bn2binpad(y, out, (int)k->nlen) != (int)k->nlen) HARNESS_FAIL("binpad");
	BN_free(x); BN_free(y);
}

/* 1 if the nlen-byte string is (as an integer) < n */
static int
below_n(const rkey *k, const unsigned char *x)
{
	BIGNUM *b = bn_from(x, k->nlen);
	int r = BN_cmp(b, k->n) < 0;
	BN_free(b);
	return r;
}

/* s = em^d mod n (forging a "signature" over an arbitrary encoded message).
   Returns 0 if em >= n. */
static int
forge_priv(const rkey *k, unsigned char *s, const unsigned char *em)
{
	if (!below_n(k, em)) return 0;
	if (RSA_private_encrypt((int)k->nlen, em, s, k->rsa, RSA_NO_PADDING) != (int)k->nlen) {
		ERR_clear_error();
		ref_modexp(k, k->d, s, em, k->nlen);
	}
	return 1;
}

/* c = em^e mod n. Returns 0 if em >= n. */
static int
forge_pub(const rkey *k, unsigned char *c, const unsigned char *em)
{
	if (!below_n(k, em)) return 0;
	ref_modexp(k, k->e, c, em, k->nlen);
	return 1;
}

/* random nlen-byte value < n */
static void
rand_below_n(const rkey *k, unsigned char *x)
{
	BIGNUM *b, *r = BN_new();
	vf_bytes(&R, x, k->nlen);
	b = bn_from(x, k->nlen);
	BN_mod(r, b, k->n, bnctx);
	BN_bn2binpad(r, x, (int)k->nlen);
	BN_free(b); BN_free(r);
}

static void
drbg_init(br_hmac_drbg_context *dc)
{
	unsigned char seed[32];
	vf_bytes(&R, seed, sizeof seed);
	br_hmac_drbg_init(dc, &br_sha256_vtable, seed, sizeof seed);
}

/* a different byte value for position alteration; kind selects the style */
static unsigned char
alt_byte(unsigned char v, unsigned kind)
{
	switch (kind % 5) {
	case 0: return v ^ 0x01;
	case 1: return v ^ 0x80;
	case 2: return v ? 0x00 : 0x01;
	case 3: return v == 0xFF ? 0xFE : 0xFF;
	default: return v ^ (unsigned char)vf_range(&R, 1, 255);
	}
}

static void shuffle(size_t *a, size_t n);

/* choose up to max positions in [0,len): all of them if len <= max, else the
   "must" positions first and random ones for the rest. Returns the count. */
static size_t
pick_positions(size_t *pos, size_t len, size_t max, size_t *must, size_t nmust)
{
	unsigned char *mark;
	size_t n = 0, u;
	if (len <= max) {
		for (u = 0; u < len; u ++) pos[u] = u;
		return len;
	}
	mark = xmalloc(len);
	memset(mark, 0, len);
	shuffle((size_t *)must, nmust);
	for (u = 0; u < nmust && n < max; u ++) {
		if (must[u] < len && !mark[must[u]]) { mark[must[u]] = 1; pos[n ++] = must[u]; }
	}
	while (n < max) {
		size_t p = vf_below(&R, (uint32_t)len);
		if (!mark[p]) { mark[p] = 1; pos[n ++] = p; }
	}
	free(mark);
	return n;
}

/* allowance of optional (negative-case) private operations of the current unit */
static long g_allow;

static int
spend(void)
{
	if (g_allow > 0) { g_allow --; return 1; }
	vf_stat("optional_skipped_budget", 1);
	return 0;
}

static void
shuffle(size_t *a, size_t n)
{
	size_t i;
	for (i = n; i > 1; i --) {
		size_t j = vf_below(&R, (uint32_t)i), t = a[i - 1];
		a[i - 1] = a[j]; a[j] = t;
	}
}

/* iteration budget: `g_cases` 512-bit-i15-private-op units, scaled by the cube
   (private) or square (public) of the size and the implementation speed */
static long
budget(const rkey *k, const impl_t *m, int priv, long lo, long hi)
{
	double s = (double)k->bits / 512.0;
	/* public: one verification here + one forging (native OpenSSL private op) */
	double w = priv ? s * s * s * (double)m->cost / 100.0
		: s * s * (double)(k->ebits < 8 ? 8 : k->ebits) / 600.0 * (double)m->cost / 100.0 + s * s * s / 100.0;
	double b = (double)g_cases / w;
	long r = (long)b;
	if (r < lo) r = lo;
	if (r > hi) r = hi;
	return r;
}

/* ------------------------------------------------------------------ */
/* Section RAW: public / private exponentiation vs BN_mod_exp, inverses,
   range / length / parity checks, key field variants */

static void
sec_raw(const rkey *k, const impl_t *m)
{
	long np = budget(k, m, 1, 3, g_tier ? 400 : 40);
	long j;
	size_t nlen = k->nlen;
	unsigned char *x = xmalloc(nlen), *rp = xmalloc(nlen), *rs = xmalloc(nlen);

	if (!m->pub || !m->priv) { vf_stat("impl_unavailable", 1); goto done; }
	for (j = 0; j < np; j ++) {
		pkv pv;
		skv sv;
		unsigned char *b1 = xmalloc(nlen), *b2 = xmalloc(nlen);
		uint32_t r1, r2;

		mk_pk_var(&pv, k, (int)(j & 1));
		mk_sk_var(&sv, k, (int)(j & 3));
		memset(x, 0, nlen);
		switch (j) {
		case 0: break;                                   /* x = 0 */
		case 1: x[nlen - 1] = 1; break;                  /* x = 1 */
		case 2: BN_bn2binpad(k->n, x, (int)nlen); x[nlen - 1] ^= 1; break; /* n-1 (n odd) */
		case 3: x[nlen - 1] = 2; break;
		default: rand_below_n(k, x); break;
		}
		ref_modexp(k, k->e, rp, x, nlen);
		ref_modexp(k, k->d, rs, x, nlen);
		if (j & 1) {
			/* public first, then private on the result */
			memcpy(b1, x, nlen);
			r1 = m->pub(b1, nlen, &pv.pk);
			CMP("raw_pub");
			if (r1 != 1 || memcmp(b1, rp, nlen) != 0)
				rviol("C10:raw:public-vs-bignum", "x^e mod n differs from BN_mod_exp (or returned 0)",
					"%s pk=%s r=%u x=%s", g_ctx, pv.desc, r1, vf_hexs(x, nlen));
			memcpy(b2, rp, nlen);
			r2 = m->priv(b2, &sv.sk);
			CMP("raw_inverse");
			if (r2 != 1 || memcmp(b2, x, nlen) != 0)
				rviol("C10:raw:private-of-public", "private(public(x)) != x",
					"%s sk=%s r=%u x=%s", g_ctx, sv.desc, r2, vf_hexs(x, nlen));
		} else {
			memcpy(b1, x, nlen);
			r1 = m->priv(b1, &sv.sk);
			CMP("raw_priv");
			if (r1 != 1 || memcmp(b1, rs, nlen) != 0)
				rviol("C10:raw:private-vs-bignum", "x^d mod n differs from BN_mod_exp (or returned 0)",
					"%s sk=%s r=%u x=%s", g_ctx, sv.desc, r1, vf_hexs(x, nlen));
			memcpy(b2, rs, nlen);
			r2 = m->pub(b2, nlen, &pv.pk);
			CMP("raw_inverse");
			if (r2 != 1 || memcmp(b2, x, nlen) != 0)
				rviol("C10:raw:public-of-private", "public(private(x)) != x",
					"%s pk=%s r=%u x=%s", g_ctx, pv.desc, r2, vf_hexs(x, nlen));
		}
		vf_distinct("config", "raw/%s/%s/v%d", m->name, k->name, (int)(j & 3));
		if (j == 4) vf_sample("{\"sec\":\"raw\",\"impl\":\"%s\",\"key\":\"%s\",\"x\":\"%s\",\"x^e\":\"%s\"}",
			m->name, k->name, vf_hexs(x, nlen > 32 ? 32 : nlen), vf_hexs(rp, nlen > 32 ? 32 : nlen));
		free(b1); free(b2); free_pk(&pv); free_sk(&sv);
	}

	/* ---- every private key view (plain / leading zeros / p<->q swapped / both) gets at least two
	   random operands, whatever the budget: for the large keys on the slow engines the loop above only
	   reaches x = 0, 1, n-1 */
	{
		int cnt[4] = { 0, 0, 0, 0 }, v;
		for (j = 4; j < np; j ++) cnt[j & 3] ++;
		for (v = 0; v < 4; v ++) {
			while (cnt[v] < 2) {
				skv sv;
				unsigned char *b1 = xmalloc(nlen);
				uint32_t r1;
				mk_sk_var(&sv, k, v);
				rand_below_n(k, x);
				ref_modexp(k, k->d, rs, x, nlen);
				memcpy(b1, x, nlen);
				r1 = m->priv(b1, &sv.sk);
				CMP("raw_priv");
				vf_stat("raw_priv_view_topup", 1);
				if (r1 != 1 || memcmp(b1, rs, nlen) != 0)
					rviol("C10:raw:private-vs-bignum", "x^d mod n differs from BN_mod_exp (or returned 0)",
						"%s sk=%s r=%u x=%s", g_ctx, sv.desc, r1, vf_hexs(x, nlen));
				vf_distinct("config", "raw/%s/%s/v%d", m->name, k->name, v);
				free(b1); free_sk(&sv);
				cnt[v] ++;
			}
		}
	}

	/* ---- public exponent as long as the modulus (documented: "may have arbitrary length"): e := d */
	if (strcmp(k->name, "k512_e65537") == 0 || strcmp(k->name, "k1025_e17_m3") == 0
		|| strcmp(k->name, "k2048_e65537") == 0)
	{
		int v;
		for (v = 0; v < 2; v ++) {
			br_rsa_public_key pe;
			unsigned char *b1 = xmalloc(nlen);
			uint32_t r1;
			pe.n = bn_buf(k->n, v ? 1 : 0, &pe.nlen);
			pe.e = bn_buf(k->d, v ? 2 : 0, &pe.elen);
			rand_below_n(k, x);
			ref_modexp(k, k->d, rs, x, nlen);
			memcpy(b1, x, nlen);
			r1 = m->pub(b1, nlen, &pe);
			CMP("raw_pub_full_exponent");
			if (r1 != 1 || memcmp(b1, rs, nlen) != 0)
				rviol("C10:raw:public-long-exponent", "x^e mod n with an exponent of modulus length differs from BN_mod_exp (or returned 0)",
					"%s variant=%d r=%u elen=%u x=%s", g_ctx, v, r1, (unsigned)pe.elen, vf_hexs(x, nlen));
			vf_distinct("config", "raw-long-e/%s/%s/%d", m->name, k->name, v);
			free(b1); free(pe.n); free(pe.e);
			if (k->bits > 1100) break;      /* one operation for the 2048-bit key */
		}
	}

	/* ---- public: range, length, parity (documented: returns 0) */
	{
		pkv pv, pz;
		unsigned char *b;
		uint32_t r;
		size_t u;
		int v;

		mk_pk(&pv, k, 0, 0);
		mk_pk(&pz, k, 2, 1);
		/* x = n, n+1 (when it fits), all-ones */
		for (v = 0; v < 3; v ++) {
			BIGNUM *t = BN_dup(k->n);
			if (v == 1) BN_add_word(t, 1 + vf_below(&R, 1000));
			b = xmalloc(nlen);
			if (v == 2) memset(b, 0xFF, nlen);
			else if (BN_num_bytes(t) > (int)nlen) { BN_free(t); free(b); continue; }
			else BN_bn2binpad(t, b, (int)nlen);
			BN_free(t);
			r = m->pub(b, nlen, &pv.pk);
			CMP("raw_pub_range");
			if (r != 0)
				rviol("C10:strict:public-x-not-below-n", "public op accepted x >= n",
					"%s variant=%d", g_ctx, v);
			free(b);
		}
		/* wrong xlen: returns 0, x unmodified */
		for (v = 0; v < 3; v ++) {
			size_t xl = v == 0 ? nlen - 1 : v == 1 ? nlen + 1 : nlen + pz.lzn;
			const br_rsa_public_key *pk = v == 2 ? &pz.pk : &pv.pk;
			unsigned char *c;
			b = xmalloc(xl);
			vf_bytes(&R, b, xl);
			b[0] = 0;
			if (v == 2) memset(b, 0, pz.lzn + 1);
			c = vf_dup(b, xl);
			r = pk == &pz.pk ? m->pub(b, xl, pk) : m->pub(b, xl, pk);
			CMP("raw_pub_len");
			if (r != 0 || memcmp(b, c, xl) != 0)
				rviol("C10:strict:public-wrong-length", "public op with xlen != modulus length: nonzero result or x modified",
					"%s variant=%d r=%u", g_ctx, v, r);
			free(b); free(c);
		}
		/* even modulus */
		{
			pkv pe;
			mk_pk(&pe, k, 0, 0);
			pe.pk.n[pe.pk.nlen - 1] ^= 1;
			b = xmalloc(nlen);
			rand_below_n(k, b);
			b[0] = 0;
			r = m->pub(b, nlen, &pe.pk);
			CMP("raw_pub_even");
			if (r != 0)
				rviol("C10:strict:public-even-modulus", "public op returned 1 with an even modulus", "%s", g_ctx);
			free(b); free_pk(&pe);
		}
		/* zero modulus (all-zero bytes) */
		{
			pkv pe;
			mk_pk(&pe, k, 0, 0);
			memset(pe.pk.n, 0, pe.pk.nlen);
			b = xmalloc(nlen);
			memset(b, 0, nlen);
			r = m->pub(b, nlen, &pe.pk);
			CMP("raw_pub_zero_n");
			if (r != 0)
				rviol("C10:strict:public-zero-modulus", "public op returned 1 with a zero modulus", "%s", g_ctx);
			free(b); free_pk(&pe);
		}
		/* oversized modulus (4097..4104 bits): executed, sanitizers armed; result is
		   documented for vrfy/encrypt only, judged there */
		{
			br_rsa_public_key pe;
			size_t bl = (BR_MAX_RSA_SIZE >> 3) + 1 + vf_below(&R, 3);
			pe.n = xmalloc(bl); pe.nlen = bl;
			vf_bytes(&R, pe.n, bl);
			pe.n[0] |= 0x01; pe.n[bl - 1] |= 1;
			pe.e = bn_buf(k->e, 0, &pe.elen);
			b = xmalloc(bl);
			vf_bytes(&R, b, bl);
			b[0] = 0;
			r = m->pub(b, bl, &pe);
			vf_stat("unjudged_pub_oversized", 1);
			vf_stat(r ? "unjudged_pub_oversized_ret1" : "unjudged_pub_oversized_ret0", 1);
			free(b); free(pe.n); free(pe.e);
		}
		(void)u;
		free_pk(&pv); free_pk(&pz);
	}

	/* ---- private: even factor => 0, x >= n => 0 (property statement); a wrong
	   n_bitlen is outside the documented contract: executed, not judged */
	{
		skv sv;
		unsigned char *b;
		uint32_t r;
		int v;

		g_allow = budget(k, m, 1, 3, 6);
		for (v = 0; v < 2; v ++) {
			/* p' = p - 1 (even) or q' = q - 1; n' = p'q'; x < n' */
			BIGNUM *pp = BN_dup(k->p), *qq = BN_dup(k->q), *nn = BN_new(), *xx = BN_new();
			size_t l, xl;
			if (g_allow < 5 && v != (int)((g_seed + (unsigned)g_unit) & 1)) { BN_free(pp); BN_free(qq); BN_free(nn); BN_free(xx); continue; }
			if (!spend()) { BN_free(pp); BN_free(qq); BN_free(nn); BN_free(xx); continue; }
			mk_sk(&sv, k, 0, NULL);
			if (v == 0) { BN_sub_word(pp, 1); free(sv.sk.p); sv.sk.p = bn_buf(pp, 0, &l); sv.sk.plen = l; }
			else { BN_sub_word(qq, 1); free(sv.sk.q); sv.sk.q = bn_buf(qq, 0, &l); sv.sk.qlen = l; }
			BN_mul(nn, pp, qq, bnctx);
			sv.sk.n_bitlen = (uint32_t)BN_num_bits(nn);
			xl = (sv.sk.n_bitlen + 7) >> 3;
			b = xmalloc(xl);
			vf_bytes(&R, b, xl);
			BN_bin2bn(b, (int)xl, xx);
			BN_mod(xx, xx, nn, bnctx);
			BN_bn2binpad(xx, b, (int)xl);
			r = m->priv(b, &sv.sk);
			CMP("raw_priv_even");
			if (r != 0)
				rviol("C10:strict:private-even-factor", "private op returned 1 with an even factor",
					"%s which=%s", g_ctx, v ? "q" : "p");
			free(b); free_sk(&sv);
			BN_free(pp); BN_free(qq); BN_free(nn); BN_free(xx);
		}
		/* x = n, n + small (when it fits), all-ones: the property statement requires values not below
		   the modulus to be rejected (bearssl_rsa.h: "0 on error"; OAEP / TLS decryption rely on this result) */
		mk_sk_var(&sv, k, (int)((g_seed + (unsigned)g_unit) & 3));
		b = xmalloc(nlen);
		for (v = 0; v < 3; v ++) {
			BIGNUM *t = BN_dup(k->n);
			if (v == 1) {
				if (!spend()) { BN_free(t); continue; }
				BN_add_word(t, 1 + vf_below(&R, 1000));
			}
			if (v == 2) memset(b, 0xFF, nlen);
			else if (BN_num_bytes(t) > (int)nlen) { BN_free(t); continue; }
			else BN_bn2binpad(t, b, (int)nlen);
			BN_free(t);
			r = m->priv(b, &sv.sk);
			CMP("raw_priv_range");
			if (r != 0)
				rviol("C10:strict:private-x-not-below-n", "private op returned 1 for x >= n",
					"%s sk=%s variant=%d", g_ctx, sv.desc, v);
		}
		free_sk(&sv);
		mk_sk(&sv, k, 0, NULL);
		/* n_bitlen off by one but same byte length */
		if ((k->bits & 7) != 1 && (k->bits & 7) != 0 && g_allow >= 2) {
			rand_below_n(k, b);
			b[0] = 0;
			sv.sk.n_bitlen = (uint32_t)k->bits - 1;
			(void)m->priv(b, &sv.sk);
			sv.sk.n_bitlen = (uint32_t)k->bits + 1;
			(void)m->priv(b, &sv.sk);
			vf_stat("unjudged_priv_wrong_bitlen", 2);
		}
		free(b); free_sk(&sv);
	}
done:
	free(x); free(rp); free(rs);
}

/* ------------------------------------------------------------------ */
/* Section P1: PKCS#1 v1.5 signatures */

/* DigestInfo prefix T for (oid, hlen); form 0 = with NULL parameters, 1 = without.
   For oid == NULL (TLS <= 1.1 form) T is empty. Returns its length. */
static size_t
ref_p1_prefix(unsigned char *t, const unsigned char *oid, size_t hlen, int form)
{
	size_t x3, u = 0;
	if (!oid) return 0;
	x3 = oid[0];
	t[u ++] = 0x30; t[u ++] = (unsigned char)(x3 + hlen + (form ? 6 : 8));
	t[u ++] = 0x30; t[u ++] = (unsigned char)(x3 + (form ? 2 : 4));
	t[u ++] = 0x06; t[u ++] = (unsigned char)x3;
	memcpy(t + u, oid + 1, x3); u += x3;
	if (!form) { t[u ++] = 0x05; t[u ++] = 0x00; }
	t[u ++] = 0x04; t[u ++] = (unsigned char)hlen;
	return u;
}

/* EMSA-PKCS1-v1_5 encoding; returns 0 if the modulus is too short (PS < 8) */
static int
ref_p1_encode(unsigned char *em, size_t k, const unsigned char *oid,
	const unsigned char *hash, size_t hlen, int form)
{
	unsigned char t[64];
	size_t tl = ref_p1_prefix(t, oid, hlen, form);
	if (k < tl + hlen + 11) return 0;
	em[0] = 0x00; em[1] = 0x01;
	memset(em + 2, 0xFF, k - tl - hlen - 3);
	em[k - tl - hlen - 1] = 0x00;
	memcpy(em + k - tl - hlen, t, tl);
	memcpy(em + k - hlen, hash, hlen);
	return 1;
}

/* model of verification: em is accepted iff it is exactly the canonical
   encoding (either DigestInfo form) of its own last hlen bytes */
static int
ref_p1_accepts(const unsigned char *em, size_t k, const unsigned char *oid, size_t hlen)
{
	unsigned char *t;
	int form, ok = 0;
	if (k < hlen) return 0;
	t = xmalloc(k);
	for (form = 0; form < (oid ? 2 : 1) && !ok; form ++) {
		if (ref_p1_encode(t, k, oid, em + k - hlen, hlen, form) && memcmp(t, em, k) == 0) ok = 1;
	}
	free(t);
	return ok;
}

static void
p1_check_vrfy(const rkey *k, const impl_t *m, const br_rsa_public_key *pk,
	const unsigned char *sig, size_t siglen, const hdesc *h,
	int expect, const unsigned char *exp_hash, const char *key, const char *what)
{
	unsigned char *s = vf_dup(sig, siglen), *ho = xmalloc(h->hlen);
	uint32_t r;
	memset(ho, 0xA5, h->hlen);
	r = m->vrfy(s, siglen, h->oid, h->hlen, pk, ho);
	if (memcmp(s, sig, siglen) != 0)
		rviol("C10:p1:vrfy-modified-signature", "pkcs1_vrfy modified its input signature", "%s hash=%s", g_ctx, h->name);
	if ((r != 0) != (expect != 0) || (r != 0 && r != 1)
		|| (expect && memcmp(ho, exp_hash, h->hlen) != 0))
		rviol(key, what, "%s hash=%s expect=%d got=%u hash_out=%s sig=%s", g_ctx, h->name, expect, r,
			vf_hexs(ho, h->hlen), vf_hexs(sig, siglen));
	(void)k;
	free(s); free(ho);
}

static void
sec_p1(const rkey *k, const impl_t *m)
{
	size_t nlen = k->nlen;
	long npos = budget(k, m, 0, 24, g_tier ? 1200 : 150);
	int hi, nvar = 0, nfull = 0;
	pkv pv, pz;
	unsigned char *em = xmalloc(nlen), *sig = xmalloc(nlen), *ref = xmalloc(nlen), *em2 = xmalloc(nlen);
	size_t *pos = xmalloc((nlen + 1) * sizeof *pos);

	if (!m->sign || !m->vrfy) { vf_stat("impl_unavailable", 1); goto done; }
	mk_pk(&pv, k, 0, 0);
	mk_pk(&pz, k, 1 + vf_below(&R, 3), vf_below(&R, 2));
	/* hash functions to run: all 7 when cheap, else a rotating subset (always the TLS form or sha256) */
	for (hi = 0; hi < NHASH_P1; hi ++) {
		const hdesc *h = &HASHES[hi];
		unsigned char hv[64], t[64];
		size_t tl = ref_p1_prefix(t, h->oid, h->hlen, 0);
		unsigned int sl = 0;
		uint32_t r;
		skv sv;
		int fits = nlen >= tl + h->hlen + 11;
		long heavy = budget(k, m, 1, 0, 1000);

		/* budget: with < 7 private ops available, run (unit + hi) % 7 < heavy hashes */
		if (heavy < NHASH_P1 && (long)((unsigned)(g_unit + hi) % NHASH_P1) >= (heavy < 2 ? 2 : heavy)) {
			vf_stat("p1_hash_skipped_budget", 1);
			continue;
		}
		vf_bytes(&R, hv, h->hlen);
		mk_sk_var(&sv, k, nvar ++ & 3);
		{
			unsigned char *so = xmalloc(nlen);
			memset(so, 0x5A, nlen);
			r = m->sign(h->oid, hv, h->hlen, &sv.sk, so);
			memcpy(sig, so, nlen);
			free(so);
		}
		if (!fits) {
			CMP("p1_too_small");
			if (r != 0)
				rviol("C10:p1:sign-modulus-too-small", "pkcs1_sign succeeded although < 8 padding bytes fit",
					"%s hash=%s", g_ctx, h->name);
			free_sk(&sv);
			continue;
		}
		if (RSA_sign(h->nid, hv, (unsigned)h->hlen, ref, &sl, k->rsa) != 1 || sl != nlen) HARNESS_FAIL("RSA_sign");
		CMP("p1_sign_identical");
		if (r != 1 || memcmp(sig, ref, nlen) != 0)
			rviol("C10:p1:sign-vs-openssl", "pkcs1_sign output differs from OpenSSL RSA_sign (deterministic scheme) or returned 0",
				"%s hash=%s sk=%s r=%u hv=%s got=%s", g_ctx, h->name, sv.desc, r, vf_hexs(hv, h->hlen), vf_hexs(sig, nlen));
		CMP("p1_openssl_verifies");
		if (r == 1 && RSA_verify(h->nid, hv, (unsigned)h->hlen, sig, (unsigned)nlen, k->rsa) != 1) {
			ERR_clear_error();
			rviol("C10:p1:openssl-rejects", "OpenSSL RSA_verify rejects a signature made here",
				"%s hash=%s hv=%s", g_ctx, h->name, vf_hexs(hv, h->hlen));
		}
		free_sk(&sv);
		/* more signatures (random hash values, all private key views) while the budget lasts */
		{
			long extra = heavy / NHASH_P1, x;
			if (extra > (g_tier ? 40 : 6)) extra = g_tier ? 40 : 6;
			for (x = 0; x < extra; x ++) {
				unsigned char hv2[64], *so = xmalloc(nlen);
				vf_bytes(&R, hv2, h->hlen);
				mk_sk_var(&sv, k, nvar ++ & 3);
				r = m->sign(h->oid, hv2, h->hlen, &sv.sk, so);
				if (RSA_sign(h->nid, hv2, (unsigned)h->hlen, em2, &sl, k->rsa) != 1 || sl != nlen) HARNESS_FAIL("RSA_sign");
				CMP("p1_sign_identical");
				if (r != 1 || memcmp(so, em2, nlen) != 0)
					rviol("C10:p1:sign-vs-openssl", "pkcs1_sign output differs from OpenSSL RSA_sign (deterministic scheme) or returned 0",
						"%s hash=%s sk=%s r=%u hv=%s got=%s", g_ctx, h->name, sv.desc, r, vf_hexs(hv2, h->hlen), vf_hexs(so, nlen));
				free(so); free_sk(&sv);
			}
		}
		vf_distinct("config", "p1/%s/%s/%s", m->name, k->name, h->name);
		if (hi == 3) vf_sample("{\"sec\":\"p1\",\"impl\":\"%s\",\"key\":\"%s\",\"hash\":\"%s\",\"hv\":\"%s\",\"sig\":\"%s\"}",
			m->name, k->name, h->name, vf_hexs(hv, h->hlen), vf_hexs(ref, nlen > 48 ? 48 : nlen));

		/* OpenSSL's signature verifies here; also with leading zeros in n */
		CMP("p1_vrfy_openssl_sig");
		p1_check_vrfy(k, m, &pv.pk, ref, nlen, h, 1, hv, "C10:p1:vrfy-rejects-openssl", "pkcs1_vrfy rejects / mis-extracts an OpenSSL signature");
		CMP("p1_vrfy_leading_zero_n");
		p1_check_vrfy(k, m, &pz.pk, ref, nlen, h, 1, hv, "C10:p1:vrfy-leading-zero-n", "pkcs1_vrfy with leading zero bytes in n differs");

		/* harness self-check: own encoder == OpenSSL's */
		if (!ref_p1_encode(em, nlen, h->oid, hv, h->hlen, 0) || !forge_priv(k, em2, em)
			|| memcmp(em2, ref, nlen) != 0) HARNESS_FAIL("p1-encoder-vs-openssl");

		/* second DigestInfo form (no NULL) */
		if (h->oid && ref_p1_encode(em2, nlen, h->oid, hv, h->hlen, 1) && forge_priv(k, sig, em2)) {
			CMP("p1_vrfy_no_null_form");
			p1_check_vrfy(k, m, &pv.pk, sig, nlen, h, 1, hv, "C10:p1:vrfy-rejects-no-null-form", "pkcs1_vrfy rejects the DigestInfo form without NULL parameters");
		}

		/* wrong lengths, value not below n */
		{
			unsigned char *b = xmalloc(nlen + 1);
			BIGNUM *s = bn_from(ref, nlen);
			memcpy(b, ref, nlen - 1);
			CMP("p1_strict_len");
			p1_check_vrfy(k, m, &pv.pk, ref + 1, nlen - 1, h, 0, NULL, "C10:strict:p1-wrong-length", "pkcs1_vrfy accepted a signature of wrong length");
			b[0] = 0; memcpy(b + 1, ref, nlen);
			CMP("p1_strict_len");
			p1_check_vrfy(k, m, &pv.pk, b, nlen + 1, h, 0, NULL, "C10:strict:p1-wrong-length", "pkcs1_vrfy accepted a signature of wrong length");
			CMP("p1_strict_len");
			p1_check_vrfy(k, m, &pz.pk, b, nlen + 1, h, 0, NULL, "C10:strict:p1-wrong-length", "pkcs1_vrfy accepted a signature of wrong length");
			BN_add(s, s, k->n);
			if (BN_num_bytes(s) <= (int)nlen) {
				BN_bn2binpad(s, b, (int)nlen);
				CMP("p1_strict_s_plus_n");
				p1_check_vrfy(k, m, &pv.pk, b, nlen, h, 0, NULL, "C10:strict:p1-sig-not-below-n", "pkcs1_vrfy accepted s + n");
			}
			BN_free(s); free(b);
		}

		/* hash value not at the right end / fewer FF bytes with trailing garbage */
		if (nlen >= tl + h->hlen + 11 + 4) {
			size_t g = 1 + vf_below(&R, (uint32_t)(nlen - (tl + h->hlen + 11)));
			memset(em2, 0, nlen);
			ref_p1_encode(em2, nlen - g, h->oid, hv, h->hlen, 0);
			vf_bytes(&R, em2 + nlen - g, g);
			if (forge_priv(k, sig, em2)) {
				int exp = ref_p1_accepts(em2, nlen, h->oid, h->hlen);
				CMP("p1_strict_trailing_garbage");
				p1_check_vrfy(k, m, &pv.pk, sig, nlen, h, exp, em2 + nlen - h->hlen, "C10:strict:p1-trailing-garbage", "pkcs1_vrfy accepted an encoding with bytes after the hash");
			}
		}

		/* every (or a sample of) byte position(s) of EM altered */
		{
			size_t must[80], nm = 0, np_, u, sep = nlen - tl - h->hlen - 1;
			for (u = 0; u < 11; u ++) must[nm ++] = u;
			for (u = sep - 1; u < sep + tl + 2 && u < nlen && nm < 78; u ++) must[nm ++] = u;
			must[nm ++] = nlen - 1;
			/* thorough: every position for the first hash of the unit */
			np_ = pick_positions(pos, nlen, (g_tier && nfull ++ == 0) ? nlen : (size_t)npos, must, nm);
			for (u = 0; u < np_; u ++) {
				int a, na = (g_tier && np_ < nlen) ? 3 : 1;
				for (a = 0; a < na; a ++) {
					int exp;
					memcpy(em2, em, nlen);
					em2[pos[u]] = alt_byte(em[pos[u]], (unsigned)(u + (size_t)a * 2 + (size_t)hi));
					if (!forge_priv(k, sig, em2)) { vf_stat("forge_skipped_ge_n", 1); continue; }
					exp = ref_p1_accepts(em2, nlen, h->oid, h->hlen);
					CMP("p1_strict_altered_byte");
					vf_stat(exp ? "p1_altered_expect_accept" : "p1_altered_expect_reject", 1);
					p1_check_vrfy(k, m, &pv.pk, sig, nlen, h, exp, em2 + nlen - h->hlen,
						exp ? "C10:p1:vrfy-altered-hash-byte" : "C10:strict:p1-altered-byte",
						exp ? "pkcs1_vrfy rejected / mis-extracted a canonical encoding of another hash value"
						    : "pkcs1_vrfy accepted an encoding with an altered padding/DigestInfo byte");
				}
			}
			vf_max("p1_positions_per_em", (long long)np_);
		}
	}

	/* oversized modulus: documented to return 0 */
	{
		br_rsa_public_key pe;
		const hdesc *h = &HASHES[3];
		size_t bl = (BR_MAX_RSA_SIZE >> 3) + 1;
		unsigned char *b = xmalloc(bl), *ho = xmalloc(h->hlen);
		uint32_t r;
		pe.n = xmalloc(bl); pe.nlen = bl;
		vf_bytes(&R, pe.n, bl);
		pe.n[0] = 0x01; pe.n[bl - 1] |= 1;
		pe.e = bn_buf(k->e, 0, &pe.elen);
		vf_bytes(&R, b, bl);
		b[0] = 0;
		r = m->vrfy(b, bl, h->oid, h->hlen, &pe, ho);
		CMP("p1_oversized_modulus");
		if (r != 0)
			rviol("C10:strict:p1-oversized-modulus", "pkcs1_vrfy returned 1 with a 4097-bit modulus", "%s", g_ctx);
		free(b); free(ho); free(pe.n); free(pe.e);
	}
	free_pk(&pv); free_pk(&pz);
done:
	free(em); free(sig); free(ref); free(em2); free(pos);
}

/* ------------------------------------------------------------------ */
/* Section PSS */

/* EMSA-PSS-ENCODE (RFC 8017 9.1.1) into the nlen-byte string em (with the
   leading zero byte when emLen < nlen). Returns 0 if it does not fit. */
static int
ref_pss_encode(unsigned char *em, const rkey *k, const hdesc *hf, const hdesc *mgf,
	const unsigned char *mhash, const unsigned char *salt, size_t slen)
{
	static const unsigned char z8[8] = { 0 };
	size_t embits = (size_t)k->bits - 1, emlen = (embits + 7) >> 3, hl = hf->hlen;
	unsigned char *e = em + (k->nlen - emlen), *H;
	size_t dbl;

	if (emlen < hl + slen + 2) return 0;
	memset(em, 0, k->nlen);
	dbl = emlen - hl - 1;
	H = e + dbl;
	ref_hash(hf, H, z8, 8, mhash, hl, salt, slen);
	e[dbl - slen - 1] = 0x01;
	memcpy(e + dbl - slen, salt, slen);
	ref_mgf1_xor(mgf, e, dbl, H, hl);
	e[0] &= (unsigned char)(0xFF >> (8 * emlen - embits));
	e[emlen - 1] = 0xBC;
	return 1;
}

static EVP_PKEY_CTX *
pss_ctx(const rkey *k, int sign, const hdesc *hf, const hdesc *mgf, size_t slen)
{
	EVP_PKEY_CTX *c = EVP_PKEY_CTX_new(k->pkey, NULL);
	if (!c || (sign ? EVP_PKEY_sign_init(c) : EVP_PKEY_verify_init(c)) != 1
		|| EVP_PKEY_CTX_set_rsa_padding(c, RSA_PKCS1_PSS_PADDING) != 1
		|| EVP_PKEY_CTX_set_signature_md(c, hf->mdf()) != 1
		|| EVP_PKEY_CTX_set_rsa_mgf1_md(c, mgf->mdf()) != 1
		|| EVP_PKEY_CTX_set_rsa_pss_saltlen(c, (int)slen) != 1)
		HARNESS_FAIL("pss-ctx");
	return c;
}

static void
pss_check_vrfy(const impl_t *m, const br_rsa_public_key *pk, const unsigned char *sig, size_t siglen,
	const hdesc *hf, const hdesc *mgf, const unsigned char *mhash, size_t slen,
	int expect, const char *key, const char *what)
{
	unsigned char *s = vf_dup(sig, siglen), *hh = vf_dup(mhash, hf->hlen);
	uint32_t r = m->pvrfy(s, siglen, hf->bc, mgf->bc, hh, slen, pk);
	if (memcmp(s, sig, siglen) != 0)
		rviol("C10:pss:vrfy-modified-signature", "pss_vrfy modified its input signature", "%s", g_ctx);
	if ((r != 0) != (expect != 0) || (r != 0 && r != 1))
		rviol(key, what, "%s hf=%s mgf=%s slen=%u expect=%d got=%u mhash=%s sig=%s", g_ctx, hf->name, mgf->name,
			(unsigned)slen, expect, r, vf_hexs(mhash, hf->hlen), vf_hexs(sig, siglen));
	free(s); free(hh);
}

static void
sec_pss(const rkey *k, const impl_t *m)
{
	size_t nlen = k->nlen, emlen = ((size_t)k->bits + 6) >> 3;
	long ncombo = budget(k, m, 1, 2, g_tier ? 72 : 12);
	long npos = budget(k, m, 0, 16, g_tier ? 1200 : 100);
	long it;
	int nfull = 0;
	pkv pv, pz;
	unsigned char *sig = xmalloc(nlen), *em = xmalloc(nlen), *em2 = xmalloc(nlen), *osig = xmalloc(nlen);
	size_t *pos = xmalloc((nlen + 1) * sizeof *pos);
	br_hmac_drbg_context dc;

	if (!m->psign || !m->pvrfy) { vf_stat("impl_unavailable", 1); goto done; }
	mk_pk(&pv, k, 0, 0);
	mk_pk(&pz, k, 1 + vf_below(&R, 3), vf_below(&R, 2));
	drbg_init(&dc);
	for (it = 0; it < ncombo; it ++) {
		/* enumerate the 36 (hf, mgf) pairs in an order that depends on the unit */
		unsigned pi = (unsigned)((unsigned long)it * 7 + (unsigned)g_unit * 5) % 36;
		const hdesc *hf = &HASHES[pi / 6], *mgf = &HASHES[pi % 6];
		unsigned char mh[64], salt[600];
		long maxs = (long)emlen - (long)hf->hlen - 2;
		size_t slen;
		uint32_t r;
		skv sv;
		unsigned char *so;

		vf_bytes(&R, mh, hf->hlen);
		mk_sk_var(&sv, k, (int)(it & 3));
		so = xmalloc(nlen);
		if (maxs < 0) {
			/* modulus too small for this hash: both directions must fail */
			r = m->psign(&dc.vtable, hf->bc, mgf->bc, mh, 0, &sv.sk, so);
			CMP("pss_too_small");
			if (r != 0)
				rviol("C10:pss:sign-modulus-too-small", "pss_sign succeeded although hash+salt+2 > emLen",
					"%s hf=%s slen=0", g_ctx, hf->name);
			vf_bytes(&R, so, nlen); so[0] = 0;
			CMP("pss_too_small");
			pss_check_vrfy(m, &pv.pk, so, nlen, hf, mgf, mh, 0, 0, "C10:strict:pss-modulus-too-small", "pss_vrfy accepted although hash+salt+2 > emLen");
			free(so); free_sk(&sv);
			continue;
		}
		switch (it % 5) {
		case 0: slen = hf->hlen; break;
		case 1: slen = 0; break;
		case 2: slen = (size_t)maxs; break;
		default: slen = vf_range(&R, 0, (uint32_t)maxs); break;
		}
		if ((long)slen > maxs) slen = (size_t)maxs;
		vf_distinct("config", "pss/%s/%s/%s/%s/s%u", m->name, k->name, hf->name, mgf->name,
			slen == 0 ? 0u : slen == (size_t)maxs ? 9999u : slen == hf->hlen ? 1u : 2u);

		/* salt too long by one: sign and verify fail */
		r = m->psign(&dc.vtable, hf->bc, mgf->bc, mh, (size_t)maxs + 1, &sv.sk, so);
		CMP("pss_too_small");
		if (r != 0)
			rviol("C10:pss:sign-modulus-too-small", "pss_sign succeeded although hash+salt+2 > emLen",
				"%s hf=%s slen=%ld", g_ctx, hf->name, maxs + 1);

		/* made here -> verified by OpenSSL and here */
		memset(so, 0x5A, nlen);
		r = m->psign(slen == 0 && (it & 8) ? NULL : &dc.vtable, hf->bc, mgf->bc, mh, slen, &sv.sk, so);
		memcpy(sig, so, nlen);
		free(so);
		CMP("pss_sign_openssl_verifies");
		{
			EVP_PKEY_CTX *c = pss_ctx(k, 0, hf, mgf, slen);
			int v = r == 1 ? EVP_PKEY_verify(c, sig, nlen, mh, hf->hlen) : -2;
			EVP_PKEY_CTX_free(c);
			if (v != 1) {
				ERR_clear_error();
				rviol("C10:pss:openssl-rejects", "OpenSSL rejects a PSS signature made here (or pss_sign returned 0)",
					"%s hf=%s mgf=%s slen=%u sk=%s r=%u v=%d mhash=%s sig=%s", g_ctx, hf->name, mgf->name, (unsigned)slen,
					sv.desc, r, v, vf_hexs(mh, hf->hlen), vf_hexs(sig, nlen));
			}
		}
		free_sk(&sv);
		if (r == 1) {
			CMP("pss_roundtrip");
			pss_check_vrfy(m, &pv.pk, sig, nlen, hf, mgf, mh, slen, 1, "C10:pss:roundtrip", "pss_vrfy rejects a signature made by pss_sign");
		}

		/* made by OpenSSL -> verified here (plain n and n with leading zeros) */
		{
			EVP_PKEY_CTX *c = pss_ctx(k, 1, hf, mgf, slen);
			size_t ol = nlen;
			if (EVP_PKEY_sign(c, osig, &ol, mh, hf->hlen) != 1 || ol != nlen) HARNESS_FAIL("pss-openssl-sign");
			EVP_PKEY_CTX_free(c);
		}
		CMP("pss_vrfy_openssl_sig");
		pss_check_vrfy(m, &pv.pk, osig, nlen, hf, mgf, mh, slen, 1, "C10:pss:vrfy-rejects-openssl", "pss_vrfy rejects an OpenSSL PSS signature");
		CMP("pss_vrfy_leading_zero_n");
		pss_check_vrfy(m, &pz.pk, osig, nlen, hf, mgf, mh, slen, 1, "C10:pss:vrfy-leading-zero-n", "pss_vrfy with leading zero bytes in n differs");
		if (it == 0) vf_sample("{\"sec\":\"pss\",\"impl\":\"%s\",\"key\":\"%s\",\"hf\":\"%s\",\"mgf\":\"%s\",\"slen\":%u,\"mhash\":\"%s\"}",
			m->name, k->name, hf->name, mgf->name, (unsigned)slen, vf_hexs(mh, hf->hlen));

		/* wrong parameters on a good signature */
		{
			unsigned char mh2[64];
			memcpy(mh2, mh, hf->hlen);
			mh2[vf_below(&R, (uint32_t)hf->hlen)] ^= (unsigned char)(1u << vf_below(&R, 8));
			CMP("pss_strict_params");
			pss_check_vrfy(m, &pv.pk, osig, nlen, hf, mgf, mh2, slen, 0, "C10:strict:pss-wrong-hash", "pss_vrfy accepted with a different message hash");
			if ((long)slen < maxs) {
				CMP("pss_strict_params");
				pss_check_vrfy(m, &pv.pk, osig, nlen, hf, mgf, mh, slen + 1, 0, "C10:strict:pss-wrong-salt-length", "pss_vrfy accepted with salt length + 1");
			}
			if (slen > 0) {
				CMP("pss_strict_params");
				pss_check_vrfy(m, &pv.pk, osig, nlen, hf, mgf, mh, slen - 1, 0, "C10:strict:pss-wrong-salt-length", "pss_vrfy accepted with salt length - 1");
			}
			if (mgf != &HASHES[3]) {
				CMP("pss_strict_params");
				pss_check_vrfy(m, &pv.pk, osig, nlen, hf, mgf == &HASHES[3] ? &HASHES[1] : &HASHES[3], mh, slen, 0,
					"C10:strict:pss-wrong-mgf-hash", "pss_vrfy accepted with another MGF1 hash");
			}
			CMP("pss_strict_len");
			pss_check_vrfy(m, &pv.pk, osig + 1, nlen - 1, hf, mgf, mh, slen, 0, "C10:strict:pss-wrong-length", "pss_vrfy accepted a signature of wrong length");
			{
				unsigned char *b = xmalloc(nlen + 1);
				BIGNUM *s = bn_from(osig, nlen);
				b[0] = 0; memcpy(b + 1, osig, nlen);
				CMP("pss_strict_len");
				pss_check_vrfy(m, &pv.pk, b, nlen + 1, hf, mgf, mh, slen, 0, "C10:strict:pss-wrong-length", "pss_vrfy accepted a signature of wrong length");
				BN_add(s, s, k->n);
				if (BN_num_bytes(s) <= (int)nlen) {
					BN_bn2binpad(s, b, (int)nlen);
					CMP("pss_strict_s_plus_n");
					pss_check_vrfy(m, &pv.pk, b, nlen, hf, mgf, mh, slen, 0, "C10:strict:pss-sig-not-below-n", "pss_vrfy accepted s + n");
				}
				BN_free(s); free(b);
			}
		}

		/* forged encodings: own encoder accepted; any altered byte rejected */
		vf_bytes(&R, salt, slen);
		if (!ref_pss_encode(em, k, hf, mgf, mh, salt, slen)) HARNESS_FAIL("pss-encode");
		if (!forge_priv(k, sig, em)) HARNESS_FAIL("pss-em-ge-n");
		{
			/* harness self-check against OpenSSL */
			EVP_PKEY_CTX *c = pss_ctx(k, 0, hf, mgf, slen);
			if (EVP_PKEY_verify(c, sig, nlen, mh, hf->hlen) != 1) HARNESS_FAIL("pss-encoder-vs-openssl");
			EVP_PKEY_CTX_free(c);
		}
		CMP("pss_vrfy_own_encoding");
		pss_check_vrfy(m, &pv.pk, sig, nlen, hf, mgf, mh, slen, 1, "C10:pss:vrfy-rejects-rfc8017-encoding", "pss_vrfy rejects a valid RFC 8017 EMSA-PSS encoding");
		{
			size_t must[16], nm = 0, np_, u, off = nlen - emlen, dbl = emlen - hf->hlen - 1;
			must[nm ++] = 0; must[nm ++] = off; must[nm ++] = nlen - 1; must[nm ++] = nlen - 2;
			must[nm ++] = off + dbl; must[nm ++] = off + dbl - 1;
			must[nm ++] = off + dbl - slen - 1; must[nm ++] = off + (dbl - slen - 1) / 2;
			np_ = pick_positions(pos, nlen, (g_tier && nfull ++ == 0) ? nlen : (size_t)(npos / (ncombo > 4 ? 4 : 1) + 8), must, nm);
			for (u = 0; u < np_; u ++) {
				memcpy(em2, em, nlen);
				em2[pos[u]] = alt_byte(em[pos[u]], (unsigned)(u + (size_t)it));
				if (!forge_priv(k, sig, em2)) { vf_stat("forge_skipped_ge_n", 1); continue; }
				CMP("pss_strict_altered_byte");
				pss_check_vrfy(m, &pv.pk, sig, nlen, hf, mgf, mh, slen, 0, "C10:strict:pss-altered-byte", "pss_vrfy accepted an encoding with one altered byte");
			}
			/* unused top bits set before masking is part of the above (byte `off`) */
			vf_max("pss_positions_per_em", (long long)np_);
		}
	}
	/* oversized modulus */
	{
		br_rsa_public_key pe;
		const hdesc *h = &HASHES[3];
		size_t bl = (BR_MAX_RSA_SIZE >> 3) + 1;
		unsigned char *b = xmalloc(bl), mh[32];
		uint32_t r;
		pe.n = xmalloc(bl); pe.nlen = bl;
		vf_bytes(&R, pe.n, bl);
		pe.n[0] = 0x01; pe.n[bl - 1] |= 1;
		pe.e = bn_buf(k->e, 0, &pe.elen);
		vf_bytes(&R, b, bl); vf_bytes(&R, mh, 32);
		b[0] = 0;
		r = m->pvrfy(b, bl, h->bc, h->bc, mh, 32, &pe);
		CMP("pss_oversized_modulus");
		if (r != 0)
			rviol("C10:strict:pss-oversized-modulus", "pss_vrfy returned 1 with a 4097-bit modulus", "%s", g_ctx);
		free(b); free(pe.n); free(pe.e);
	}
	free_pk(&pv); free_pk(&pz);
done:
	free(sig); free(em); free(em2); free(osig); free(pos);
}

/* ------------------------------------------------------------------ */
/* Section OAEP */

/* EM = Y || maskedSeed || maskedDB from the unmasked parts (db has k-h-1 bytes) */
static void
ref_oaep_mask(unsigned char *em, size_t k, const hdesc *h, unsigned char y,
	const unsigned char *seed, const unsigned char *db)
{
	size_t hl = h->hlen, dbl = k - hl - 1;
	em[0] = y;
	memcpy(em + 1, seed, hl);
	memcpy(em + 1 + hl, db, dbl);
	ref_mgf1_xor(h, em + 1 + hl, dbl, seed, hl);
	ref_mgf1_xor(h, em + 1, hl, em + 1 + hl, dbl);
}

/* DB = lHash || PS || 01 || M */
static void
ref_oaep_db(unsigned char *db, size_t k, const hdesc *h, const unsigned char *label, size_t llen,
	const unsigned char *msg, size_t mlen)
{
	size_t hl = h->hlen, dbl = k - hl - 1;
	memset(db, 0, dbl);
	ref_hash(h, db, label, llen, NULL, 0, NULL, 0);
	db[dbl - mlen - 1] = 0x01;
	memcpy(db + dbl - mlen, msg, mlen);
}

/* RFC 8017 7.1.2 step 3: returns 1 and the message, or 0 */
static int
ref_oaep_decode(const unsigned char *em, size_t k, const hdesc *h,
	const unsigned char *label, size_t llen, unsigned char *msg, size_t *mlen)
{
	size_t hl = h->hlen, dbl, u;
	unsigned char *t, lh[64];
	int ok = 0;
	if (k < 2 * hl + 2) return 0;
	dbl = k - hl - 1;
	t = vf_dup(em, k);
	ref_mgf1_xor(h, t + 1, hl, t + 1 + hl, dbl);
	ref_mgf1_xor(h, t + 1 + hl, dbl, t + 1, hl);
	ref_hash(h, lh, label, llen, NULL, 0, NULL, 0);
	if (t[0] == 0 && memcmp(t + 1 + hl, lh, hl) == 0) {
		for (u = 1 + 2 * hl; u < k && t[u] == 0; u ++) ;
		if (u < k && t[u] == 0x01) {
			*mlen = k - u - 1;
			memcpy(msg, t + u + 1, *mlen);
			ok = 1;
		}
	}
	free(t);
	return ok;
}

static EVP_PKEY_CTX *
oaep_ctx(const rkey *k, int enc, const hdesc *h, const unsigned char *label, size_t llen)
{
	EVP_PKEY_CTX *c = EVP_PKEY_CTX_new(k->pkey, NULL);
	if (!c || (enc ? EVP_PKEY_encrypt_init(c) : EVP_PKEY_decrypt_init(c)) != 1
		|| EVP_PKEY_CTX_set_rsa_padding(c, RSA_PKCS1_OAEP_PADDING) != 1
		|| EVP_PKEY_CTX_set_rsa_oaep_md(c, h->mdf()) != 1
		|| EVP_PKEY_CTX_set_rsa_mgf1_md(c, h->mdf()) != 1)
		HARNESS_FAIL("oaep-ctx");
	if (llen) {
		void *l = OPENSSL_memdup(label, llen);
		if (EVP_PKEY_CTX_set0_rsa_oaep_label(c, l, (int)llen) != 1) HARNESS_FAIL("oaep-label");
	}
	return c;
}

/* run oaep_decrypt on ciphertext c and compare with the expectation */
static void
oaep_check_dec(const impl_t *m, const br_rsa_private_key *sk, const unsigned char *c, size_t clen,
	const hdesc *h, const unsigned char *label, size_t llen,
	int expect, const unsigned char *emsg, size_t emlen, const char *key, const char *what)
{
	unsigned char *d = vf_dup(c, clen);
	unsigned char *lb = llen ? vf_dup(label, llen) : NULL;
	size_t *lp = xmalloc(sizeof *lp);
	uint32_t r;
	*lp = clen;
	r = m->odec(h->bc, lb, llen, sk, d, lp);
	if ((r != 0) != (expect != 0) || (r != 0 && r != 1)
		|| (expect && (*lp != emlen || memcmp(d, emsg, emlen) != 0))
		|| (!expect && *lp != clen))
		rviol(key, what, "%s hash=%s llen=%u expect=%d got=%u len=%u/%u label=%s ct=%s", g_ctx, h->name, (unsigned)llen,
			expect, r, (unsigned)*lp, (unsigned)emlen, vf_hexs(label, llen), vf_hexs(c, clen));
	free(d); free(lb); free(lp);
}

static void
sec_oaep(const rkey *k, const impl_t *m)
{
	size_t nlen = k->nlen;
	long ncombo = budget(k, m, 1, 2, g_tier ? 60 : 10);
	long it, nfit = 0;
	pkv pv, pz;
	unsigned char *ct = xmalloc(nlen), *em = xmalloc(nlen), *em2 = xmalloc(nlen), *db = xmalloc(nlen),
		*msg = xmalloc(nlen), *msg2 = xmalloc(nlen);
	size_t *pos = xmalloc((nlen + 1) * sizeof *pos);
	br_hmac_drbg_context dc;

	if (!m->oenc || !m->odec) { vf_stat("impl_unavailable", 1); goto done; }
	mk_pk(&pv, k, 0, 0);
	mk_pk(&pz, k, 1 + vf_below(&R, 3), vf_below(&R, 2));
	drbg_init(&dc);
	g_allow = budget(k, m, 1, g_tier ? (long)(m->cost <= 12 ? nlen + 60 : nlen / 8 + 16) : 5, g_tier ? 1200 : 60);
	for (it = 0; it < ncombo; it ++) {
		const hdesc *h = &HASHES[(unsigned)((unsigned long)it + (unsigned)g_unit + g_seed) % NHASH];
		size_t hl = h->hlen;
		long maxm = (long)nlen - 2 * (long)hl - 2;
		unsigned char label[64], seed[64];
		size_t llen, mlen, r;
		skv sv;
		unsigned char *dst;

		switch (it % 4) {
		case 0: llen = 0; break;
		case 1: llen = 64; break;
		default: llen = vf_range(&R, 1, 63); break;
		}
		vf_bytes(&R, label, llen);
		if (maxm < 0) {
			dst = xmalloc(nlen);
			r = m->oenc(&dc.vtable, h->bc, llen ? label : NULL, llen, &pv.pk, dst, nlen, msg, 0);
			CMP("oaep_too_small");
			if (r != 0)
				rviol("C10:oaep:encrypt-modulus-too-small", "oaep_encrypt succeeded although k < 2*hLen + 2",
					"%s hash=%s", g_ctx, h->name);
			free(dst);
			mk_sk(&sv, k, 0, NULL);
			rand_below_n(k, ct);
			CMP("oaep_too_small");
			oaep_check_dec(m, &sv.sk, ct, nlen, h, label, llen, 0, NULL, 0, "C10:strict:oaep-modulus-too-small", "oaep_decrypt succeeded although k < 2*hLen + 2");
			free_sk(&sv);
			continue;
		}
		switch ((it / 2) % 4) {
		case 0: mlen = (size_t)maxm; break;
		case 1: mlen = 0; break;
		default: mlen = vf_range(&R, 0, (uint32_t)maxm); break;
		}
		vf_bytes(&R, msg, mlen);
		nfit ++;
		vf_distinct("config", "oaep/%s/%s/%s/l%u/m%u", m->name, k->name, h->name,
			llen == 0 ? 0u : llen == 64 ? 64u : 1u, mlen == 0 ? 0u : mlen == (size_t)maxm ? 9999u : 1u);

		/* encrypted here -> decrypted by OpenSSL */
		{
			unsigned char *src = vf_dup(msg, mlen);
			unsigned char *lb = llen ? vf_dup(label, llen) : NULL;
			size_t dmax = nlen + ((it & 1) ? vf_below(&R, 8) : 0);
			dst = xmalloc(dmax);
			r = m->oenc(&dc.vtable, h->bc, lb, llen, (it & 4) ? &pv.pk : &pv.pk, dst, dmax, src, mlen);
			CMP("oaep_encrypt_openssl_decrypts");
			if (r != nlen) {
				rviol("C10:oaep:encrypt-failed", "oaep_encrypt did not return the modulus length",
					"%s hash=%s llen=%u mlen=%u r=%u", g_ctx, h->name, (unsigned)llen, (unsigned)mlen, (unsigned)r);
			} else {
				EVP_PKEY_CTX *c = oaep_ctx(k, 0, h, label, llen);
				size_t ol = nlen;
				int v = EVP_PKEY_decrypt(c, msg2, &ol, dst, nlen);
				EVP_PKEY_CTX_free(c);
				if (v != 1 || ol != mlen || memcmp(msg2, msg, mlen) != 0) {
					ERR_clear_error();
					rviol("C10:oaep:openssl-rejects", "OpenSSL cannot decrypt (or decrypts differently) an OAEP ciphertext made here",
						"%s hash=%s llen=%u mlen=%u v=%d label=%s ct=%s", g_ctx, h->name, (unsigned)llen, (unsigned)mlen, v,
						vf_hexs(label, llen), vf_hexs(dst, nlen));
				}
			}
			free(dst); free(src); free(lb);
			/* the same with the message inside the destination buffer ("the source message may overlap with the
			   destination buffer"): at its start, one byte in, behind the label hash, at its final place, at the end */
			if (mlen > 0) {
				size_t offs[5], oi;
				offs[0] = 0; offs[1] = 1; offs[2] = (size_t)h->hlen + 1; offs[3] = nlen - mlen; offs[4] = (nlen - mlen) / 2;
				for (oi = 0; oi < 5; oi ++) {
					size_t off = offs[oi];
					if (off + mlen > nlen) continue;
					dst = xmalloc(nlen);
					vf_bytes(&R, dst, nlen);
					memcpy(dst + off, msg, mlen);
					r = m->oenc(&dc.vtable, h->bc, llen ? label : NULL, llen, &pv.pk, dst, nlen, dst + off, mlen);
					CMP("oaep_encrypt_in_place");
					if (r != nlen) {
						rviol("C10:oaep:encrypt-failed", "oaep_encrypt (message inside the destination buffer) did not return the modulus length",
							"%s hash=%s llen=%u mlen=%u off=%u r=%u", g_ctx, h->name, (unsigned)llen, (unsigned)mlen, (unsigned)off, (unsigned)r);
					} else {
						EVP_PKEY_CTX *c = oaep_ctx(k, 0, h, label, llen);
						size_t ol = nlen;
						int v = EVP_PKEY_decrypt(c, msg2, &ol, dst, nlen);
						EVP_PKEY_CTX_free(c);
						if (v != 1 || ol != mlen || memcmp(msg2, msg, mlen) != 0) {
							ERR_clear_error();
							rviol("C10:oaep:in-place-message-corrupted", "OAEP encryption of a message that lies inside the destination buffer does not decrypt to that message",
								"%s hash=%s llen=%u mlen=%u off=%u v=%d", g_ctx, h->name, (unsigned)llen, (unsigned)mlen, (unsigned)off, v);
						}
					}
					free(dst);
				}
			}
			/* too long a message, too small a destination */
			src = xmalloc((size_t)maxm + 1);
			vf_bytes(&R, src, (size_t)maxm + 1);
			dst = xmalloc(nlen);
			r = m->oenc(&dc.vtable, h->bc, label, llen, &pv.pk, dst, nlen, src, (size_t)maxm + 1);
			CMP("oaep_encrypt_limits");
			if (r != 0)
				rviol("C10:oaep:encrypt-message-too-long", "oaep_encrypt accepted a message longer than k-2hLen-2",
					"%s hash=%s", g_ctx, h->name);
			free(dst);
			dst = xmalloc(nlen - 1);
			r = m->oenc(&dc.vtable, h->bc, label, llen, &pv.pk, dst, nlen - 1, src, mlen);
			CMP("oaep_encrypt_limits");
			if (r != 0)
				rviol("C10:oaep:encrypt-destination-too-small", "oaep_encrypt succeeded with dst_max_len < modulus length",
					"%s hash=%s", g_ctx, h->name);
			free(dst); free(src);
		}
		/* modulus stored with leading zero bytes: documented to give the same (mathematical) length */
		if (nfit <= 2) {
			unsigned char *src = vf_dup(msg, mlen);
			size_t dmax = pz.pk.nlen;
			dst = xmalloc(dmax);
			r = m->oenc(&dc.vtable, h->bc, label, llen, &pz.pk, dst, dmax, src, mlen);
			CMP("oaep_encrypt_leading_zero_n");
			if (r != nlen) {
				rviol("C10:oaep:encrypt-leading-zero-n", "oaep_encrypt with leading zero bytes in n does not return the mathematical modulus length",
					"%s hash=%s pk=%s mlen=%u r=%u", g_ctx, h->name, pz.desc, (unsigned)mlen, (unsigned)r);
			} else {
				EVP_PKEY_CTX *c = oaep_ctx(k, 0, h, label, llen);
				size_t ol = nlen;
				int v = EVP_PKEY_decrypt(c, msg2, &ol, dst, nlen);
				EVP_PKEY_CTX_free(c);
				if (v != 1 || ol != mlen || memcmp(msg2, msg, mlen) != 0) {
					ERR_clear_error();
					rviol("C10:oaep:encrypt-leading-zero-n", "oaep_encrypt with leading zero bytes in n: OpenSSL cannot decrypt",
						"%s hash=%s pk=%s", g_ctx, h->name, pz.desc);
				}
			}
			free(dst); free(src);
		}

		/* encrypted by OpenSSL -> decrypted here (key field variants) */
		{
			EVP_PKEY_CTX *c = oaep_ctx(k, 1, h, label, llen);
			size_t ol = nlen;
			if (EVP_PKEY_encrypt(c, ct, &ol, msg, mlen) != 1 || ol != nlen) HARNESS_FAIL("oaep-openssl-encrypt");
			EVP_PKEY_CTX_free(c);
		}
		mk_sk_var(&sv, k, (int)(it & 3));
		CMP("oaep_decrypt_openssl_ct");
		oaep_check_dec(m, &sv.sk, ct, nlen, h, label, llen, 1, msg, mlen, "C10:oaep:decrypt-openssl", "oaep_decrypt fails on / differs for an OpenSSL OAEP ciphertext");
		if (nfit == 1) vf_sample("{\"sec\":\"oaep\",\"impl\":\"%s\",\"key\":\"%s\",\"hash\":\"%s\",\"llen\":%u,\"mlen\":%u,\"ct\":\"%s\"}",
			m->name, k->name, h->name, (unsigned)llen, (unsigned)mlen, vf_hexs(ct, nlen > 48 ? 48 : nlen));
		free_sk(&sv);
		mk_sk(&sv, k, 0, NULL);
		/* wrong label, wrong length (the latter costs no private operation) */
		{
			unsigned char l2[65];
			unsigned char *b = xmalloc(nlen + 1);
			memcpy(l2, label, llen);
			if (nfit > 1 && g_allow < 8) {
				/* no budget for the wrong-label private operation */
			} else if (!spend()) {
			} else if (llen == 0) { l2[0] = 0; CMP("oaep_strict_label");
				oaep_check_dec(m, &sv.sk, ct, nlen, h, l2, 1, 0, NULL, 0, "C10:strict:oaep-wrong-label", "oaep_decrypt accepted with another label");
			} else { l2[vf_below(&R, (uint32_t)llen)] ^= 0x40; CMP("oaep_strict_label");
				oaep_check_dec(m, &sv.sk, ct, nlen, h, l2, llen, 0, NULL, 0, "C10:strict:oaep-wrong-label", "oaep_decrypt accepted with another label");
			}
			CMP("oaep_strict_len");
			oaep_check_dec(m, &sv.sk, ct + 1, nlen - 1, h, label, llen, 0, NULL, 0, "C10:strict:oaep-wrong-length", "oaep_decrypt accepted a ciphertext of wrong length");
			b[0] = 0; memcpy(b + 1, ct, nlen);
			CMP("oaep_strict_len");
			oaep_check_dec(m, &sv.sk, b, nlen + 1, h, label, llen, 0, NULL, 0, "C10:strict:oaep-wrong-length", "oaep_decrypt accepted a ciphertext of wrong length");
			free(b);
		}

		/* encodings altered before masking (structure) and after masking (any byte):
		   expectation from the RFC 8017 decoding model */
		if (nfit <= 3 || g_tier) {
			size_t dbl = nlen - hl - 1, u, np_, nstruct, uu;
			long quota = g_allow / (nfit <= 1 ? 2 : 1);
			vf_bytes(&R, seed, hl);
			ref_oaep_db(db, nlen, h, label, llen, msg, mlen);
			ref_oaep_mask(em, nlen, h, 0, seed, db);
			if (!forge_pub(k, ct, em)) HARNESS_FAIL("oaep-em-ge-n");
			{
				EVP_PKEY_CTX *c = oaep_ctx(k, 0, h, label, llen);
				size_t ol = nlen;
				if (EVP_PKEY_decrypt(c, msg2, &ol, ct, nlen) != 1 || ol != mlen || memcmp(msg, msg2, mlen) != 0)
					HARNESS_FAIL("oaep-encoder-vs-openssl");
				EVP_PKEY_CTX_free(c);
			}
			if (g_allow >= 8 && spend()) {
				CMP("oaep_decrypt_own_encoding");
				oaep_check_dec(m, &sv.sk, ct, nlen, h, label, llen, 1, msg, mlen, "C10:oaep:decrypt-rfc8017-encoding", "oaep_decrypt rejects a valid RFC 8017 EME-OAEP encoding");
			}
			/* structural alterations of the unmasked block */
			nstruct = 7;
			for (uu = 0; uu < nstruct; uu ++) {
				unsigned char y = 0, *d2;
				u = (uu + (size_t)g_seed + (size_t)g_unit / NIMPL + (size_t)it * 3) % nstruct;
				if ((long)uu >= (quota + 1) / 2 || !spend()) break;
				d2 = vf_dup(db, dbl);
				size_t pslen = dbl - hl - 1 - mlen, ml2 = 0;
				int exp;
				const char *kind;
				switch (u) {
				case 0: y = (unsigned char)vf_range(&R, 1, 255); kind = "Y-nonzero"; break;
				case 1: d2[vf_below(&R, (uint32_t)hl)] ^= (unsigned char)vf_range(&R, 1, 255); kind = "lHash-byte"; break;
				case 2: d2[hl - 1] ^= 0x01; kind = "lHash-last-byte"; break;
				case 3: d2[hl + pslen] = (unsigned char)(2 + vf_below(&R, 254)); kind = "separator-not-01"; break;
				case 4: if (pslen == 0) { free(d2); continue; }
					d2[hl + vf_below(&R, (uint32_t)pslen)] = (unsigned char)(2 + vf_below(&R, 254)); kind = "PS-nonzero"; break;
				case 5: if (pslen == 0) { free(d2); continue; }
					d2[hl + vf_below(&R, (uint32_t)pslen)] = 0x01; kind = "PS-early-01"; break;
				default: memset(d2 + hl, 0, dbl - hl); kind = "no-separator"; break;
				}
				ref_oaep_mask(em2, nlen, h, y, seed, d2);
				free(d2);
				if (!forge_pub(k, ct, em2)) { vf_stat("forge_skipped_ge_n", 1); continue; }
				exp = ref_oaep_decode(em2, nlen, h, label, llen, msg2, &ml2);
				CMP("oaep_strict_structure");
				vf_stat(exp ? "oaep_struct_expect_accept" : "oaep_struct_expect_reject", 1);
				vf_distinct("oaep_struct", "%s/%d", kind, exp);
				oaep_check_dec(m, &sv.sk, ct, nlen, h, label, llen, exp, msg2, ml2,
					exp ? "C10:oaep:decrypt-model-mismatch" : "C10:strict:oaep-bad-structure",
					exp ? "oaep_decrypt differs from the RFC 8017 decoding of a valid (re-delimited) block"
					    : "oaep_decrypt accepted a block with invalid structure");
			}
			/* any byte of EM altered */
			{
				size_t must[8], nm = 0;
				must[nm ++] = 0; must[nm ++] = 1; must[nm ++] = hl; must[nm ++] = hl + 1;
				must[nm ++] = 2 * hl; must[nm ++] = 2 * hl + 1; must[nm ++] = nlen - 1; must[nm ++] = nlen - 1 - mlen;
				np_ = pick_positions(pos, nlen, (g_tier && nfit == 1) ? (size_t)(g_allow > 0 ? g_allow : 1)
					: (size_t)(quota / 2 > 0 ? quota / 2 : 1), must, nm);
				for (u = 0; u < np_; u ++) {
					size_t ml2 = 0;
					int exp;
					if (!spend()) break;
					memcpy(em2, em, nlen);
					em2[pos[u]] = alt_byte(em[pos[u]], (unsigned)(u + (size_t)it));
					if (!forge_pub(k, ct, em2)) { vf_stat("forge_skipped_ge_n", 1); continue; }
					exp = ref_oaep_decode(em2, nlen, h, label, llen, msg2, &ml2);
					CMP("oaep_strict_altered_byte");
					oaep_check_dec(m, &sv.sk, ct, nlen, h, label, llen, exp, msg2, ml2, "C10:strict:oaep-altered-byte", "oaep_decrypt accepted an encoding with one altered byte");
				}
				vf_max("oaep_positions_per_em", (long long)np_);
			}
		}
		free_sk(&sv);
	}
	/* a valid ciphertext c made by OpenSSL, presented as c + n (same length): the ciphertext representative
	   is not below the modulus => decryption error (RFC 8017 7.1.2 step 2b; header: "fails in any way" => 0) */
	if ((long)nlen - 2 * 20 - 2 >= 1) {
		const hdesc *h = &HASHES[1 + (unsigned)((unsigned)g_unit + g_seed) % 3];
		size_t ml, ol;
		int tries, done_ = 0;
		skv sv;
		if ((long)nlen - 2 * (long)h->hlen - 2 < 1) h = &HASHES[1];
		ml = 1 + vf_below(&R, (uint32_t)(nlen - 2 * h->hlen - 2));
		vf_bytes(&R, msg, ml);
		for (tries = 0; tries < 32 && !done_; tries ++) {
			EVP_PKEY_CTX *c = oaep_ctx(k, 1, h, NULL, 0);
			BIGNUM *t;
			ol = nlen;
			if (EVP_PKEY_encrypt(c, ct, &ol, msg, ml) != 1 || ol != nlen) HARNESS_FAIL("oaep-openssl-encrypt");
			EVP_PKEY_CTX_free(c);
			t = bn_from(ct, nlen);
			BN_add(t, t, k->n);
			if (BN_num_bytes(t) <= (int)nlen) {
				BN_bn2binpad(t, em, (int)nlen);
				mk_sk_var(&sv, k, (int)((g_seed + (unsigned)g_unit) & 3));
				if (g_allow >= 4 && spend()) {
					CMP("oaep_decrypt_openssl_ct");
					oaep_check_dec(m, &sv.sk, ct, nlen, h, NULL, 0, 1, msg, ml, "C10:oaep:decrypt-openssl", "oaep_decrypt fails on / differs for an OpenSSL ciphertext");
				}
				CMP("oaep_strict_ct_plus_n");
				{
					/* only the returned value is judged here. On the unchanged library the call returns 0 but
					   has already stored the plaintext length in *len (the header says "*len is unmodified"
					   on failure): reported as a finding to the owner of the suite, counted, not flagged */
					unsigned char *d = vf_dup(em, nlen);
					size_t *lp = xmalloc(sizeof *lp);
					uint32_t r;
					*lp = nlen;
					r = m->odec(h->bc, NULL, 0, &sv.sk, d, lp);
					if (r != 0)
						rviol("C10:strict:oaep-ciphertext-not-below-n", "oaep_decrypt accepted ciphertext + n (representative not below the modulus)",
							"%s hash=%s sk=%s got=%u len=%u ct=%s", g_ctx, h->name, sv.desc, r, (unsigned)*lp, vf_hexs(em, nlen));
					vf_stat(*lp != nlen ? "observed_oaep_ct_plus_n_len_modified" : "observed_oaep_ct_plus_n_len_kept", 1);
					free(d); free(lp);
				}
				free_sk(&sv);
				done_ = 1;
			}
			BN_free(t);
		}
		if (!done_) vf_stat("oaep_ct_plus_n_no_fit", 1);
	}
	/* oversized modulus: documented to return 0 */
	{
		br_rsa_public_key pe;
		size_t bl = (BR_MAX_RSA_SIZE >> 3) + 1, r;
		unsigned char *b = xmalloc(bl);
		pe.n = xmalloc(bl); pe.nlen = bl;
		vf_bytes(&R, pe.n, bl);
		pe.n[0] = 0x01; pe.n[bl - 1] |= 1;
		pe.e = bn_buf(k->e, 0, &pe.elen);
		r = m->oenc(&dc.vtable, HASHES[1].bc, NULL, 0, &pe, b, bl, msg, 10);
		CMP("oaep_oversized_modulus");
		if (r != 0)
			rviol("C10:strict:oaep-oversized-modulus", "oaep_encrypt succeeded with a 4097-bit modulus", "%s", g_ctx);
		free(b); free(pe.n); free(pe.e);
	}
	free_pk(&pv); free_pk(&pz);
done:
	free(ct); free(em); free(em2); free(db); free(msg); free(msg2); free(pos);
}

/* ------------------------------------------------------------------ */
/* Section TLS: br_rsa_ssl_decrypt (RSA key exchange, PKCS#1 v1.5 type 2) */

static int
ref_tls_accepts(const unsigned char *em, size_t k)
{
	size_t u;
	if (em[0] != 0x00 || em[1] != 0x02 || em[k - 49] != 0x00) return 0;
	for (u = 2; u < k - 49; u ++) if (em[u] == 0) return 0;
	return 1;
}

static void
tls_check(const impl_t *m, const br_rsa_private_key *sk, const unsigned char *c, size_t clen,
	int expect, const unsigned char *pms, const char *key, const char *what)
{
	unsigned char *d = vf_dup(c, clen);
	uint32_t r = br_rsa_ssl_decrypt(m->priv, sk, d, clen);
	if ((r != 0) != (expect != 0) || (r != 0 && r != 1) || (expect && memcmp(d, pms, 48) != 0))
		rviol(key, what, "%s expect=%d got=%u ct=%s", g_ctx, expect, r, vf_hexs(c, clen));
	free(d);
}

static void
sec_tls(const rkey *k, const impl_t *m)
{
	size_t nlen = k->nlen, u;
	long nenc = budget(k, m, 1, 2, g_tier ? 40 : 6) / 2 + 1;
	long it;
	unsigned char *ct = xmalloc(nlen), *em = xmalloc(nlen), *em2 = xmalloc(nlen);
	size_t *pos = xmalloc((nlen + 1) * sizeof *pos);
	unsigned char pms[48];

	if (!m->priv) { vf_stat("impl_unavailable", 1); goto done; }
	if (nlen < 59) { vf_stat("tls_key_too_small_skipped", 1); goto done; }   /* a 48-byte premaster needs 59 bytes */
	for (it = 0; it < nenc; it ++) {
		skv sv;
		vf_bytes(&R, pms, 48);
		pms[0] = 3; pms[1] = (unsigned char)vf_below(&R, 4);
		if (RSA_public_encrypt(48, pms, ct, k->rsa, RSA_PKCS1_PADDING) != (int)nlen) HARNESS_FAIL("tls-openssl-encrypt");
		mk_sk_var(&sv, k, (int)(it & 3));
		CMP("tls_decrypt_openssl_ct");
		tls_check(m, &sv.sk, ct, nlen, 1, pms, "C10:tls:decrypt-openssl", "br_rsa_ssl_decrypt fails on / differs for an OpenSSL type-2 block");
		vf_distinct("config", "tls/%s/%s/v%d", m->name, k->name, (int)(it & 3));
		if (it == 0) {
			/* wrong length: 0, buffer unmodified (no private operation involved) */
			int v;
			for (v = 0; v < 2; v ++) {
				size_t l = v ? nlen + 1 : nlen - 1;
				unsigned char *b = xmalloc(l), *b0;
				uint32_t r;
				vf_bytes(&R, b, l);
				b[0] = 0;
				b0 = vf_dup(b, l);
				r = br_rsa_ssl_decrypt(m->priv, &sv.sk, b, l);
				CMP("tls_strict_len");
				if (r != 0 || memcmp(b, b0, l) != 0)
					rviol("C10:strict:tls-wrong-length", "br_rsa_ssl_decrypt with len != modulus length: nonzero result or buffer modified",
						"%s len=%u r=%u", g_ctx, (unsigned)l, r);
				free(b); free(b0);
			}
			vf_sample("{\"sec\":\"tls\",\"impl\":\"%s\",\"key\":\"%s\",\"pms\":\"%s\"}", m->name, k->name, vf_hexs(pms, 48));
		}
		free_sk(&sv);
	}
	/* own encodings and alterations, judged by the model */
	{
		skv sv;
		size_t must[64], nm = 0, np_;
		int v, vv;
		g_allow = budget(k, m, 1, g_tier ? (long)(m->cost <= 12 ? nlen + 10 : nlen / 8 + 10) : 5, g_tier ? 700 : 60);
		mk_sk(&sv, k, 0, NULL);
		em[0] = 0; em[1] = 2;
		for (u = 2; u < nlen - 49; u ++) em[u] = (unsigned char)vf_range(&R, 1, 255);
		em[nlen - 49] = 0;
		vf_bytes(&R, em + nlen - 48, 48);
		if (!forge_pub(k, ct, em)) HARNESS_FAIL("tls-em-ge-n");
		if (g_allow >= 8 && spend()) {
			CMP("tls_decrypt_own_encoding");
			tls_check(m, &sv.sk, ct, nlen, 1, em + nlen - 48, "C10:tls:decrypt-own-encoding", "br_rsa_ssl_decrypt rejects a valid type-2 block");
		}
		/* payload of 47 / 49 / 0 bytes, separator missing */
		for (vv = 0; vv < 4; vv ++) {
			v = (int)(((unsigned)vv + (unsigned)g_seed + (unsigned)g_unit / NIMPL) & 3);
			if ((vv >= 1 && g_allow < 6) || !spend()) break;
			memcpy(em2, em, nlen);
			switch (v) {
			case 0: em2[nlen - 49] = (unsigned char)vf_range(&R, 1, 255); em2[nlen - 48] = 0; break;
			case 1: em2[nlen - 50] = 0; em2[nlen - 49] = (unsigned char)vf_range(&R, 1, 255); break;
			case 2: em2[nlen - 49] = (unsigned char)vf_range(&R, 1, 255); em2[nlen - 1] = 0; break;
			default: for (u = nlen - 49; u < nlen; u ++) if (!em2[u]) em2[u] = 1; break;
			}
			if (!forge_pub(k, ct, em2)) continue;
			CMP("tls_strict_payload_length");
			tls_check(m, &sv.sk, ct, nlen, ref_tls_accepts(em2, nlen), em2 + nlen - 48, "C10:strict:tls-payload-length", "br_rsa_ssl_decrypt accepted a block whose payload is not 48 bytes");
		}
		for (u = 0; u < 12; u ++) must[nm ++] = u;
		for (u = nlen - 52; u < nlen - 44; u ++) must[nm ++] = u;
		must[nm ++] = nlen - 1;
		np_ = pick_positions(pos, nlen, (size_t)(g_allow > 0 ? g_allow : 1), must, nm);
		for (u = 0; u < np_; u ++) {
			int exp;
			if (!spend()) break;
			memcpy(em2, em, nlen);
			/* in the PS region alternate between zeroing (must reject) and another non-zero value */
			em2[pos[u]] = alt_byte(em[pos[u]], (pos[u] >= 2 && pos[u] < nlen - 49) ? (unsigned)(2 + (u & 1) * 2) : (unsigned)u);
			if (!forge_pub(k, ct, em2)) { vf_stat("forge_skipped_ge_n", 1); continue; }
			exp = ref_tls_accepts(em2, nlen);
			CMP("tls_strict_altered_byte");
			vf_stat(exp ? "tls_altered_expect_accept" : "tls_altered_expect_reject", 1);
			tls_check(m, &sv.sk, ct, nlen, exp, em2 + nlen - 48,
				exp ? "C10:tls:decrypt-model-mismatch" : "C10:strict:tls-altered-byte",
				exp ? "br_rsa_ssl_decrypt rejects / mis-extracts a valid block" : "br_rsa_ssl_decrypt accepted a block with an altered padding byte");
		}
		vf_max("tls_positions_per_em", (long long)np_);
		free_sk(&sv);
	}
	/* an OpenSSL type-2 block c presented as c + n: "a decryption error ... reported with a returned value of 0" */
	{
		int tries, done_ = 0;
		skv sv;
		for (tries = 0; tries < 32 && !done_; tries ++) {
			BIGNUM *t;
			vf_bytes(&R, pms, 48);
			pms[0] = 3; pms[1] = 3;
			if (RSA_public_encrypt(48, pms, ct, k->rsa, RSA_PKCS1_PADDING) != (int)nlen) HARNESS_FAIL("tls-openssl-encrypt");
			t = bn_from(ct, nlen);
			BN_add(t, t, k->n);
			if (BN_num_bytes(t) <= (int)nlen) {
				BN_bn2binpad(t, em2, (int)nlen);
				mk_sk_var(&sv, k, (int)((g_seed + (unsigned)g_unit) & 3));
				if (g_allow >= 4 && spend()) {
					CMP("tls_decrypt_openssl_ct");
					tls_check(m, &sv.sk, ct, nlen, 1, pms, "C10:tls:decrypt-openssl", "br_rsa_ssl_decrypt fails on / differs for an OpenSSL type-2 block");
				}
				CMP("tls_strict_ct_plus_n");
				tls_check(m, &sv.sk, em2, nlen, 0, NULL, "C10:strict:tls-ciphertext-not-below-n", "br_rsa_ssl_decrypt accepted ciphertext + n (value not below the modulus)");
				free_sk(&sv);
				done_ = 1;
			}
			BN_free(t);
		}
		if (!done_) vf_stat("tls_ct_plus_n_no_fit", 1);
	}
done:
	free(ct); free(em); free(em2); free(pos);
}

/* ------------------------------------------------------------------ */
/* compute_modulus / compute_pubexp / compute_privexp on one private key view */

static void
check_compute(const rkey *k, const impl_t *m, const skv *sv, int from_keygen)
{
	size_t nlen = k->nlen;

	if (m->cmod) {
		unsigned char *nb = xmalloc(nlen), *ref = xmalloc(nlen);
		size_t l0 = m->cmod(NULL, &sv->sk), l1;
		memset(nb, 0x5A, nlen);
		l1 = m->cmod(nb, &sv->sk);
		BN_bn2binpad(k->n, ref, (int)nlen);
		CMP("compute_modulus");
		if (l0 != nlen || l1 != nlen || memcmp(nb, ref, nlen) != 0)
			rviol("C10:compute:modulus", "compute_modulus differs from p*q (BIGNUM)", "%s sk=%s l0=%u l1=%u got=%s",
				g_ctx, sv->desc, (unsigned)l0, (unsigned)l1, vf_hexs(nb, nlen));
		free(nb); free(ref);
	}
	if (m->cpub) {
		uint32_t e = m->cpub(&sv->sk);
		if (!k->m3 || k->ebits > 32) {
			/* documented: 0 if p or q is not 3 mod 4, or e does not fit 32 bits */
			CMP("compute_pubexp_documented_zero");
			if (e != 0)
				rviol("C10:compute:pubexp-not-zero", "compute_pubexp non-zero although p/q != 3 mod 4 or e > 32 bits",
					"%s sk=%s got=%u", g_ctx, sv->desc, e);
		} else {
			CMP("compute_pubexp");
			if (e != k->e32)
				rviol(from_keygen ? "C10:keygen:pubexp" : "C10:compute:pubexp", "compute_pubexp does not return the public exponent",
					"%s sk=%s got=%u want=%u", g_ctx, sv->desc, e, k->e32);
		}
	}
	if (m->cpriv && k->e32) {
		size_t l0 = m->cpriv(NULL, &sv->sk, k->e32), l1;
		unsigned char *db = xmalloc(l0 ? l0 : nlen);
		l1 = m->cpriv(db, &sv->sk, k->e32);
		if (k->m3) {
			CMP("compute_privexp_succeeds");
			if (l0 == 0 || l1 == 0)
				rviol(from_keygen ? "C10:keygen:privexp" : "C10:compute:privexp-fails", "compute_privexp failed on a valid key with p = q = 3 mod 4",
					"%s sk=%s l0=%u l1=%u", g_ctx, sv->desc, (unsigned)l0, (unsigned)l1);
		} else {
			vf_stat(l1 ? "unjudged_privexp_not_m3_ok" : "unjudged_privexp_not_m3_zero", 1);
		}
		if (l1 != 0) {
			/* a returned value must be a private exponent: e*d = 1 mod lcm(p-1, q-1) */
			BIGNUM *d = bn_from(db, l1), *p1 = BN_dup(k->p), *q1 = BN_dup(k->q), *t = BN_new();
			int ok;
			BN_sub_word(p1, 1); BN_sub_word(q1, 1);
			BN_mod_mul(t, d, k->e, p1, bnctx); ok = BN_is_one(t);
			BN_mod_mul(t, d, k->e, q1, bnctx); ok &= BN_is_one(t);
			ok &= (BN_cmp(d, k->n) < 0) && (l0 == l1);
			CMP("compute_privexp");
			if (!ok)
				rviol(from_keygen ? "C10:keygen:privexp" : "C10:compute:privexp", "compute_privexp result is not an inverse of e modulo p-1 and q-1",
					"%s sk=%s l0=%u l1=%u d=%s", g_ctx, sv->desc, (unsigned)l0, (unsigned)l1, vf_hexs(db, l1));
			BN_free(d); BN_free(p1); BN_free(q1); BN_free(t);
		}
		/* wrong exponents: even, 1, and a non-invertible one must fail (documented conditions) */
		{
			size_t r;
			r = m->cpriv(db, &sv->sk, 1);
			CMP("compute_privexp_bad_e");
			if (r != 0) rviol("C10:compute:privexp-bad-e", "compute_privexp accepted e = 1", "%s", g_ctx);
			r = m->cpriv(db, &sv->sk, 65536);
			CMP("compute_privexp_bad_e");
			if (r != 0) rviol("C10:compute:privexp-bad-e", "compute_privexp accepted an even e", "%s", g_ctx);
		}
		free(db);
	}
	if (m->cpriv) {
		/* a public exponent that is not invertible modulo (p-1)(q-1): r = the smallest odd prime dividing
		   (p-1)(q-1), and a 32-bit odd multiple of it. Documented condition of success: "relatively prime
		   to p-1 and q-1"; "on error, 0 is returned" (judged with d != NULL as the header says that not all
		   errors are detected with d == NULL) */
		BIGNUM *p1 = BN_dup(k->p), *q1 = BN_dup(k->q);
		unsigned long r = 3;
		unsigned char *db = xmalloc(nlen + 8);
		int v;
		BN_sub_word(p1, 1); BN_sub_word(q1, 1);
		/* the smallest odd r > 1 dividing p-1 or q-1 is a prime */
		for (; r < 2000000; r += 2) {
			if (BN_mod_word(p1, r) == 0 || BN_mod_word(q1, r) == 0) break;
		}
		if (r >= 2000000) {
			vf_stat("privexp_no_small_common_prime", 1);
			free(db); BN_free(p1); BN_free(q1);
			return;
		}
		for (v = 0; v < 2; v ++) {
			/* v = 1: r * (odd cofactor) just below 2^32 */
			unsigned long co = (0xFFFFFFFFul / r - vf_below(&R, 1000)) | 1;
			uint32_t e = v ? (uint32_t)(r * (co > 0xFFFFFFFFul / r ? co - 2 : co)) : (uint32_t)r;
			size_t l;
			memset(db, 0x5A, nlen + 8);
			l = m->cpriv(db, &sv->sk, e);
			CMP("compute_privexp_not_invertible");
			if (l != 0)
				rviol("C10:compute:privexp-bad-e", "compute_privexp succeeded with a public exponent that has no inverse modulo (p-1)(q-1)",
					"%s sk=%s e=%u r=%lu l=%u", g_ctx, sv->desc, e, r, (unsigned)l);
		}
		vf_max("privexp_smallest_common_prime", (long long)r);
		free(db); BN_free(p1); BN_free(q1);
	}
}

static void
sec_compute(const rkey *k)
{
	int mi, j;
	for (mi = 0; mi < NIMPL; mi ++) {
		const impl_t *m = &IMPLS[mi];
		if (!m->cmod && !m->cpub && !m->cpriv) continue;
		snprintf(g_ctx, sizeof g_ctx, "unit=%d seed=%llu sec=compute impl=%s key=%s", g_unit, g_seed, m->name, k->name);
		for (j = 0; j < 4; j ++) {
			skv sv;
			mk_sk_var(&sv, k, j);
			check_compute(k, m, &sv, 0);
			vf_distinct("config", "compute/%s/%s/%d", m->name, k->name, j);
			free_sk(&sv);
		}
	}
}

/* ------------------------------------------------------------------ */
/* Section KEYGEN */

/* besides the sizes of the design, sizes whose prime lengths are 0 or 1 modulo
   15 / 31, which select the other branches of mkprime()'s top-bit forcing:
   558 (279 = 9*31), 560 (280 = 9*31+1), 1020 (510 = 34*15); 512 gives 256 = 17*15+1 */
static const unsigned KG_SIZES_Q[] = { 512, 558, 560, 768, 1020, 1024, 1031 };
static const unsigned KG_SIZES_T[] = { 512, 513, 558, 560, 620, 768, 1020, 1024, 1031, 1054,
	1530, 1536, 2040, 2048, 2049, 3072, 4096 };
static const uint32_t KG_EXPS[] = { 3, 65537, 0, 17, 0xFFFFFFFF };

static void
sec_keygen(const impl_t *m, unsigned size, uint32_t pubexp, int round)
{
	br_hmac_drbg_context dc, dc2;
	br_rsa_private_key sk;
	br_rsa_public_key pk;
	size_t kpl = BR_RSA_KBUF_PRIV_SIZE(size), kbl = BR_RSA_KBUF_PUB_SIZE(size);
	unsigned char *kp = xmalloc(kpl), *kb = xmalloc(kbl);
	uint32_t r, ee = pubexp ? pubexp : 3;
	rkey k;
	BIGNUM *t, *p1, *q1, *phi, *g;
	int ok, mi;

	if (!m->kg) { vf_stat("impl_unavailable", 1); free(kp); free(kb); return; }
	drbg_init(&dc);
	dc2 = dc;
	memset(&sk, 0, sizeof sk); memset(&pk, 0, sizeof pk);
	r = m->kg(&dc.vtable, &sk, kp, &pk, kb, size, pubexp);
	CMP("keygen_returns_1");
	vf_stat("keygen_keys", 1);
	vf_distinct("config", "keygen/%s/%u/e%u", m->name, size, pubexp);
	if (r != 1) {
		rviol("C10:keygen:failed", "keygen returned 0 for valid parameters", "%s", g_ctx);
		free(kp); free(kb);
		return;
	}
	memset(&k, 0, sizeof k);
	snprintf(k.name, sizeof k.name, "gen%u_e%u_%s_r%d", size, pubexp, m->name, round);
	k.n = bn_from(pk.n, pk.nlen);
	k.e = bn_from(pk.e, pk.elen);
	k.p = bn_from(sk.p, sk.plen); k.q = bn_from(sk.q, sk.qlen);
	k.dp = bn_from(sk.dp, sk.dplen); k.dq = bn_from(sk.dq, sk.dqlen); k.iq = bn_from(sk.iq, sk.iqlen);
	t = BN_new(); p1 = BN_dup(k.p); q1 = BN_dup(k.q); phi = BN_new(); g = BN_new();
	BN_sub_word(p1, 1); BN_sub_word(q1, 1);

	CMP("keygen_size");
	if (BN_num_bits(k.n) != (int)size || sk.n_bitlen != size)
		rviol("C10:keygen:modulus-size", "generated modulus does not have exactly the requested size",
			"%s bits=%d n_bitlen=%u n=%s", g_ctx, BN_num_bits(k.n), sk.n_bitlen, vf_hexs(pk.n, pk.nlen));
	CMP("keygen_n_is_pq");
	BN_mul(t, k.p, k.q, bnctx);
	if (BN_cmp(t, k.n) != 0)
		rviol("C10:keygen:n-not-pq", "public modulus != p*q", "%s p=%s q=%s", g_ctx, vf_hexs(sk.p, sk.plen), vf_hexs(sk.q, sk.qlen));
	CMP("keygen_primes");
	if (BN_check_prime(k.p, bnctx, NULL) != 1 || BN_check_prime(k.q, bnctx, NULL) != 1 || BN_cmp(k.p, k.q) == 0)
		rviol("C10:keygen:not-prime", "p or q is not prime (BN_check_prime) or p = q", "%s p=%s q=%s", g_ctx, vf_hexs(sk.p, sk.plen), vf_hexs(sk.q, sk.qlen));
	CMP("keygen_pubexp");
	if (!BN_is_word(k.e, ee))
		rviol("C10:keygen:public-exponent", "public key does not carry the requested exponent", "%s e=%s", g_ctx, vf_hexs(pk.e, pk.elen));
	BN_set_word(t, ee);
	BN_free(k.e); k.e = BN_dup(t);
	CMP("keygen_dp");
	BN_mod_mul(t, k.dp, k.e, p1, bnctx);
	if (!BN_is_one(t) || BN_cmp(k.dp, p1) >= 0)
		rviol("C10:keygen:dp", "dp is not the inverse of e modulo p-1 (reduced)", "%s p=%s dp=%s", g_ctx, vf_hexs(sk.p, sk.plen), vf_hexs(sk.dp, sk.dplen));
	CMP("keygen_dq");
	BN_mod_mul(t, k.dq, k.e, q1, bnctx);
	if (!BN_is_one(t) || BN_cmp(k.dq, q1) >= 0)
		rviol("C10:keygen:dq", "dq is not the inverse of e modulo q-1 (reduced)", "%s q=%s dq=%s", g_ctx, vf_hexs(sk.q, sk.qlen), vf_hexs(sk.dq, sk.dqlen));
	CMP("keygen_iq");
	BN_mod_mul(t, k.iq, k.q, k.p, bnctx);
	if (!BN_is_one(t) || BN_cmp(k.iq, k.p) >= 0)
		rviol("C10:keygen:iq", "iq is not the inverse of q modulo p (reduced)", "%s iq=%s", g_ctx, vf_hexs(sk.iq, sk.iqlen));
	vf_stat(BN_cmp(k.p, k.q) > 0 ? "keygen_p_gt_q" : "keygen_p_lt_q", 1);
	vf_sample("{\"sec\":\"keygen\",\"impl\":\"%s\",\"size\":%u,\"e\":%u,\"n\":\"%s\"}", m->name, size, ee, vf_hexs(pk.n, pk.nlen > 32 ? 32 : pk.nlen));

	/* d for the reference side: inverse of e modulo (p-1)(q-1); needs gcd(e, phi) = 1 */
	BN_mul(phi, p1, q1, bnctx);
	BN_gcd(g, phi, k.e, bnctx);
	k.d = BN_new();
	ok = BN_is_one(g) && BN_mod_inverse(k.d, k.e, phi, bnctx) != NULL;
	if (ok && BN_check_prime(k.p, bnctx, NULL) == 1 && BN_check_prime(k.q, bnctx, NULL) == 1) {
		skv sv;
		unsigned char hv[32];
		unsigned char *sig0 = xmalloc(k.nlen ? k.nlen : (size + 7) / 8), *sig = NULL, *ref;
		unsigned int sl = 0;
		const hdesc *h = &HASHES[3];
		int have0 = 0;

		key_finish(&k);
		free(sig0);
		sig0 = xmalloc(k.nlen); ref = xmalloc(k.nlen);
		sv.sk = sk;
		snprintf(sv.desc, sizeof sv.desc, "keygen");
		/* recomputed modulus / public exponent / private exponent, every engine */
		for (mi = 0; mi < NIMPL; mi ++) {
			char save[sizeof g_ctx];
			if (!IMPLS[mi].cmod) continue;
			memcpy(save, g_ctx, sizeof save);
			snprintf(g_ctx, sizeof g_ctx, "%.150s compute=%s", save, IMPLS[mi].name);
			check_compute(&k, &IMPLS[mi], &sv, 1);
			memcpy(g_ctx, save, sizeof save);
		}
		/* sign in every implementation (identical, = OpenSSL), verify in every implementation */
		vf_bytes(&R, hv, 32);
		if (RSA_sign(h->nid, hv, 32, ref, &sl, k.rsa) != 1 || sl != k.nlen) HARNESS_FAIL("keygen-RSA_sign");
		for (mi = 0; mi < NIMPL; mi ++) {
			const impl_t *a = &IMPLS[mi];
			pkv pv;
			int mj;
			if (!a->sign) continue;
			/* the slow engines only on small keys */
			if (size > 2049 && a->cost >= 100 && a != m) { vf_stat("keygen_roundtrip_skipped_budget", 1); continue; }
			sig = xmalloc(k.nlen);
			r = a->sign(h->oid, hv, 32, &sk, sig);
			CMP("keygen_sign");
			if (r != 1 || memcmp(sig, ref, k.nlen) != 0)
				rviol("C10:keygen:sign-roundtrip", "signature with a generated key differs from OpenSSL's with the same key",
					"%s signer=%s r=%u", g_ctx, a->name, r);
			if (!have0) { memcpy(sig0, sig, k.nlen); have0 = 1; }
			free(sig);
			mk_pk(&pv, &k, 0, 0);
			for (mj = 0; mj < NIMPL; mj ++) {
				unsigned char ho[32];
				if (!IMPLS[mj].vrfy) continue;
				r = IMPLS[mj].vrfy(ref, k.nlen, h->oid, 32, &pk, ho);
				CMP("keygen_vrfy");
				if (r != 1 || memcmp(ho, hv, 32) != 0)
					rviol("C10:keygen:sign-roundtrip", "verification with a generated public key fails",
						"%s verifier=%s r=%u", g_ctx, IMPLS[mj].name, r);
				if (mi > 0) break;   /* all verifiers once, then one per signer */
			}
			free_pk(&pv);
		}
		/* OAEP round trip with the generated key through the generating engine's siblings */
		free(sig0); free(ref);
	} else {
		rviol("C10:keygen:e-not-invertible", "e is not invertible modulo (p-1)(q-1) or factors are composite", "%s", g_ctx);
		key_finish(&k);
	}

	/* pk == NULL, kbuf_pub == NULL: same private key from the same PRNG state */
	if (size <= (g_tier ? 2049u : 768u)) {
		br_rsa_private_key sk2;
		unsigned char *kp2 = xmalloc(kpl);
		r = m->kg(&dc2.vtable, &sk2, kp2, NULL, NULL, size, pubexp);
		CMP("keygen_without_public");
		if (r != 1 || sk2.n_bitlen != sk.n_bitlen || sk2.plen != sk.plen || memcmp(sk2.p, sk.p, sk.plen) != 0
			|| sk2.qlen != sk.qlen || memcmp(sk2.q, sk.q, sk.qlen) != 0
			|| sk2.dplen != sk.dplen || memcmp(sk2.dp, sk.dp, sk.dplen) != 0
			|| sk2.dqlen != sk.dqlen || memcmp(sk2.dq, sk.dq, sk.dqlen) != 0
			|| sk2.iqlen != sk.iqlen || memcmp(sk2.iq, sk.iq, sk.iqlen) != 0)
			rviol("C10:keygen:without-public", "keygen with pk = NULL gives another private key than with pk from the same PRNG state", "%s", g_ctx);
		free(kp2);
	}
	/* invalid parameters: documented to return 0 */
	{
		br_rsa_private_key sk2;
		unsigned char *kp2 = xmalloc(BR_RSA_KBUF_PRIV_SIZE(4104)), *kb2 = xmalloc(BR_RSA_KBUF_PUB_SIZE(4104));
		br_rsa_public_key pk2;
		static const struct { unsigned sz; uint32_t e; } bad[] = {
			{ 511, 3 }, { 4097, 3 }, { 0, 3 }, { 1024, 1 }, { 1024, 2 }, { 1024, 65536 }, { 4104, 0 }
		};
		size_t u;
		for (u = 0; u < sizeof bad / sizeof bad[0]; u ++) {
			r = m->kg(&dc2.vtable, &sk2, kp2, &pk2, kb2, bad[u].sz, bad[u].e);
			CMP("keygen_rejects_invalid");
			if (r != 0)
				rviol("C10:keygen:accepts-invalid", "keygen returned 1 for an unsupported size or an invalid exponent",
					"%s size=%u e=%u", g_ctx, bad[u].sz, bad[u].e);
		}
		free(kp2); free(kb2);
	}
	BN_free(t); BN_free(p1); BN_free(q1); BN_free(phi); BN_free(g);
	key_free(&k);
	free(kp); free(kb);
}

/* ------------------------------------------------------------------ */

#define MAXKEYS 48
static rkey KEYS[MAXKEYS];
static int nkeys;

static int
keycmp(const void *a, const void *b)
{
	const rkey *x = a, *y = b;
	if (x->bits != y->bits) return x->bits - y->bits;
	return strcmp(x->name, y->name);
}

/* keys with factors of different lengths (the fixtures are all balanced): p shorter than q by 1, a few or many bits,
 * and the other way round; primes drawn deterministically from the harness PRNG */
static void
det_prime(BIGNUM *p, int bits, vf_rng *r, const BIGNUM *e)
{
	unsigned char buf[128];
	BIGNUM *t = BN_new(), *g = BN_new();
	size_t n = (size_t)(bits + 7) / 8;
	for (;;) {
		vf_bytes(r, buf, n);
		BN_bin2bn(buf, (int)n, p);
		BN_mask_bits(p, bits);
		BN_set_bit(p, bits - 1); BN_set_bit(p, bits - 2); BN_set_bit(p, 0);
		for (;;) {
			if (BN_num_bits(p) != bits) break;
			if (BN_check_prime(p, bnctx, NULL) == 1) {
				BN_sub(t, p, BN_value_one());
				BN_gcd(g, t, e, bnctx);
				if (BN_is_one(g)) { BN_free(t); BN_free(g); return; }
			}
			BN_add_word(p, 2);
		}
	}
}

static void
key_unbalanced(rkey *k, int pbits, int qbits, unsigned long e, vf_rng *r)
{
	BIGNUM *p1 = BN_new(), *q1 = BN_new(), *phi = BN_new();
	memset(k, 0, sizeof *k);
	k->e = BN_new(); BN_set_word(k->e, e);
	k->p = BN_new(); k->q = BN_new(); k->n = BN_new(); k->d = BN_new(); k->dp = BN_new(); k->dq = BN_new(); k->iq = BN_new();
	det_prime(k->p, pbits, r, k->e);
	do { det_prime(k->q, qbits, r, k->e); } while (BN_cmp(k->p, k->q) == 0);
	BN_mul(k->n, k->p, k->q, bnctx);
	BN_sub(p1, k->p, BN_value_one()); BN_sub(q1, k->q, BN_value_one());
	BN_mul(phi, p1, q1, bnctx);
	if (!BN_mod_inverse(k->d, k->e, phi, bnctx)) HARNESS_FAIL("unbalanced-d");
	BN_mod(k->dp, k->d, p1, bnctx); BN_mod(k->dq, k->d, q1, bnctx);
	if (!BN_mod_inverse(k->iq, k->q, k->p, bnctx)) HARNESS_FAIL("unbalanced-iq");
	snprintf(k->name, sizeof k->name, "u%dx%d_e%lu", pbits, qbits, e);
	BN_free(p1); BN_free(q1); BN_free(phi);
	key_finish(k);
}

/* keys whose reduced private exponents are much shorter than their factors: a prime f = (e+1)/2 mod e gives
 * d mod (f-1) = (2f-1)/e, about log2(e)-1 bits shorter than f (15 bits for e = 65537, 31 bits for e = 2^32-5): the
 * encoded dp / dq then fills fewer words than the factor in every implementation. which: 1 = p, 2 = q, 3 = both */
static void
det_prime_short(BIGNUM *p, int bits, vf_rng *r, const BIGNUM *e)
{
	unsigned char buf[128];
	BIGNUM *t = BN_new(), *g = BN_new(), *res = BN_new(), *e2 = BN_new();
	size_t n = (size_t)(bits + 7) / 8;
	BN_add(res, e, BN_value_one()); BN_rshift1(res, res);     /* (e+1)/2 */
	BN_lshift1(e2, e);
	for (;;) {
		vf_bytes(r, buf, n);
		BN_bin2bn(buf, (int)n, p);
		BN_mask_bits(p, bits);
		BN_set_bit(p, bits - 1); BN_set_bit(p, bits - 2);
		BN_mod(t, p, e, bnctx); BN_sub(p, p, t); BN_add(p, p, res);
		if (!BN_is_odd(p)) BN_add(p, p, e);
		for (;;) {
			if (BN_num_bits(p) != bits) break;
			/* (3 mod 4: what br_rsa_compute_pubexp asks of the factors) */
			if (BN_is_bit_set(p, 1) && BN_check_prime(p, bnctx, NULL) == 1) {
				BN_sub(t, p, BN_value_one());
				BN_gcd(g, t, e, bnctx);
				if (BN_is_one(g)) { BN_free(t); BN_free(g); BN_free(res); BN_free(e2); return; }
			}
			BN_add(p, p, e2);
		}
	}
}

static void
key_short_crt(rkey *k, int bits, unsigned long e, int which, vf_rng *r)
{
	BIGNUM *p1 = BN_new(), *q1 = BN_new(), *phi = BN_new();
	memset(k, 0, sizeof *k);
	k->e = BN_new(); BN_set_word(k->e, e);
	k->p = BN_new(); k->q = BN_new(); k->n = BN_new(); k->d = BN_new(); k->dp = BN_new(); k->dq = BN_new(); k->iq = BN_new();
	if (which & 1) det_prime_short(k->p, bits, r, k->e); else do { det_prime(k->p, bits, r, k->e); } while (!BN_is_bit_set(k->p, 1));
	do { if (which & 2) det_prime_short(k->q, bits, r, k->e); else det_prime(k->q, bits, r, k->e); } while (BN_cmp(k->p, k->q) == 0 || !BN_is_bit_set(k->q, 1));
	BN_mul(k->n, k->p, k->q, bnctx);
	BN_sub(p1, k->p, BN_value_one()); BN_sub(q1, k->q, BN_value_one());
	BN_mul(phi, p1, q1, bnctx);
	if (!BN_mod_inverse(k->d, k->e, phi, bnctx)) HARNESS_FAIL("short-crt-d");
	BN_mod(k->dp, k->d, p1, bnctx); BN_mod(k->dq, k->d, q1, bnctx);
	if (((which & 1) && BN_num_bits(k->dp) > bits - 14) || ((which & 2) && BN_num_bits(k->dq) > bits - 14)) HARNESS_FAIL("short-crt-not-short");
	if (!BN_mod_inverse(k->iq, k->q, k->p, bnctx)) HARNESS_FAIL("short-crt-iq");
	snprintf(k->name, sizeof k->name, "s%d_e%lu_w%d", bits, e, which);
	BN_free(p1); BN_free(q1); BN_free(phi);
	key_finish(k);
}

/* ------------------------------------------------------------------ */
/* Section LIMITS: factors / moduli at and beyond the documented size limits
   (bearssl_rsa.h: "the maximum modulus size is 4096 bits, and the maximum prime
   factor size is 2080 bits"; compute_modulus: "if the key size exceeds an
   internal limit, 0 is returned"; compute_pubexp: 0 if "an internal limit is
   exceeded"; compute_privexp succeeds if "no internal storage limit is
   exceeded").  The header does not say where exactly each function's limit lies,
   so beyond the documented maximum the oracle is: the function reports an error
   (0) OR its result is the mathematically correct one - never a wrong value,
   never an out-of-bounds access (ASan).  AT the documented maximum (2080-bit
   factor) success with the correct value is required.  Primes are constants
   (all = 3 mod 4, p-1 prime to 3 and 65537), made once with `openssl prime`. */

static const char HEX_P2088[] =
	"ce636d25db52981339271026415615facf5b684ae56d364b88a3e1fa7f4d5455c5c480bbc5ad027ada39de7d248a09135071"
	"1498038cf4c2275e1e6c659130311917095bd9768dc36944df7bed9b02462e8106f22f084b9ff9336c6832d01fb951122a87"
	"70c2275e4222d283173ecbbf56d5454fea630e259678c001a81575e44c5e532faef33c5f8a50d6c6f42ecce7e88a53c34aa8"
	"dec5cc612f3f0481071a98f5cc3ba80795466de08106231c1a65d6f38982cdddaaaba8147ad24a22e1492c4ca2cb1c4770e9"
	"d083048b546b40f9c404f4f8e1e989fb52eb444ff1487da69a775fa76b59598592cdc9557fb7c14a9766184fe2edb58a456f"
	"ae1506e439203c33c88e77";
static const char HEX_P2080A[] =
	"e2cffb3676e5221bb0b99f8f50ab1d5fbc59b6f54f75f6f4cf55823926b32c5560151fe86e86bd839e1b045afe551454255d"
	"7faee0d582c9684811604196af066f2ed2283218bd1002da24e9263e468f568e219bdb9ff4254de5e37d0bc0dbfdafc247f2"
	"a352563ab53c3fc1596db364deea65df3f677526e785f294d1a4f0f0b6270d8f2fb0e21813848432b2e7b0933a11d6fa096f"
	"b6617e267f504df2adb0c6f46f4577940a606b75bf26dc29db558780085c0f78b3e49f89066141beaadecca0951ab8c4adc8"
	"6c6b9446f16f19b29dcbf0e3b5a21b165b83be21638bcd1406515d919db02957930e72460d5a4182a8ed37fbbdb93eb1b41e"
	"45ff78e561ee299f1fcb";
static const char HEX_P2080B[] =
	"f6ea2aeec8d3da086267cf012396862c0e3d0ac4ea998fa4e87f7e210958841346fda0a2e0d8fab9aaf56454ff16345112b3"
	"d94e6bb3e633998a4d02a7207e4547c678e444ca794cf4fd6fc6a8aaabf4113f10888628f5631084b31cf4f95f046cc0a5e5"
	"f48e4acd67ebcc586e98da0fca42def785b0e101a5723c2755fb056ac0d865d34b54d23d542b14cdb53ecf92079e59f37bdb"
	"904b309e41c4e62cc616f1d548a19861614437ddf1720bbb6848b5854be89808a2fd9863777d2d642bf6e945a3db2bd7a654"
	"bf754acdd5681acc8d021f252e12f5ba01f1ef3c1089295c3be336da2fa76f34ef6534e77320b4a8e4babff483b1356cfe65"
	"6303509f1757393eea63";
static const char HEX_P520[] =
	"d2f9857ba02944f72848ffefac90f383b4a6422b929b2331049b0d0498c1a262e9c8b2a7c2921ede1c52d1bae06e89269db4"
	"3524801400ea70018815ee3bdc6cbf";
static const char HEX_P2560[] =
	"f4e29386e9a3ca68c1731e5fd7cc67f6f55259272e872854f7812936ffc8bcd26c4dc9e301b773607199369560636c491698"
	"9827afaf3ff7b1cca3d0b9e3dab4b04a8191a45ce4fff8458249ff215b5b7e42c9d14498cd0f8b0636c1042f75326cbf08e0"
	"d9b1fbb2426038530acced51494c215ba778a1aea8e9bfe1d2138447c85b0d7ba9562099484ec0d3ff20dd7ab5f19fe59009"
	"9083a274d12fcc46c9e5da2cad4fe26904633b9588d19d5be20fea527732aa096df992e10cd6af739a233b934e7b256cf6a5"
	"334423076fecb908619726209719d6490d7a5a79c4ed00acef5286ab6ac7b25af59c0e38d91e64dd0331e306ec5f073b6787"
	"e44e6ac31c950b40cc8b9246b0e68f7affe5393741c2ae773745c3e83931956798b6212d05b66af89839fadb814c6fa6e336"
	"ecc3c14918091d92ea8758e847a57ef39e782ddf";

static BIGNUM *
bn_hex(const char *h)
{
	BIGNUM *b = NULL;
	if (!BN_hex2bn(&b, h)) HARNESS_FAIL("hex2bn");
	return b;
}

/* key from two primes (takes ownership of p and q) */
static void
key_from_pq(rkey *k, BIGNUM *p, BIGNUM *q, unsigned long e, const char *name)
{
	BIGNUM *p1 = BN_new(), *q1 = BN_new(), *phi = BN_new();
	memset(k, 0, sizeof *k);
	k->e = BN_new(); BN_set_word(k->e, e);
	k->p = p; k->q = q;
	k->n = BN_new(); k->d = BN_new(); k->dp = BN_new(); k->dq = BN_new(); k->iq = BN_new();
	BN_mul(k->n, k->p, k->q, bnctx);
	BN_sub(p1, k->p, BN_value_one()); BN_sub(q1, k->q, BN_value_one());
	BN_mul(phi, p1, q1, bnctx);
	if (!BN_mod_inverse(k->d, k->e, phi, bnctx)) HARNESS_FAIL("from-pq-d");
	BN_mod(k->dp, k->d, p1, bnctx); BN_mod(k->dq, k->d, q1, bnctx);
	if (!BN_mod_inverse(k->iq, k->q, k->p, bnctx)) HARNESS_FAIL("from-pq-iq");
	snprintf(k->name, sizeof k->name, "%s", name);
	BN_free(p1); BN_free(q1); BN_free(phi);
	key_finish(k);
}

/* the idx-th largest prime below 2^bits that is 3 mod 4 and has p-1 prime to 65537 */
static BIGNUM *
small_prime_m3(int bits, int idx)
{
	BIGNUM *c = BN_new(), *t = BN_new();
	BN_one(c); BN_lshift(c, c, bits); BN_sub_word(c, 1);     /* 2^bits - 1 = 3 mod 4 */
	for (;;) {
		if (BN_check_prime(c, bnctx, NULL) == 1) {
			BN_sub(t, c, BN_value_one());
			if (BN_mod_word(t, 65537) != 0 && idx -- == 0) break;
		}
		BN_sub_word(c, 4);
	}
	BN_free(t);
	return c;
}

/* strict = 1: the key is within every documented limit, success is required */
static void
limits_key(const impl_t *m, const rkey *k, int strict, int nviews)
{
	size_t nlen = k->nlen;
	int j;
	for (j = 0; j < nviews; j ++) {
		skv sv;
		int swap = nviews == 1 ? (int)((g_seed + (unsigned)g_unit) & 1) : j;
		mk_sk(&sv, k, swap, NULL);
		vf_distinct("config", "limits/%s/%s/swap%d", m->name, k->name, swap);
		if (m->priv) {
			unsigned char *x = xmalloc(nlen), *b = xmalloc(nlen), *ref = xmalloc(nlen);
			uint32_t r;
			rand_below_n(k, x);
			ref_modexp(k, k->d, ref, x, nlen);
			memcpy(b, x, nlen);
			r = m->priv(b, &sv.sk);
			CMP("limits_priv");
			vf_stat(r ? "limits_priv_ret1" : "limits_priv_ret0", 1);
			if (r > 1 || (r == 1 && memcmp(b, ref, nlen) != 0) || (strict && r != 1))
				rviol(strict ? "C10:limits:private-at-limit" : "C10:limits:private-beyond-limit",
					strict ? "private op fails / differs from BN_mod_exp with a factor of the documented maximum size"
					: "private op with a factor/modulus beyond the documented maximum returned 1 with a wrong value",
					"%s sk=%s r=%u x=%s", g_ctx, sv.desc, r, vf_hexs(x, nlen));
			free(x); free(b); free(ref);
		}
		if (m->cmod) {
			unsigned char *nb = xmalloc(nlen), *ref = xmalloc(nlen);
			size_t l0 = m->cmod(NULL, &sv.sk), l1;
			memset(nb, 0x5A, nlen);
			l1 = m->cmod(nb, &sv.sk);
			BN_bn2binpad(k->n, ref, (int)nlen);
			CMP("limits_modulus");
			vf_stat(l1 ? "limits_modulus_ret_len" : "limits_modulus_ret0", 1);
			if ((l0 != 0 && l0 != nlen) || (l1 != 0 && (l1 != nlen || memcmp(nb, ref, nlen) != 0)) || (strict && (l0 != nlen || l1 != nlen)))
				rviol(strict ? "C10:limits:modulus-at-limit" : "C10:limits:modulus-beyond-limit",
					"compute_modulus: neither 0 nor the exact p*q (or 0 within the documented limits)",
					"%s sk=%s l0=%u l1=%u", g_ctx, sv.desc, (unsigned)l0, (unsigned)l1);
			free(nb); free(ref);
		}
		if (m->cpub) {
			uint32_t e = m->cpub(&sv.sk);
			CMP("limits_pubexp");
			vf_stat(e ? "limits_pubexp_ret_e" : "limits_pubexp_ret0", 1);
			if ((e != 0 && e != k->e32) || (strict && e != k->e32))
				rviol(strict ? "C10:limits:pubexp-at-limit" : "C10:limits:pubexp-beyond-limit",
					"compute_pubexp: neither 0 nor the public exponent (or 0 within the documented limits)",
					"%s sk=%s got=%u", g_ctx, sv.desc, e);
		}
		if (m->cpriv) {
			unsigned char *db = xmalloc(nlen + 8);
			size_t l0 = m->cpriv(NULL, &sv.sk, k->e32), l1;
			int ok = 1;
			memset(db, 0x5A, nlen + 8);
			l1 = m->cpriv(db, &sv.sk, k->e32);
			CMP("limits_privexp");
			vf_stat(l1 ? "limits_privexp_ret_len" : "limits_privexp_ret0", 1);
			if (l1 != 0) {
				BIGNUM *d = bn_from(db, l1 <= nlen + 8 ? l1 : nlen + 8), *p1 = BN_dup(k->p), *q1 = BN_dup(k->q), *t = BN_new();
				BN_sub_word(p1, 1); BN_sub_word(q1, 1);
				BN_mod_mul(t, d, k->e, p1, bnctx); ok = BN_is_one(t);
				BN_mod_mul(t, d, k->e, q1, bnctx); ok &= BN_is_one(t);
				ok &= (l1 == nlen) && (l0 == l1);
				BN_free(d); BN_free(p1); BN_free(q1); BN_free(t);
			}
			if (!ok || (strict && l1 == 0))
				rviol(strict ? "C10:limits:privexp-at-limit" : "C10:limits:privexp-beyond-limit",
					"compute_privexp: neither 0 nor an inverse of e (or 0 within the documented limits)",
					"%s sk=%s l0=%u l1=%u", g_ctx, sv.desc, (unsigned)l0, (unsigned)l1);
			free(db);
		}
		free_sk(&sv);
	}
}

static void
sec_limits(const impl_t *m)
{
	rkey k;
	int v;

	/* factor of exactly the documented maximum (2080 bits = BR_MAX_RSA_FACTOR): must work */
	key_from_pq(&k, bn_hex(HEX_P2080A), bn_hex(HEX_P520), 65537, "f2080x520");
	limits_key(m, &k, 1, 2);
	key_free(&k);
	/* one byte more than BR_MAX_RSA_FACTOR / 8 (as p, and as q through the swapped view) */
	key_from_pq(&k, bn_hex(HEX_P2088), bn_hex(HEX_P520), 65537, "f2088x520");
	if ((size_t)BN_num_bytes(k.p) != (BR_MAX_RSA_FACTOR / 8) + 1) HARNESS_FAIL("limits-size");
	limits_key(m, &k, 0, 2);
	key_free(&k);
	/* legal factors, modulus of 4160 bits */
	key_from_pq(&k, bn_hex(HEX_P2080A), bn_hex(HEX_P2080B), 65537, "f2080x2080");
	limits_key(m, &k, 0, 1);
	key_free(&k);
	/* 2560-bit factor */
	key_from_pq(&k, bn_hex(HEX_P2560), bn_hex(HEX_P520), 65537, "f2560x520");
	limits_key(m, &k, 0, 1);
	key_free(&k);
	/* undersized factors: 4 bytes (below the 5 bytes compute_pubexp / compute_privexp ask for), 5 bytes, 4 x 5 */
	key_from_pq(&k, small_prime_m3(32, 0), small_prime_m3(32, 1), 65537, "f32x32");
	limits_key(m, &k, 0, 2);
	key_free(&k);
	key_from_pq(&k, small_prime_m3(40, 0), small_prime_m3(33, 0), 65537, "f40x33");
	limits_key(m, &k, 0, 2);
	key_free(&k);
	key_from_pq(&k, small_prime_m3(24, 0), small_prime_m3(17, 0), 65537, "f24x17");
	limits_key(m, &k, 0, 2);
	key_free(&k);

	/* far beyond every limit (random odd 400-byte "factor", not a key at all): nothing to judge but the
	   sanitizers; the functions must not write outside their fixed-size buffers */
	for (v = 0; v < 2; v ++) {
		br_rsa_private_key sk;
		size_t big = 400 + vf_below(&R, 60), small = 65, xl;
		unsigned char *pb = xmalloc(big), *qb, *x, *db;
		BIGNUM *q = bn_hex(HEX_P520), *p, *n = BN_new();
		uint32_t r;
		size_t l;
		vf_bytes(&R, pb, big);
		pb[0] |= 0x80; pb[big - 1] |= 3;
		p = bn_from(pb, big);
		BN_mul(n, p, q, bnctx);
		qb = bn_buf(q, 0, &small);
		sk.n_bitlen = (uint32_t)BN_num_bits(n);
		xl = (sk.n_bitlen + 7) >> 3;
		if (v == 0) { sk.p = pb; sk.plen = big; sk.q = qb; sk.qlen = small; }
		else { sk.q = pb; sk.qlen = big; sk.p = qb; sk.plen = small; }
		sk.dp = xmalloc(sk.plen); sk.dplen = sk.plen; vf_bytes(&R, sk.dp, sk.dplen); sk.dp[0] &= 0x7F; sk.dp[sk.dplen - 1] |= 1;
		sk.dq = xmalloc(sk.qlen); sk.dqlen = sk.qlen; vf_bytes(&R, sk.dq, sk.dqlen); sk.dq[0] &= 0x7F; sk.dq[sk.dqlen - 1] |= 1;
		sk.iq = xmalloc(sk.plen); sk.iqlen = sk.plen; vf_bytes(&R, sk.iq, sk.iqlen); sk.iq[0] &= 0x7F;
		x = xmalloc(xl); vf_bytes(&R, x, xl); x[0] = 0;
		db = xmalloc(xl + 8);
		if (m->priv) {
			r = m->priv(x, &sk);
			vf_stat(r ? "unjudged_limits_huge_priv_ret1" : "unjudged_limits_huge_priv_ret0", 1);
		}
		if (m->cmod) {
			l = m->cmod(db, &sk);
			vf_stat(l ? "unjudged_limits_huge_modulus_ret_len" : "unjudged_limits_huge_modulus_ret0", 1);
		}
		if (m->cpub) {
			r = m->cpub(&sk);
			vf_stat(r ? "unjudged_limits_huge_pubexp_ret_e" : "unjudged_limits_huge_pubexp_ret0", 1);
		}
		if (m->cpriv) {
			l = m->cpriv(db, &sk, 65537);
			vf_stat(l ? "unjudged_limits_huge_privexp_ret_len" : "unjudged_limits_huge_privexp_ret0", 1);
		}
		vf_stat("unjudged_limits_huge", 1);
		free(pb); free(qb); free(sk.dp); free(sk.dq); free(sk.iq); free(x); free(db);
		BN_free(p); BN_free(q); BN_free(n);
	}
}

enum { S_RAW, S_P1, S_PSS, S_OAEP, S_TLS, S_N };
static const char *SECNAME[] = { "raw", "p1", "pss", "oaep", "tls" };

int
main(int argc, char **argv)
{
	const char *fix = vf_arg(argc, argv, "--fixtures", "fixtures/rsa");
	int worker = (int)vf_argi(argc, argv, "--worker", 0);
	int nworkers = (int)vf_argi(argc, argv, "--nworkers", 1);
	int only = (int)vf_argi(argc, argv, "--unit", -1);
	int list = (int)vf_argi(argc, argv, "--list", 0);
	char path[600], line[200];
	FILE *f;
	int uid = 0, ki, si, mi;
	const unsigned *sizes;
	size_t nsizes, zi, ei;

	g_seed = (unsigned long long)vf_argi(argc, argv, "--seed", 1);
	g_cases = vf_argi(argc, argv, "--cases", 20);
	g_tier = (int)vf_argi(argc, argv, "--tier", 0);
	vf_max_samples = 2;
	bnctx = BN_CTX_new();
	init_impls();

	snprintf(path, sizeof path, "%s/INDEX", fix);
	f = fopen(path, "r");
	if (!f) HARNESS_FAIL("fixture-index");
	while (fgets(line, sizeof line, f) && nkeys < MAXKEYS) {
		char file[44];
		if (sscanf(line, "%43s", file) != 1) continue;
		key_load(&KEYS[nkeys ++], fix, file);
	}
	fclose(f);
	if (nkeys < 8) HARNESS_FAIL("too-few-fixture-keys");
	{
		static const int shapes[6][2] = { { 256, 281 }, { 300, 301 }, { 512, 520 }, { 384, 640 }, { 640, 384 }, { 521, 512 } };
		vf_rng kr;
		int q;
		vf_rng_init(&kr, 0x5eed, 4242);      /* the same keys for every seed: they are inputs, like the fixtures */
		for (q = 0; q < 6 && nkeys < MAXKEYS; q ++) key_unbalanced(&KEYS[nkeys ++], shapes[q][0], shapes[q][1], q == 1 ? 3 : 65537, &kr);
		{
			/* modulus lengths at the PKCS#1 v1.5 signature capacity boundary of each hash function
			   (DigestInfo + 11 bytes: 44 MD5... no OID-less case, 46 SHA-1, 58 SHA-224, 62 SHA-256, 78 SHA-384, 94 SHA-512)
			   and one byte below it */
			static const int nl[10] = { 45, 46, 57, 58, 61, 62, 77, 78, 93, 94 };
			for (q = 0; q < 10 && nkeys < MAXKEYS; q ++) key_unbalanced(&KEYS[nkeys ++], 4 * nl[q], 4 * nl[q], 65537, &kr);
		}
	}
	{
		vf_rng kr;
		vf_rng_init(&kr, 0x5eed, 4343);
		if (nkeys < MAXKEYS) key_short_crt(&KEYS[nkeys ++], 512, 65537, 2, &kr);
		if (nkeys < MAXKEYS) key_short_crt(&KEYS[nkeys ++], 520, 65537, 3, &kr);
		if (nkeys < MAXKEYS) key_short_crt(&KEYS[nkeys ++], 512, 4294967291ul, 1, &kr);
		if (nkeys < MAXKEYS) key_short_crt(&KEYS[nkeys ++], 768, 4294967291ul, 3, &kr);
	}
	qsort(KEYS, (size_t)nkeys, sizeof KEYS[0], keycmp);

#define UNIT_BEGIN(fmt, ...) \
	do { int mine = (only >= 0) ? (uid == only) : ((uid + uid / nworkers) % nworkers == worker); \
		g_unit = uid; \
		if (list) printf("unit %d " fmt "\n", uid, __VA_ARGS__); \
		uid ++; \
		if (!mine || list) break; \
		vf_rng_init(&R, g_seed, (uint64_t)g_unit + 1000); \
		vf_stat("units", 1);
#define UNIT_END  } while (0)

	for (ki = 0; ki < nkeys; ki ++) {
		rkey *k = &KEYS[ki];
		for (si = 0; si < S_N; si ++) {
			for (mi = 0; mi < NIMPL; mi ++) {
				const impl_t *m = &IMPLS[mi];
				UNIT_BEGIN("%s %s %s", SECNAME[si], m->name, k->name);
				snprintf(g_ctx, sizeof g_ctx, "unit=%d seed=%llu sec=%s impl=%s key=%s", g_unit, g_seed, SECNAME[si], m->name, k->name);
				vf_distinct("key_impl", "%s/%s", k->name, m->name);
				switch (si) {
				case S_RAW: sec_raw(k, m); break;
				case S_P1: sec_p1(k, m); break;
				case S_PSS: sec_pss(k, m); break;
				case S_OAEP: sec_oaep(k, m); break;
				case S_TLS: sec_tls(k, m); break;
				}
				UNIT_END;
			}
		}
		UNIT_BEGIN("compute all %s", k->name);
		sec_compute(k);
		UNIT_END;
	}
	if (g_tier) { sizes = KG_SIZES_T; nsizes = sizeof KG_SIZES_T / sizeof KG_SIZES_T[0]; }
	else { sizes = KG_SIZES_Q; nsizes = sizeof KG_SIZES_Q / sizeof KG_SIZES_Q[0]; }
	for (zi = 0; zi < nsizes; zi ++) {
		for (ei = 0; ei < (g_tier ? 5u : 3u); ei ++) {
			for (mi = 0; mi < NIMPL; mi ++) {
				const impl_t *m = &IMPLS[mi];
				int rounds, rd;
				if (mi == 2) continue;          /* i32 has no key generator */
				/* small sizes: several keys per combination */
				rounds = sizes[zi] <= 1031 ? (g_tier ? 6 : 2) : 1;
				if (sizes[zi] > 2049 && ei >= 3) continue;
				for (rd = 0; rd < rounds; rd ++) {
					UNIT_BEGIN("keygen %s %u e=%u round=%d", m->name, sizes[zi], KG_EXPS[ei], rd);
					snprintf(g_ctx, sizeof g_ctx, "unit=%d seed=%llu sec=keygen impl=%s size=%u e=%u", g_unit, g_seed, m->name, sizes[zi], KG_EXPS[ei]);
					sec_keygen(m, sizes[zi], KG_EXPS[ei], rd);
					UNIT_END;
				}
			}
		}
	}
	/* size limits (appended so that the numbering of the older units is unchanged) */
	for (mi = 0; mi < NIMPL; mi ++) {
		const impl_t *m = &IMPLS[mi];
		UNIT_BEGIN("limits %s", m->name);
		snprintf(g_ctx, sizeof g_ctx, "unit=%d seed=%llu sec=limits impl=%s", g_unit, g_seed, m->name);
		sec_limits(m);
		UNIT_END;
	}
	if (list) return 0;
	vf_done();
	return 0;
}
