/*
 * C01: BearSSL client <-> BearSSL server sessions over every (suite, version)
 * pair with varied buffer layouts/sizes, transport chunkings and payload
 * plans. Oracles: handshake completes, both sides agree on parameters and
 * exported keys, position-coded streams are delivered exactly, every wire
 * record authenticates under independently derived keys (recmon), orderly
 * close ends both sides with error 0, C06 coherence after every call.
 */
#include "tlsmon.h"

/* (suite, version) pair table */
typedef struct { const tp_suite_info *s; unsigned version; } sv_pair;
static sv_pair sv[200];
static int nsv;

static void
build_sv(void)
{
	size_t i;
	unsigned v;
	for (i = 0; i < TP_NSUITES; i ++) {
		for (v = 0x0301; v <= 0x0303; v ++) {
			if (tp_suites[i].tls12only && v != 0x0303) continue;
			sv[nsv].s = &tp_suites[i];
			sv[nsv].version = v;
			nsv ++;
		}
	}
}

/* buffer size classes; 8192 has no max_fragment_length code: such an endpoint works with 4096-byte fragments */
static const size_t frag_classes[6] = { 512, 1024, 2048, 4096, 8192, 16384 };
static const size_t frag_effective[6] = { 512, 1024, 2048, 4096, 4096, 16384 };

static void
set_buffers(tp_cfg *c, int layout, size_t frag, int extra)
{
	c->layout = layout;
	switch (layout) {
	case TP_LAYOUT_MONO: c->buflen = frag + 325 + (size_t)extra; break;
	case TP_LAYOUT_SPLIT1:
		/* the engine keeps 512+85 for output unless the buffer is larger than 16384+325+512+85 */
		c->buflen = frag == 16384 ? BR_SSL_BUFSIZE_BIDI + (size_t)extra : frag + 325 + 512 + 85 + (size_t)extra;
		break;
	default:
		c->buflen = frag + 325 + (size_t)extra;
		c->buflen_out = frag + 85 + (size_t)extra;
		break;
	}
}

static size_t
plan_len(vf_rng *r, size_t frag, int cls)
{
	switch (cls) {
	case 0: return 0;
	case 1: return 1;
	case 2: return 2;
	case 3: return frag - 1;
	case 4: return frag;
	case 5: return frag + 1;
	case 6: return 2 * frag + 3;
	default: return 1 + vf_below(r, (uint32_t)(3 * frag));
	}
}

/* length of the ClientHello contents (without the 4-byte handshake header) a client with this configuration emits:
   a scratch client is started and its first flight is taken record by record; 0 if it does not come out */
static size_t
clienthello_len(const tp_cfg *cfg)
{
	tp_ep e;
	tp_cfg c = *cfg;
	size_t total = 0, want = 0;
	int n = 0;
	memset(&e, 0, sizeof e);
	c.reuse_ctx = 0;
	if (!tp_ep_start(&e, &c)) { tp_ep_free(&e); return 0; }
	while (n ++ < 100 && (br_ssl_engine_current_state(e.eng) & BR_SSL_SENDREC)) {
		size_t l;
		unsigned char *b = br_ssl_engine_sendrec_buf(e.eng, &l);
		if (l < 5 || b[0] != 22) break;
		if (total == 0 && l >= 9) {
			if (b[5] != 1) break;
			want = ((size_t)b[6] << 16) | ((size_t)b[7] << 8) | b[8];
		}
		total += l - 5;
		br_ssl_engine_sendrec_ack(e.eng, l);
	}
	tp_ep_free(&e);
	/* the announced length and the bytes that came out must agree */
	if (total < 4 || want != total - 4) return 0;
	return want;
}

int
main(int argc, char **argv)
{
	long long seed = vf_argi(argc, argv, "--seed", 1);
	int worker = (int)vf_argi(argc, argv, "--worker", 0);
	int nworkers = (int)vf_argi(argc, argv, "--nworkers", 1);
	long ncases = (long)vf_argi(argc, argv, "--cases", 75);
	long only = (long)vf_argi(argc, argv, "--only", -1);
	int full16k = (int)vf_argi(argc, argv, "--full16k", 0);
	long idx;

	tp_prop = "C01";
	build_sv();
	for (idx = worker; idx < ncases; idx += nworkers) {
		vf_rng r;
		tp_pair p;
		tp_cfg cc, sc;
		tm_pairmon pm;
#define m (pm.m)
		const sv_pair *pv = &sv[idx % nsv];
		long variant = idx / nsv;
		int clayout, slayout, ccls, scls, chunk, wpol, closer, hs_ok, data_ok, close_ok;
		size_t cfrag, sfrag, c_total, s_total, eff_c, eff_s;
		uint16_t suite_list[1];
		int keykind, cauth;
		const br_x509_certificate *sch, *cch;
		size_t schn, cchn;

		if (only >= 0 && idx != only) continue;
		vf_rng_init(&r, (uint64_t)seed, (uint64_t)idx);
		/* systematic part: layouts and size classes cycle with the variant, rest random */
		clayout = (int)((variant + vf_below(&r, 3)) % 3);
		slayout = (int)vf_below(&r, 3);
		ccls = (int)((variant / 3 + vf_below(&r, 6)) % 6);
		scls = ccls + (int)vf_below(&r, (uint32_t)(6 - ccls));   /* server class >= client class */
		if (!full16k && vf_below(&r, 4) != 0) {
			/* keep most sessions cheap: 16 KiB classes only for a quarter of the cases */
			if (ccls == 5) ccls = (int)vf_below(&r, 5);
			if (scls < ccls) scls = ccls;
		}
		cfrag = frag_classes[ccls]; sfrag = frag_classes[scls];
		chunk = (int)((variant + idx) % 5);
		wpol = (int)vf_below(&r, 5);
		closer = (int)vf_below(&r, 3);
		keykind = tp_key_for_suite(pv->s, (int)vf_below(&r, 2));

		tp_cfg_default(&cc, 0);
		tp_cfg_default(&sc, 1);
		set_buffers(&cc, clayout, cfrag, (int)vf_below(&r, 3) == 0 ? 1 : 0);
		set_buffers(&sc, slayout, sfrag, (int)vf_below(&r, 3) == 0 ? 1 : 0);
		suite_list[0] = pv->s->id;
		cc.suites = suite_list; cc.nsuites = 1;
		/* who narrows the version: the client offers exactly it, or the server is limited to it while
		   the client offers more (the negotiated version is then below the client's maximum), or
		   both have it as their maximum */
		switch ((int)vf_below(&r, 3)) {
		case 0: cc.vmin = cc.vmax = pv->version; sc.vmin = 0x0301; sc.vmax = 0x0303; break;
		case 1: cc.vmin = 0x0301; cc.vmax = 0x0303; sc.vmin = sc.vmax = pv->version; break;
		default: cc.vmin = 0x0301; cc.vmax = pv->version; sc.vmin = 0x0301; sc.vmax = pv->version; break;
		}
		vf_distinct("version_shape", "%04x c%04x-%04x s%04x-%04x kx%d", pv->version, cc.vmin, cc.vmax, sc.vmin, sc.vmax, pv->s->kx);
		sc.keykind = keykind;
		if ((idx % 8) == 5) {
			/* an eighth of the sessions on one of the library's seven minimal server profiles (br_ssl_server_init_mine2c ...
			   minv2g), taken as it is: TLS 1.2, one suite, SHA-256; the client offers its whole default list and range */
			static const uint16_t psuite[8] = { 0, 0xCCA8, 0xC02F, 0xCCA9, 0xC02B, 0x009C, 0xC031, 0xC02D };
			static const int pkey[8] = { 0, TP_KEY_RSA, TP_KEY_RSA, TP_KEY_ECEC, TP_KEY_ECRSA, TP_KEY_RSA, TP_KEY_ECRSA, TP_KEY_ECEC };
			int pf = 1 + (int)((idx / 8) % 7), q;
			for (q = 0; q < nsv; q ++) if (sv[q].s->id == psuite[pf] && sv[q].version == 0x0303) break;
			if (q < nsv) {
				pv = &sv[q];
				sc.profile = pf; sc.keykind = keykind = pf == 3 || pf == 4 ? ((idx / 56) & 1 ? TP_KEY_ECRSA : TP_KEY_ECEC) : pkey[pf];
				sc.vmin = sc.vmax = 0;                       /* the profile's own version range */
				cc.vmin = 0x0301; cc.vmax = 0x0303;
				if ((idx / 8) & 8) { cc.suites = NULL; cc.nsuites = 0; } else { suite_list[0] = pv->s->id; }
				vf_stat("sessions_on_minimal_server_profiles", 1);
				vf_distinct("server_profile", "%d/k%d", pf, keykind);
			}
		}
		/* chains: the single certificate, leaf + intermediate, a 21 kB leaf (Certificate message over several records,
		   whatever the fragment classes), leaf + superfluous root; a quarter of the sessions with client certificates
		   (RSA, possibly with its intermediate; EC: signature or static ECDH as the suite allows) */
		sc.chain_kind = (int)(idx % 4);
		if (sc.chain_kind == 2 && !full16k && (idx % 3) != 0) sc.chain_kind = 1;
		cauth = (idx % 4) == 3 ? 1 + (int)((idx >> 2) & 1) : 0;
		cc.client_auth = sc.client_auth = cauth;
		cc.chain_kind = (int)((idx >> 3) % 3);      /* alone, with its intermediate, the RSA-4096 client */
		sch = tp_chain_pick(1, keykind, 0, 0, sc.chain_kind, &schn);
		cch = tp_chain_pick(0, 0, cauth, 0, cc.chain_kind, &cchn);
		vf_distinct("chain_shape", "key%d s%zu:%zu c%zu:%zu", keykind, schn, sch[0].data_len, cchn, cchn ? cch[0].data_len : (size_t)0);
		/* which implementations serve the record layer and the key exchange: each side draws its own set */
		cc.impl_set = (int)vf_below(&r, 4); sc.impl_set = (int)vf_below(&r, 4);
		vf_distinct("impl_sets", "%04x c%d s%d", pv->s->id, cc.impl_set, sc.impl_set);
		/* ECDHE suites: a third of the sessions leave the client a single curve (each of the four in turn), so that the
		   key exchange runs on P-384, P-521 and Curve25519 too, not only on the server's first preference */
		if ((pv->s->kx == TP_KX_ECDHE_RSA || pv->s->kx == TP_KX_ECDHE_ECDSA) && (idx % 3) == 1) {
			static const int oc[4] = { BR_EC_secp256r1, BR_EC_secp384r1, BR_EC_secp521r1, BR_EC_curve25519 };
			cc.only_curve = oc[(idx / 3) % 4];
			/* the server's ECDSA key is on P-256: the client must be able to verify that too unless RSA signs */
			if (pv->s->kx == TP_KX_ECDHE_ECDSA && cc.only_curve != BR_EC_secp256r1) cc.only_curve = 0;
			/* (implementation set 3 is br_ec_prime_i31: no Curve25519 on that side) */
			if (cc.only_curve == BR_EC_curve25519 && (sc.impl_set == 3 || cc.impl_set == 3)) cc.only_curve = 0;
			if (cc.only_curve) vf_distinct("ecdhe_curve", "%04x c%d", pv->s->id, cc.only_curve);
		}
		vf_bytes(&r, cc.seed, 32);
		vf_bytes(&r, sc.seed, 32);

		/* effective fragment length in each direction: the client's class bounds both */
		eff_c = frag_effective[ccls];
		eff_s = frag_effective[ccls < scls ? ccls : scls];
		c_total = plan_len(&r, eff_c, (int)vf_below(&r, 8));
		s_total = plan_len(&r, eff_s, (int)vf_below(&r, 8));
		if (chunk == TP_CHUNK_ONE && (c_total + s_total) > 6000) {
			/* all-one-byte transport on long streams costs too much: shorten the streams */
			c_total %= 3000; s_total %= 3000;
		}

		snprintf(tp_case, sizeof tp_case,
			"seed=%lld idx=%ld suite=%s(%04x) ver=%04x key=%d cl=%d/%zu sl=%d/%zu chunk=%d wpol=%d c_total=%zu s_total=%zu closer=%d",
			seed, idx, pv->s->name, pv->s->id, pv->version, keykind,
			clayout, cc.buflen, slayout, sc.buflen, chunk, wpol, c_total, s_total, closer);

		tp_pair_init(&p, (uint64_t)seed, (uint64_t)idx * 7 + 3, chunk);
		p.defer_acks = (idx % 5) == 2;      /* completion-style output on split buffers */
		p.c.tx_key = vf_u64(&r);
		p.s.tx_key = vf_u64(&r);
		if ((idx % 6) == 4) {
			/* a seventh of the sessions run on contexts that have already carried a connection: another suite and
			   version of the plan, ended in order, abandoned in the middle of the data, or abandoned in mid-handshake.
			   (What is fixed when a context is initialised - buffers, certificates, implementations - stays.) */
			const sv_pair *pv0 = &sv[(size_t)((idx * 13 + 5) % nsv)];
			tp_cfg c0 = cc, s0 = sc;
			uint16_t sl0[1];
			int how = (int)((idx / 6) % 3);
			if (tp_key_for_suite(pv0->s, 0) == sc.keykind || tp_key_for_suite(pv0->s, 1) == sc.keykind) {
				sl0[0] = pv0->s->id; c0.suites = sl0; c0.nsuites = 1;
				c0.vmin = 0x0301; c0.vmax = pv0->version; s0.vmin = 0x0301; s0.vmax = 0x0303;
			}
			vf_bytes(&r, c0.seed, 32); vf_bytes(&r, s0.seed, 32);
			if (tp_ep_start(&p.c, &c0) && tp_ep_start(&p.s, &s0)) {
				if (how == 2) { long q; for (q = 0; q < 5; q ++) if (!tp_pump_step(&p)) break; }
				else if (tp_handshake(&p, 2000000)) {
					tp_run_data(&p, 1 + vf_below(&r, 3000), 1 + vf_below(&r, 3000), TP_W_MIXED, 2000000);
					if (how == 0) tp_run_close(&p, (int)vf_below(&r, 3), 200000);
					else { tp_act_write(&p.c, 100); tp_act_write(&p.s, 100); tp_act_flush(&p.c, 0); }
				}
				vf_stat("sessions_on_used_contexts", 1);
				vf_distinct("previous_life", "%d/%04x->%04x", how, pv0->s->id, pv->s->id);
				cc.reuse_ctx = 1; sc.reuse_ctx = 1;
				/* the call counters of the validator wrappers start over with the judged connection */
				if (p.c.xw) { p.c.xw->n_start_chain = p.c.xw->n_end_chain = p.c.xw->n_get_pkey = p.c.xw->n_start_cert = 0; p.c.xw->verdict_seen = 0; }
				if (p.s.xw) { p.s.xw->n_start_chain = p.s.xw->n_end_chain = p.s.xw->n_get_pkey = p.s.xw->n_start_cert = 0; p.s.xw->verdict_seen = 0; }
			}
			p.c2s.rd = p.c2s.wr = 0; p.s2c.rd = p.s2c.wr = 0;
			p.c.tx_key = vf_u64(&r);
			p.s.tx_key = vf_u64(&r);
		}
		if ((idx % 2) == 1) {
			/* half of the sessions with a minimum ClientHello length (RFC 7685 padding) around the length the hello
			   has by itself: from one byte below to a few bytes above (where the 4-byte extension header does not fit
			   the gap), and the customary 256 / 512; the hello must come out whole, at least that long and at most
			   3 bytes longer, unchanged when it is long enough already, and the session proceeds as any other */
			static const int deltas[12] = { 1, 2, 3, 4, 5, -1, 0, 7, 100, 1000, 1001, 1002 };
			size_t n0 = clienthello_len(&cc), n1, want;
			int d = deltas[(idx / 2) % 12];
			want = d >= 1000 ? (size_t)(256 << (d - 1000)) : (size_t)((long)n0 + d);
			cc.min_ch_len = (unsigned)want;
			n1 = clienthello_len(&cc);
			vf_stat("clienthello_min_length_cases", 1);
			vf_distinct("clienthello_padding", "%d/%s", d, n1 > n0 ? "padded" : "as-is");
			if (n0 == 0 || n1 == 0 || n1 < want || n1 > (want > n0 ? want : n0) + 3 || (want <= n0 && n1 != n0)) {
				char what[200];
				snprintf(what, sizeof what, "minimum ClientHello length %zu: the hello has %zu bytes by itself and %zu bytes with the setting (0 = announced length and emitted bytes disagree)", want, n0, n1);
				TP_VIOL("handshake:clienthello-padding", what);
			}
		}
		tm_pair_attach(&pm, &p);

		if (!tp_ep_start(&p.c, &cc) || !tp_ep_start(&p.s, &sc)) {
			TP_VIOL("setup:reset-failed", "reset returned 0 with a valid configuration");
			goto next;
		}
		p.c.tx_key = m.key[0]; p.c.rx_key = m.key[1];
		p.s.tx_key = m.key[1]; p.s.rx_key = m.key[0];

		hs_ok = tp_handshake(&p, 2000000);
		vf_stat("cases", 1);
		if (!hs_ok) {
			char what[200];
			snprintf(what, sizeof what, "handshake did not complete: client state=%u err=%d, server state=%u err=%d",
				br_ssl_engine_current_state(p.c.eng), br_ssl_engine_last_error(p.c.eng),
				br_ssl_engine_current_state(p.s.eng), br_ssl_engine_last_error(p.s.eng));
			TP_VIOL("handshake:incomplete", what);
			goto next;
		}
		vf_stat("handshakes_completed", 1);
		tp_compare_params(&p, (int)pv->version, pv->s->id);
		if (m.rm.version != pv->version || m.rm.suite != pv->s->id) {
			TP_VIOL("recmon:serverhello-mismatch", "ServerHello on the wire announces another version or suite than the engines report");
		}
		/* validator saw the configured chain and name */
		if (p.c.xw->n_end_chain != 1 || p.c.xw->last_verdict != 0
			|| strcmp(p.c.xw->server_name, "localhost") != 0)
		{
			TP_VIOL("handshake:validator-not-consulted", "client became ready without exactly one accepted end_chain for the configured name");
		}

		/* each validator was given exactly the certificates its peer was configured with, in order */
		{
			int side;
			for (side = 0; side < 2; side ++) {
				tp_xwrap *xw = side == 0 ? p.c.xw : p.s.xw;
				const br_x509_certificate *ch = side == 0 ? sch : cch;
				size_t n = side == 0 ? schn : cchn, q;
				if (n == 0) continue;
				if (xw->n_end_chain != 1 || xw->last_verdict != 0 || (size_t)xw->n_start_cert != n) {
					TP_VIOL("handshake:chain-not-validated", "the validator did not see (or did not accept) the number of certificates the peer sent");
					continue;
				}
				for (q = 0; q < n && q < 8; q ++) {
					if (xw->cert_len[q] != ch[q].data_len || xw->cert_hash[q] != vf_fnv(ch[q].data, ch[q].data_len, 0)) {
						TP_VIOL("handshake:chain-bytes-differ", "a certificate reached the validator with other bytes than the peer sent");
						break;
					}
				}
				vf_stat(side == 0 ? "server_chains_compared" : "client_chains_compared", 1);
				vf_max(side == 0 ? "server_chain_bytes_max" : "client_chain_bytes_max", (long long)(ch[0].data_len + (n > 1 ? ch[1].data_len : 0)));
			}
		}

		data_ok = tp_run_data(&p, c_total, s_total, wpol, 8000000);
		if (!data_ok) {
			char what[240];
			snprintf(what, sizeof what,
				"data phase stalled or closed: c tx=%zu/%zu rx=%zu/%zu err=%d; s tx=%zu/%zu rx=%zu/%zu err=%d",
				p.c.tx_done, c_total, p.c.rx_done, s_total, br_ssl_engine_last_error(p.c.eng),
				p.s.tx_done, s_total, p.s.rx_done, c_total, br_ssl_engine_last_error(p.s.eng));
			TP_VIOL("stream:incomplete", what);
			goto next;
		}
		/* half of the sessions: the closing side writes a last piece and closes at once, without flushing and
		   without waiting for the transport: that piece must still arrive, followed by the orderly closure */
		if (closer < 2 && (idx & 1)) {
			tp_ep *ce = closer == 0 ? &p.c : &p.s;
			size_t tail = tp_act_write(ce, 1 + vf_below(&r, 300));
			if (closer == 0) c_total += tail; else s_total += tail;
			vf_stat("close_with_unflushed_data", 1);
		}
		close_ok = tp_run_close(&p, closer, 2000000);
		if (!close_ok || br_ssl_engine_last_error(p.c.eng) != 0
			|| br_ssl_engine_last_error(p.s.eng) != 0)
		{
			char what[200];
			snprintf(what, sizeof what, "orderly close: closed=%d client err=%d server err=%d",
				close_ok, br_ssl_engine_last_error(p.c.eng), br_ssl_engine_last_error(p.s.eng));
			TP_VIOL("close:not-clean", what);
		}
		if (p.c.rx_done != s_total || p.s.rx_done != c_total) {
			TP_VIOL("stream:length-mismatch", "bytes read differ from bytes written after orderly close");
		}
		/* recmon verdicts */
		tm_verdict(&m, 1, c_total, s_total);
		vf_stat("sessions_completed", 1);
		vf_stat("records_decoded", m.rm.n_records[0] + m.rm.n_records[1]);
		vf_stat("records_protected", m.rm.n_protected[0] + m.rm.n_protected[1]);
		vf_stat("app_bytes", (long long)(c_total + s_total));
		vf_distinct("suite_version", "%04x/%04x", pv->s->id, pv->version);
		vf_distinct("config", "%04x/%04x/k%d/c%d.%d/s%d.%d", pv->s->id, pv->version, keykind,
			clayout, ccls, slayout, scls);
		vf_distinct_h("schedule", p.sched_hash);
		vf_max("max_steps", p.steps);
		vf_sample("{\"suite\":\"%s\",\"version\":\"%04x\",\"key\":%d,\"client_buf\":[%d,%zu],\"server_buf\":[%d,%zu],\"chunk_policy\":%d,\"write_policy\":%d,\"c_bytes\":%zu,\"s_bytes\":%zu,\"steps\":%ld,\"records\":%ld}",
			pv->s->name, pv->version, keykind, clayout, cc.buflen, slayout, sc.buflen, chunk, wpol,
			c_total, s_total, p.steps, m.rm.n_records[0] + m.rm.n_records[1]);
	next:
		rm_free(&m.rm);
#undef m
		tp_pair_free(&p);
	}
	vf_stat("monitored_calls", tp_calls);
	vf_done();
	return 0;
}
