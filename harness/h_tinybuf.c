/*
 * C16, buffers below / at / just above the documented minimum (512 bytes of
 * plaintext + overhead), down to 0 bytes, for every layout and both roles.
 *
 * The documentation promises nothing useful for an undersized buffer except
 * what holds for every configuration: the engine never touches memory outside
 * the block the caller gave it and never offers a span outside it. Buffers are
 * exact-size heap blocks (ASan red zones), tp_check() verifies every offered
 * span after every call. What is judged:
 *   - a configuration that is refused is refused visibly: reset returns 0 or the
 *     engine is CLOSED with a non-zero error, and it stays so (no operation
 *     offered later);
 *   - a configuration that is accepted works: the handshake with a full-size
 *     peer completes and short application data is exchanged exactly;
 *   - at and above the documented minimum (in >= 512+325, out >= 512+85;
 *     shared: 512+325; engine-split: 512+325+512+85) it must be accepted.
 */
#include "tlspair.h"

static char base[300];

/* strictly bounded records: each side writes `n` bytes and flushes, the transport runs until they are read */
static int
exchange(tp_pair *p, size_t n, int rounds)
{
	int k, side;
	for (k = 0; k < rounds; k ++) for (side = 0; side < 2; side ++) {
		tp_ep *tx = side == 0 ? &p->c : &p->s, *rx = side == 0 ? &p->s : &p->c;
		size_t want = rx->rx_done + n, l;
		long guard = 0;
		if (tp_act_write(tx, n) != n) return 0;
		tp_act_flush(tx, 0);
		while (rx->rx_done < want && guard ++ < 100000) {
			if (tp_ep_closed(&p->c) || tp_ep_closed(&p->s)) return 0;
			if (br_ssl_engine_recvapp_buf(rx->eng, &l)) { tp_act_read(rx, l); continue; }
			if (!tp_pump_step(p)) return 0;
		}
		if (rx->rx_done < want || rx->rx_bad) return 0;
	}
	return 1;
}

/*
 * A server with minimum-size buffers cannot tell its peer: a full-size client sends it handshake
 * records (here a certificate chain, client authentication) larger than the whole input buffer. They
 * are not encrypted yet and must be taken in pieces, every offered region staying inside the buffer.
 */
static void
small_server_big_client(long long seed, int layout, size_t in_len, size_t out_len, uint16_t suite, unsigned version, int cauth)
{
	tp_pair p;
	tp_cfg cc, sc;
	uint16_t sl[1];
	char what[240];
	tp_cfg_default(&cc, 0); tp_cfg_default(&sc, 1);
	sc.layout = layout; sc.buflen = in_len; sc.buflen_out = out_len;
	sl[0] = suite; cc.suites = sl; cc.nsuites = 1; cc.vmin = cc.vmax = version;
	sc.keykind = tp_key_for_suite(tp_suite_find(suite), 0);
	cc.client_auth = cauth; sc.client_auth = 1;
	memset(cc.seed, 0x17, 32); memset(sc.seed, 0x71, 32);
	snprintf(tp_case, sizeof tp_case, "%s small-server layout=%d in=%zu out=%zu full-size client with client certificate kind %d suite=%04x ver=%04x",
		base, layout, in_len, out_len, cauth, suite, version);
	tp_pair_init(&p, (uint64_t)seed, 17, TP_CHUNK_WHOLE);
	p.c.tx_key = 0x1717; p.s.tx_key = 0x7171; p.c.rx_key = p.s.tx_key; p.s.rx_key = p.c.tx_key;
	vf_stat("small_server_cases", 1);
	if (!tp_ep_start(&p.c, &cc) || !tp_ep_start(&p.s, &sc)) { TP_VIOL("tiny:minimum-size-refused", "reset failed with buffers at the documented minimum"); tp_pair_free(&p); return; }
	if (!tp_handshake(&p, 1000000)) {
		snprintf(what, sizeof what, "handshake incomplete: client state=%u err=%d, server state=%u err=%d", br_ssl_engine_current_state(p.c.eng),
			br_ssl_engine_last_error(p.c.eng), br_ssl_engine_current_state(p.s.eng), br_ssl_engine_last_error(p.s.eng));
		TP_VIOL("tiny:small-server-handshake-failed", what);
	} else if (!exchange(&p, 300, 3)) {
		snprintf(what, sizeof what, "data phase failed: c rx=%zu err=%d; s rx=%zu err=%d", (size_t)p.c.rx_done, br_ssl_engine_last_error(p.c.eng),
			(size_t)p.s.rx_done, br_ssl_engine_last_error(p.s.eng));
		TP_VIOL("tiny:small-server-stream-incomplete", what);
	} else {
		vf_stat("small_server_sessions", 1);
		vf_max("small_server_largest_incoming_handshake_bytes", (long long)p.s.bytes_in);
	}
	tp_pair_free(&p);
}

static void
one(long long seed, int role, int layout, size_t in_len, size_t out_len, uint16_t suite, unsigned version)
{
	tp_pair p;
	tp_cfg me, peer;
	uint16_t sl[1];
	tp_ep *E, *P;
	int r_me, r_peer, hs = 0, must_accept, refused;
	char what[240];

	tp_cfg_default(&me, role); tp_cfg_default(&peer, !role);
	me.layout = layout;
	if (layout == TP_LAYOUT_SPLIT2) { me.buflen = in_len; me.buflen_out = out_len; must_accept = in_len >= 512 + 325 && out_len >= 512 + 85; }
	else if (layout == TP_LAYOUT_MONO) { me.buflen = in_len; must_accept = in_len >= 512 + 325; }
	else { me.buflen = in_len; must_accept = in_len >= 512 + 325 + 512 + 85; }
	sl[0] = suite;
	{
		tp_cfg *cc = role == 0 ? &me : &peer, *sc = role == 0 ? &peer : &me;
		cc->suites = sl; cc->nsuites = 1; cc->vmin = cc->vmax = version;
		sc->keykind = tp_key_for_suite(tp_suite_find(suite), 0);
		/* the full-size peer must not send more than a minimal endpoint can take: a small client
		   says so itself (max_fragment_length); a small server is given a small client */
		if (role == 1) { cc->layout = TP_LAYOUT_SPLIT2; cc->buflen = 512 + 325; cc->buflen_out = 512 + 85; }
	}
	memset(me.seed, 0x16, 32); memset(peer.seed, 0x61, 32);
	snprintf(tp_case, sizeof tp_case, "%s tiny role=%d layout=%d in=%zu out=%zu suite=%04x ver=%04x", base, role, layout, in_len, out_len, suite, version);
	tp_pair_init(&p, (uint64_t)seed, 16, TP_CHUNK_WHOLE);
	E = role == 0 ? &p.c : &p.s; P = role == 0 ? &p.s : &p.c;
	p.c.tx_key = 0x1616; p.s.tx_key = 0x6161; p.c.rx_key = p.s.tx_key; p.s.rx_key = p.c.tx_key;
	r_me = tp_ep_start(E, &me);
	r_peer = tp_ep_start(P, &peer);
	vf_stat("tiny_cases", 1);
	if (!r_peer) { TP_VIOL("setup", "peer reset failed"); tp_pair_free(&p); return; }
	refused = !r_me || tp_ep_closed(E);
	if (refused) {
		vf_stat("tiny_refused", 1);
		vf_distinct("tiny_outcome", "l%d refused %s", layout, must_accept ? "at-or-above-minimum" : "below-minimum");
		if (br_ssl_engine_last_error(E->eng) == 0) {
			snprintf(what, sizeof what, "reset returned %d, state=%u but last_error is 0", r_me, br_ssl_engine_current_state(E->eng));
			TP_VIOL("tiny:refused-without-error", what);
		}
		if (must_accept) {
			snprintf(what, sizeof what, "buffers at or above the documented minimum refused: reset=%d err=%d", r_me, br_ssl_engine_last_error(E->eng));
			TP_VIOL("tiny:minimum-size-refused", what);
		}
		/* it must stay refused: poke every entry point (tp_check judges what is offered) */
		br_ssl_engine_flush(E->eng, 0); tp_check(E, "flush on refused engine");
		br_ssl_engine_flush(E->eng, 1); tp_check(E, "flush(1) on refused engine");
		br_ssl_engine_close(E->eng); tp_check(E, "close on refused engine");
		(void)br_ssl_engine_renegotiate(E->eng); tp_check(E, "renegotiate on refused engine");
		if (!tp_ep_closed(E)) TP_VIOL("tiny:refused-engine-reopened", "engine no longer closed after being poked");
	} else {
		vf_stat("tiny_accepted", 1);
		vf_distinct("tiny_outcome", "l%d accepted %s", layout, must_accept ? "at-or-above-minimum" : "below-minimum");
		hs = tp_handshake(&p, 1000000);
		if (!hs) {
			/* an accepted undersized configuration may be unable to finish (e.g. a certificate
			   message that does not fit is not an issue: handshake messages are streamed) - the
			   documented minimum must work */
			if (must_accept) {
				snprintf(what, sizeof what, "handshake incomplete with buffers at or above the documented minimum: me state=%u err=%d, peer state=%u err=%d",
					br_ssl_engine_current_state(E->eng), br_ssl_engine_last_error(E->eng),
					br_ssl_engine_current_state(P->eng), br_ssl_engine_last_error(P->eng));
				TP_VIOL("tiny:minimum-size-handshake-failed", what);
			} else vf_stat("tiny_accepted_below_minimum_no_handshake", 1);
		} else {
			int ok = tp_run_data(&p, 700, 700, TP_W_SMALL, 400000);
			vf_stat("tiny_sessions", 1);
			if (!ok || p.c.rx_bad || p.s.rx_bad) {
				snprintf(what, sizeof what, "data phase failed: c tx=%zu rx=%zu err=%d; s tx=%zu rx=%zu err=%d", (size_t)p.c.tx_done, (size_t)p.c.rx_done,
					br_ssl_engine_last_error(p.c.eng), (size_t)p.s.tx_done, (size_t)p.s.rx_done, br_ssl_engine_last_error(p.s.eng));
				TP_VIOL(must_accept ? "tiny:minimum-size-stream-incomplete" : "tiny:accepted-size-stream-incomplete", what);
			} else vf_stat("tiny_streams_exact", 1);
		}
	}
	tp_pair_free(&p);
}

int
main(int argc, char **argv)
{
	long long seed = vf_argi(argc, argv, "--seed", 1);
	int worker = (int)vf_argi(argc, argv, "--worker", 0);
	int nworkers = (int)vf_argi(argc, argv, "--nworkers", 1);
	static const size_t small[] = { 0, 1, 4, 5, 6, 84, 85, 86, 100, 324, 325, 326, 511, 512, 513, 596, 597, 598, 836, 837, 838 };
	static const size_t bidi[] = { 0, 5, 325, 836, 837, 838, 1000, 1433, 1434, 1435, 1436, 1500 };
	static const uint16_t suites[] = { 0x002F, 0xC02F, 0xCCA8, 0x003C, 0xC09C };
	size_t i, j, ns = sizeof small / sizeof small[0];
	long idx = 0;
	int role;

	tp_prop = "C16";
	snprintf(base, sizeof base, "seed=%lld", seed);
	for (role = 0; role < 2; role ++) {
		/* shared buffer */
		for (i = 0; i < ns; i ++) {
			uint16_t su = suites[(i + (size_t)seed) % 5];
			if ((idx ++ % nworkers) != worker) continue;
			one(seed, role, TP_LAYOUT_MONO, small[i], 0, su, su == 0x002F ? 0x0301 : 0x0303);
		}
		/* two buffers: every pair of (input, output) sizes from the list */
		for (i = 0; i < ns; i ++) for (j = 0; j < ns; j ++) {
			uint16_t su = suites[(i * 3 + j + (size_t)seed) % 5];
			/* pairs far from every threshold add nothing: keep those on the diagonal and the borders */
			if (!(i == j || i + 3 >= ns || j + 3 >= ns || small[i] <= 6 || small[j] <= 6)) continue;
			if ((idx ++ % nworkers) != worker) continue;
			one(seed, role, TP_LAYOUT_SPLIT2, small[i], small[j], su, su == 0x002F ? 0x0302 : 0x0303);
		}
		/* one buffer split by the engine */
		for (i = 0; i < sizeof bidi / sizeof bidi[0]; i ++) {
			uint16_t su = suites[(i + 2 + (size_t)seed) % 5];
			if ((idx ++ % nworkers) != worker) continue;
			one(seed, role, TP_LAYOUT_SPLIT1, bidi[i], 0, su, su == 0x002F ? 0x0301 : 0x0303);
		}
	}
	/* minimum-size servers facing a full-size client that authenticates with a certificate */
	for (i = 0; i < 3; i ++) for (j = 0; j < 5; j ++) {
		int lay = (int)i, ca;
		size_t il = lay == TP_LAYOUT_SPLIT1 ? 512 + 325 + 512 + 85 : 512 + 325, ol = 512 + 85;
		if ((idx ++ % nworkers) != worker) continue;
		for (ca = 1; ca <= 2; ca ++) {
			small_server_big_client(seed, lay, il + (size_t)((seed + (long long)j) % 3), ol, suites[j], suites[j] == 0x002F ? 0x0301 : 0x0303, ca);
		}
	}
	vf_stat("cases", vf_cnt_[vf_cnt_find_("tiny_cases", 0)].v);
	vf_stat("monitored_calls", tp_calls);
	vf_sample("{\"mode\":\"tiny\",\"sizes\":%zu}", ns);
	vf_done();
	return 0;
}
