#!/usr/bin/env python3
"""Monitor validation: apply one textual break to a scratch copy of /repo and run a check on it.

usage: muttest.py <Cxx> <file-relative-to-repo> <old-text> <new-text> [--tier quick] [--keep]
Exit status: 0 if the check reported a violation (mutant caught), 1 if it passed (missed), 2 otherwise.
"""
import sys, os, shutil, subprocess, tempfile, hashlib
def main():
    prop, rel, old, new = sys.argv[1:5]
    tier = 'quick'
    if '--tier' in sys.argv: tier = sys.argv[sys.argv.index('--tier')+1]
    tag = hashlib.sha1((prop+rel+old+new).encode()).hexdigest()[:8]
    d = '/tmp/mut.%s.%s' % (prop, tag)
    if os.path.exists(d): shutil.rmtree(d)
    shutil.copytree('/repo', d, ignore=shutil.ignore_patterns('build', '.git', 'T0Comp.exe'))
    p = os.path.join(d, rel)
    s = open(p).read()
    if s.count(old) < 1:
        print('pattern not found in', rel); shutil.rmtree(d); return 2
    s = s.replace(old, new, 1)
    open(p, 'w').write(s)
    env = dict(os.environ, VERIF_REPO=d)
    r = subprocess.run([sys.executable, '/verif/check.py', prop, '--tier', tier], env=env, cwd='/verif',
                       capture_output=True, text=True)
    out = r.stdout.strip().splitlines()
    keys = sorted(set(l.strip().split(' ')[0] for l in out if l.strip().startswith('key=')))
    print('rc=%d %s' % (r.returncode, ' '.join(keys)[:600]))
    if r.returncode == 2:
        print('\n'.join(out[-8:]))
    if '--keep' not in sys.argv:
        shutil.rmtree(d)
        alt = os.path.join('/verif/build/_alt', hashlib.sha1(os.path.realpath(d).encode()).hexdigest()[:10])
        shutil.rmtree(alt, ignore_errors=True)
    # restore evidence of the real tree is the caller's business
    return 0 if r.returncode == 1 else (1 if r.returncode == 0 else 2)
sys.exit(main())
