#!/usr/bin/env python3
"""usage: seedmeta.py Cxx.N '<summary>' '<needs>' '<caught_by; ...>' ['<missed_by>' '<strengthened>']"""
import json, sys
d = dict(breaks=sys.argv[1].split('.')[0], summary=sys.argv[2], needs=sys.argv[3], caught_by=[x.strip() for x in sys.argv[4].split(';;')],
         origin='round %s: independent sub-agent given only the property text, a scratch worktree and the earlier changes to stay away from' % sys.argv[1].split('.')[1],
         confirmed='tools/seedcheck.sh: builds, pinned suite 53/53 OK with the patch, demo exits 1 with the patch and 0 without')
if len(sys.argv) > 5 and sys.argv[5]:
    d['missed_by'] = [sys.argv[5]]
if len(sys.argv) > 6 and sys.argv[6]:
    d['strengthened'] = sys.argv[6]
json.dump(d, open('/verif/seeded/%s/meta.json' % sys.argv[1], 'w'), indent=1)
open('/verif/seeded/%s/meta.json' % sys.argv[1], 'a').write('\n')
