#!/bin/sh
# usage: seed7.sh Cxx [checks...] : confirm the round-7 seeded change of Cxx, copy it to seeded/Cxx.7, re-apply it on a fresh
# worktree of /repo HEAD (/tmp/wt7.Cxx) and run the given checks (default: Cxx) against that tree
P="$1"; shift; CH="${*:-$P}"
W=/tmp/seed7.$P
sh /verif/tools/seedcheck.sh $W 2>&1 | tail -5
mkdir -p /verif/seeded/$P.7
for f in patch.diff demo.c build.sh OPTIONS; do [ -f $W/demo/$f ] && cp $W/demo/$f /verif/seeded/$P.7/; done
for f in $W/demo/*.h $W/demo/*.pem $W/demo/*.der; do [ -f "$f" ] && [ $(stat -c %s "$f") -lt 200000 ] && cp "$f" /verif/seeded/$P.7/; done
git -C /repo worktree remove --force /tmp/wt7.$P 2>/dev/null
git -C /repo worktree add -q /tmp/wt7.$P HEAD && (cd /tmp/wt7.$P && git apply /verif/seeded/$P.7/patch.diff) || { echo "patch does not apply on HEAD"; exit 2; }
cd /verif
for c in $CH; do VERIF_REPO=/tmp/wt7.$P python3 check.py $c --tier quick 2>&1 | grep -v "^KNOWN-FINDING" | tail -4 | cut -c1-500; done
