#!/usr/bin/env python3
"""Disassembler for the bytecode that T0Comp emits into the generated .c files of /repo
(src/ssl/ssl_hs_client.c, ...).  Not a check: a reading aid, and the means to verify a
hand-made change of the generated file (the T0 compiler needs mono, which is not installed).

usage: t0dis.py <generated.c> [--word N] [--find-const V]
"""
import re, sys


def dump_arrays(path):
    """the generated arrays use macros over C constants (T0_INT1(BR_ERR_...), offsetof): compile a dumper"""
    import subprocess, tempfile, os
    d = tempfile.mkdtemp(prefix='t0dis.')
    src = os.path.join(d, 'dump.c')
    open(src, 'w').write('''#include <stdio.h>
#include T0SRC
int main(void){ size_t i;
 printf("code"); for(i=0;i<sizeof t0_codeblock;i++) printf(" %u", t0_codeblock[i]);
 printf("\\ncaddr"); for(i=0;i<sizeof t0_caddr/sizeof t0_caddr[0];i++) printf(" %u", t0_caddr[i]);
 printf("\\ndata"); for(i=0;i<sizeof t0_datablock;i++) printf(" %u", t0_datablock[i]);
 printf("\\n"); return 0; }
''')
    repo = os.path.dirname(os.path.dirname(os.path.dirname(os.path.abspath(path))))
    exe = os.path.join(d, 'dump')
    subprocess.run(['gcc', '-w', '-c', '-I%s/src' % repo, '-I%s/inc' % repo, '-DT0SRC="%s"' % os.path.abspath(path), src,
                    '-o', exe + '.o'], check=True)
    # only the arrays are needed: link with every undefined symbol left to a stub
    subprocess.run(['gcc', exe + '.o', '-o', exe, '-Wl,--unresolved-symbols=ignore-all', '-Wl,-z,lazy', '-no-pie'], check=True)
    out = subprocess.run([exe], capture_output=True, text=True, check=True).stdout
    import shutil
    shutil.rmtree(d)
    r = {}
    for line in out.splitlines():
        k, *v = line.split()
        r[k] = [int(x) for x in v]
    return r['code'], r['caddr'], r['data']


def load(path):
    s = open(path).read()
    code, caddr, data = dump_arrays(path)

    ni = int(re.search(r'#define T0_INTERPRETED\s+(\d+)', s).group(1))
    names = {0: 'ret', 1: 'const', 2: 'local@', 3: 'local!', 4: 'jump', 5: 'jumpif', 6: 'jumpifnot'}
    for m in re.finditer(r'case (\d+): \{\s*/\* (.*?) \*/', s):
        names[int(m.group(1))] = m.group(2)
    entries = {}
    for m in re.finditer(r'T0_DEFENTRY\((\w+), (\d+)\)', s):
        entries[int(m.group(2))] = m.group(1)
    return code, caddr, data, ni, names, entries


def p7u(code, i):
    x = 0
    while True:
        y = code[i]; i += 1
        x = (x << 7) | (y & 0x7F)
        if y < 0x80:
            return x, i


def p7s(code, i):
    neg = (code[i] >> 6) & 1
    x = -1 if neg else 0
    while True:
        y = code[i]; i += 1
        x = (x << 7) | (y & 0x7F)
        if y < 0x80:
            return x, i


def enc7s(v):
    """T0's signed 7E encoding (shortest form)"""
    out = []
    n = 1
    while not (-(1 << (7 * n - 1)) <= v < (1 << (7 * n - 1))):
        n += 1
    for k in range(n - 1, -1, -1):
        b = (v >> (7 * k)) & 0x7F
        out.append(b | (0x80 if k else 0))
    return out


def words(code, caddr, ni):
    """list of (slot, start, end) sorted by address"""
    ws = sorted((a, k + ni) for k, a in enumerate(caddr))
    out = []
    for j, (a, slot) in enumerate(ws):
        end = ws[j + 1][0] if j + 1 < len(ws) else len(code)
        out.append((slot, a, end))
    return out


def dis(code, start, end, ni, names):
    nloc, i = p7u(code, start)
    out = [(start, 'locals %d' % nloc, None)]
    while i < end:
        at = i
        op = code[i]; i += 1
        if op == 1:
            v, i = p7s(code, i)
            out.append((at, 'const %d (0x%X)' % (v, v & 0xFFFFFFFF), None))
        elif op in (2, 3):
            v, i = p7u(code, i)
            out.append((at, '%s %d' % (names[op], v), None))
        elif op in (4, 5, 6):
            v, i = p7s(code, i)
            out.append((at, '%s %+d -> %d' % (names[op], v, i + v), i + v))
        elif op < ni:
            out.append((at, names.get(op, 'native%d' % op), None))
        else:
            out.append((at, 'call w%d' % op, None))
    return out


def main(argv):
    code, caddr, data, ni, names, entries = load(argv[1])
    ws = words(code, caddr, ni)
    only = int(argv[argv.index('--word') + 1]) if '--word' in argv else None
    fc = int(argv[argv.index('--find-const') + 1], 0) if '--find-const' in argv else None
    print('codeblock %d bytes, %d interpreted words (slots %d..%d), %d natives, data %d bytes' % (
        len(code), len(caddr), ni, ni + len(caddr) - 1, ni - 7, len(data)))
    for slot, a, e in ws:
        if only is not None and slot != only:
            continue
        d = dis(code, a, e, ni, names)
        if fc is not None and not any(t.startswith('const %d ' % fc) for _, t, _ in d):
            continue
        print('\nw%d%s  [%d..%d)' % (slot, ' (entry %s)' % entries[slot] if slot in entries else '', a, e))
        for at, t, _ in d:
            print('  %5d  %s' % (at, t))


if __name__ == '__main__':
    main(sys.argv)
