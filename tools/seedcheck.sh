#!/bin/sh
# usage: seedcheck.sh <worktree> ; confirms a seeded change: builds, runs the pinned suite, runs the demo with and without the patch
W="$1"; cd "$W" || exit 2
git diff --quiet -- src inc && { echo "patch not applied in $W"; git apply demo/patch.diff || exit 2; }
make -s -j8 >/dev/null 2>&1 || { echo "BUILD FAILED with patch"; exit 1; }
OK=$(cd test/x509 && ../../build/testx509 | grep -c ": OK")
echo "with patch: testx509 OK=$OK"
(cd demo && sh ./build.sh >/dev/null 2>&1); (cd demo && ./demo >/dev/null 2>&1); echo "demo exit with patch: $?"
git apply -R demo/patch.diff && make -s -j8 >/dev/null 2>&1
(cd demo && sh ./build.sh >/dev/null 2>&1); (cd demo && ./demo >/dev/null 2>&1); echo "demo exit without patch: $?"
git apply demo/patch.diff && make -s -j8 >/dev/null 2>&1
echo "patch re-applied; lines: $(grep -c '^[+-][^+-]' demo/patch.diff)"
