#!/usr/bin/env python3
"""Line-coverage survey: which lines of /repo/src the quick workloads execute.

Not a check (no verdict): it rebuilds the gcc flavours with --coverage into
build/_cov, runs the quick tier of the given properties (default: all that use
gcc flavours) and aggregates gcov data per source file into coverage/quick.json
and a readable coverage/quick.txt (files sorted by uncovered lines, functions
never entered).  Used to find the parts of each property's anchor files that no
workload reaches."""
import os, sys, subprocess, json, glob, gzip, collections

HERE = os.path.dirname(os.path.dirname(os.path.abspath(__file__)))
COV = os.path.join(HERE, 'build', '_cov')


def main():
    props = sys.argv[1:] or ['C%02d' % i for i in range(1, 21) if i not in (5, 8)]
    tier = os.environ.get('COV_TIER', 'quick')
    name = tier if not sys.argv[1:] else 'subset'
    env = dict(os.environ, VERIF_COV='1', VERIF_BUILD=COV)
    if not os.environ.get('COV_KEEP'):
        for f in glob.glob(os.path.join(COV, '*', 'obj', '*.gcda')):
            os.unlink(f)
    for p in props:
        r = subprocess.run([sys.executable, os.path.join(HERE, 'check.py'), p, '--tier', tier], env=env,
                           stdout=subprocess.PIPE, stderr=subprocess.STDOUT)
        print(p, r.stdout.decode(errors='replace').strip().splitlines()[-1][:200], flush=True)
    lines = collections.defaultdict(dict)     # file -> line -> count
    funcs = collections.defaultdict(dict)     # file -> func -> count
    for gcda in glob.glob(os.path.join(COV, '*', 'obj', '*.gcda')):
        r = subprocess.run(['gcov', '--json-format', '--stdout', gcda], cwd=os.path.dirname(gcda),
                           stdout=subprocess.PIPE, stderr=subprocess.DEVNULL)
        if r.returncode != 0 or not r.stdout:
            continue
        for doc in r.stdout.decode().splitlines():
            if not doc.strip():
                continue
            j = json.loads(doc)
            for f in j.get('files', []):
                fn = f['file']
                if '/src/' not in fn or not fn.endswith('.c'):
                    continue
                rel = fn[fn.index('/src/') + 1:]
                for l in f['lines']:
                    lines[rel][l['line_number']] = lines[rel].get(l['line_number'], 0) + l['count']
                for fu in f['functions']:
                    funcs[rel][fu['name']] = funcs[rel].get(fu['name'], 0) + fu['execution_count']
    out = {}
    tot = cov = 0
    for rel in sorted(lines):
        n = len(lines[rel]); c = sum(1 for v in lines[rel].values() if v > 0)
        tot += n; cov += c
        out[rel] = dict(lines=n, covered=c, uncovered_lines=sorted(k for k, v in lines[rel].items() if v == 0),
                        functions_never_entered=sorted(k for k, v in funcs[rel].items() if v == 0))
    os.makedirs(os.path.join(HERE, 'coverage'), exist_ok=True)
    with open(os.path.join(HERE, 'coverage', name + '.json'), 'w') as f:
        json.dump(dict(properties=props, tier=tier, total_lines=tot, covered_lines=cov, files=out), f, indent=0)
    with open(os.path.join(HERE, 'coverage', name + '.txt'), 'w') as f:
        f.write('properties: %s  tier: %s\nlines %d covered %d (%.1f%%)\n\n' % (' '.join(props), tier, tot, cov, 100.0 * cov / max(1, tot)))
        for rel, d in sorted(out.items(), key=lambda kv: -(kv[1]['lines'] - kv[1]['covered'])):
            if d['lines'] == d['covered']:
                continue
            f.write('%-44s %5d/%5d  never entered: %s\n' % (rel, d['covered'], d['lines'], ' '.join(d['functions_never_entered'])))
    print('lines %d covered %d (%.1f%%) -> coverage/%s.txt' % (tot, cov, 100.0 * cov / max(1, tot), name))


if __name__ == '__main__':
    main()
