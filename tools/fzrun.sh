#!/bin/sh
# usage: fzrun.sh <binary> <target> <workdir> <artifact_prefix> <runs> <seed> <max_len> [<msan binary>]
# With an MSan binary, the corpus left by the fuzz run is replayed once under MemorySanitizer.
# Generates the seed corpus for the target, then runs libFuzzer for a fixed number of runs.
BIN="$1"; T="$2"; W="$3"; ART="$4"; RUNS="$5"; SEED="$6"; MAXLEN="$7"; MSAN="$8"
rm -rf "$W/$T" && mkdir -p "$W/$T" "$(dirname "$ART")" || exit 2
FZ_TARGET="$T" FZ_MKCORPUS="$W/$T" "$BIN" >/dev/null 2>"$W/$T.corpus.log" || { cat "$W/$T.corpus.log" >&2; echo "FZ_CORPUS_FAILED" >&2; exit 2; }
grep -a FZ_CORPUS "$W/$T.corpus.log" >&2
FZ_TARGET="$T" "$BIN" -runs="$RUNS" -seed="$SEED" -max_len="$MAXLEN" -timeout=20 -rss_limit_mb=4096 -print_final_stats=1 -artifact_prefix="$ART" "$W/$T"
RC=$?
[ $RC -ne 0 ] && exit $RC
if [ -n "$MSAN" ]; then
	echo "FZ_MSAN_BEGIN target=$T" >&2
	FZ_TARGET="$T" MSAN_OPTIONS=abort_on_error=1 "$MSAN" -runs=0 -timeout=60 -artifact_prefix="${ART}msan-" "$W/$T" 2>&1 | grep -a "MemorySanitizer\|#[0-9] \|DONE\|written\|FZ_VIOL\|SUMMARY" | sed 's/DONE/MSAN_DONE/' >&2
	echo "FZ_MSAN_END target=$T" >&2
fi
exit 0
