#!/bin/sh
# usage: fzrun.sh <binary> <target> <workdir> <artifact_prefix> <runs> <seed> <max_len> [<msan binary>]
# With an MSan binary, the corpus left by the fuzz run is replayed once under MemorySanitizer.
# Generates the seed corpus for the target, then runs libFuzzer for a fixed number of runs.
# libFuzzer's per-input limit is wall-clock time: when the whole machine stalls (another job, a snapshot of the VM)
# every fuzzer reports a "timeout" at once.  The unit it blames is therefore run again on its own: if that
# finishes at once the fuzz run is repeated (once, on the corpus as it stands); if the unit really does not finish
# within 15 minutes it is reported as a hang (FZ_VIOL).
BIN="$1"; T="$2"; W="$3"; ART="$4"; RUNS="$5"; SEED="$6"; MAXLEN="$7"; MSAN="$8"
rm -rf "$W/$T" && mkdir -p "$W/$T" "$(dirname "$ART")" || exit 2
FZ_TARGET="$T" FZ_MKCORPUS="$W/$T" "$BIN" >/dev/null 2>"$W/$T.corpus.log" || { cat "$W/$T.corpus.log" >&2; echo "FZ_CORPUS_FAILED" >&2; exit 2; }
grep -a FZ_CORPUS "$W/$T.corpus.log" >&2
fuzz() {
	FZ_TARGET="$T" "$BIN" -runs="$RUNS" -seed="$SEED" -max_len="$MAXLEN" -timeout=60 -rss_limit_mb=4096 -print_final_stats=1 -artifact_prefix="$ART" "$W/$T" 2>"$1"
}
fuzz "$W/$T.run.log"
RC=$?
if [ $RC -ne 0 ] && grep -aq "ERROR: libFuzzer: timeout" "$W/$T.run.log"; then
	UNIT=$(sed -n 's/.*Test unit written to \(.*timeout-[0-9a-f]*\).*/\1/p' "$W/$T.run.log" | tail -1)
	if [ -n "$UNIT" ] && [ -f "$UNIT" ]; then
		FZ_TARGET="$T" timeout 900 "$BIN" -timeout=0 "$UNIT" >"$W/$T.unit.log" 2>&1
		URC=$?
		if [ $URC -eq 0 ]; then
			echo "FZ_STALL_RETRIED target=$T unit=$UNIT (finishes at once when run alone)" >&2
			mv "$UNIT" "$UNIT.stall"
			fuzz "$W/$T.run2.log"
			RC=$?
			cat "$W/$T.run2.log" >&2
			[ $RC -ne 0 ] && exit $RC
		elif [ $URC -eq 124 ]; then
			cat "$W/$T.run.log" >&2
			echo "FZ_VIOL hang:unit-does-not-finish the unit $UNIT does not finish within 900 s when run alone" >&2
			exit 1
		else
			cat "$W/$T.run.log" "$W/$T.unit.log" >&2
			exit $RC
		fi
	else
		cat "$W/$T.run.log" >&2
		exit $RC
	fi
else
	cat "$W/$T.run.log" >&2
	[ $RC -ne 0 ] && exit $RC
fi
if [ -n "$MSAN" ]; then
	echo "FZ_MSAN_BEGIN target=$T" >&2
	FZ_TARGET="$T" MSAN_OPTIONS=abort_on_error=1 "$MSAN" -runs=0 -timeout=60 -artifact_prefix="${ART}msan-" "$W/$T" 2>&1 | grep -a "MemorySanitizer\|#[0-9] \|DONE\|written\|FZ_VIOL\|SUMMARY" | sed 's/DONE/MSAN_DONE/' >&2
	echo "FZ_MSAN_END target=$T" >&2
fi
exit 0
