#!/usr/bin/env python3
"""T0 instruction coverage of the quick (or thorough) workloads (hook H5).  Not a check: a survey, like coverage.py.

usage: t0cov.py [--tier quick] [Cxx ...]        default: every property except C08 (valgrind)
Runs the checks with BR_VERIF_T0COV set (evidence goes to a scratch directory), merges the per-process maps and
prints, per interpreter, the instructions no workload executed, grouped by interpreted word, disassembled by
t0dis.py.  Output: coverage/t0cov.txt
"""
import os, sys, glob, subprocess, shutil, tempfile

HERE = os.path.dirname(os.path.dirname(os.path.abspath(__file__)))
sys.path.insert(0, os.path.join(HERE, 'tools'))
import t0dis

VMS = {'ssl_hs_client': 'src/ssl/ssl_hs_client.c', 'ssl_hs_server': 'src/ssl/ssl_hs_server.c', 'x509_minimal': 'src/x509/x509_minimal.c',
       'x509_decoder': 'src/x509/x509_decoder.c', 'skey_decoder': 'src/x509/skey_decoder.c', 'pkey_decoder': 'src/x509/pkey_decoder.c',
       'pemdec': 'src/codec/pemdec.c'}


def main(argv):
    tier = 'quick'
    a = argv[1:]
    if '--tier' in a:
        k = a.index('--tier'); tier = a[k + 1]; del a[k:k + 2]
    keep = None
    if '--from' in a:
        k = a.index('--from'); keep = a[k + 1]; del a[k:k + 2]
    props = a or ['C%02d' % i for i in range(1, 21) if i != 8]
    d = keep or tempfile.mkdtemp(prefix='t0cov.')
    if not keep:
        env = dict(os.environ, BR_VERIF_T0COV=d, VERIF_EVIDENCE_DIR=os.path.join(d, 'evidence'))
        for p in props:
            r = subprocess.run([sys.executable, os.path.join(HERE, 'check.py'), p, '--tier', tier], env=env, capture_output=True, text=True, cwd=HERE)
            print(p, r.stdout.strip().splitlines()[-1][:160] if r.stdout.strip() else r.returncode, flush=True)
    out = []
    tot_i = tot_c = 0
    for vm, rel in VMS.items():
        code, caddr, data, ni, names, entries = t0dis.load(os.path.join('/repo', rel))
        seen = bytearray(len(code))
        nfiles = 0
        for f in glob.glob(os.path.join(d, vm + '.*')):
            b = open(f, 'rb').read()
            nfiles += 1
            for i, v in enumerate(b[:len(seen)]):
                if v:
                    seen[i] = 1
        ninstr = ncov = 0
        miss = []
        for slot, a0, e0 in t0dis.words(code, caddr, ni):
            ins = t0dis.dis(code, a0, e0, ni, names)[1:]
            # bytes after an unconditional 'ret'/'jump'/'fail' that nothing jumps to are padding of the compiler: keep them, they are few
            un = [(at, t) for at, t, _ in ins if not seen[at]]
            ninstr += len(ins); ncov += len(ins) - len(un)
            if un:
                miss.append((slot, a0, e0, len(ins), un, ins))
        tot_i += ninstr; tot_c += ncov
        out.append('%-14s %5d of %5d instructions executed (%.1f%%), %d process maps' % (vm, ncov, ninstr, 100.0 * ncov / max(1, ninstr), nfiles))
        for slot, a0, e0, n, un, ins in miss:
            out.append('  w%d [%d..%d): %d of %d not executed' % (slot, a0, e0, len(un), n))
            unset = set(at for at, _ in un)
            for at, t, _ in ins:
                if at in unset:
                    out.append('      %5d  %s' % (at, t))
    out.insert(0, 'properties: %s  tier: %s\nT0 instructions %d, executed %d (%.1f%%)\n' % (' '.join(props), tier, tot_i, tot_c, 100.0 * tot_c / max(1, tot_i)))
    os.makedirs(os.path.join(HERE, 'coverage'), exist_ok=True)
    name = 't0cov.txt' if not a else 't0cov.subset.txt'
    open(os.path.join(HERE, 'coverage', name), 'w').write('\n'.join(out) + '\n')
    print('\n'.join(out[:12]))
    if not keep:
        shutil.rmtree(d)


if __name__ == '__main__':
    main(sys.argv)
