#!/usr/bin/env python3
"""Insert bytes into the T0 bytecode of a generated .c file of /repo, at an instruction boundary of one
interpreted word: the textual initialiser of t0_codeblock gets the new bytes, every entry of t0_caddr above the
insertion offset is shifted.  The caller is responsible for the relative jumps of the word that cross the
insertion point (t0dis.py lists them; none may cross, a jump *to* the insertion point is fine and then enters the
new code).  Used once, for the "fix:" commit that makes the client refuse TLS_FALLBACK_SCSV as a ServerHello
cipher suite; kept as the record of how the generated file was edited without the T0 compiler (mono).

usage: t0patch.py <generated.c> [--set OFF=VAL ...] <byte offset> <b0> <b1> ...   (bytes in decimal or 0x..)
       t0patch.py <generated.c> --delete OFF:N
  --set OFF=VAL   first replace the one-byte item at OFF (offsets before the insertion) by VAL: the relative
                  jumps of the word that cross the insertion point
"""
import re, sys


def split_items(body):
    """top-level comma-separated items of an initialiser, with their (start, end) text positions"""
    items, depth, start = [], 0, None
    i = 0
    while i < len(body):
        c = body[i]
        if start is None and not c.isspace() and c != ',':
            start = i
        if c == '(':
            depth += 1
        elif c == ')':
            depth -= 1
        elif c == ',' and depth == 0 and start is not None:
            items.append((start, i))
            start = None
        i += 1
    if start is not None:
        items.append((start, len(body.rstrip())))
    return items


def nbytes(tok):
    m = re.match(r'T0_INT(\d)\(', tok)
    if m:
        return int(m.group(1))
    return 1


def main(argv):
    sets = {}
    args = argv[1:]
    while '--set' in args:
        k = args.index('--set')
        a, b = args[k + 1].split('=')
        sets[int(a, 0)] = int(b, 0)
        del args[k:k + 2]
    if '--delete' in args:
        # --delete OFF:N  remove the N bytes at OFF (whole items), shift the later word addresses down
        k = args.index('--delete')
        off, n = [int(x, 0) for x in args[k + 1].split(':')]
        del args[k:k + 2]
        path = args[0]
        s = open(path).read()
        m = re.search(r'(static const unsigned char t0_codeblock\[\] PROGMEM = \{)(.*?)(\n\};)', s, re.S)
        body = m.group(2)
        pos, cut = 0, []
        for a, b in split_items(body):
            w = nbytes(body[a:b])
            if off <= pos < off + n:
                if pos + w > off + n:
                    sys.exit('deletion ends inside a multi-byte item')
                cut.append((a, b))
            pos += w
        if sum(nbytes(body[a:b]) for a, b in cut) != n:
            sys.exit('deletion does not cover whole items')
        for a, b in reversed(cut):
            e = b
            while e < len(body) and body[e] in ', ':
                e += 1
            body = body[:a] + body[e:]
        s = s[:m.start(2)] + body + s[m.end(2):]
        m = re.search(r'(static const uint16_t t0_caddr\[\] PROGMEM = \{)(.*?)(\n\};)', s, re.S)
        cnt = [0]

        def down(mm):
            v = int(mm.group(0))
            if v > off:
                cnt[0] += 1
                return str(v - n)
            return mm.group(0)
        s = s[:m.start(2)] + re.sub(r'\d+', down, m.group(2)) + s[m.end(2):]
        open(path, 'w').write(s)
        print('deleted %d bytes at %d; %d word addresses shifted' % (n, off, cnt[0]))
        return
    path, off = args[0], int(args[1], 0)
    new = [int(x, 0) for x in args[2:]]
    s = open(path).read()
    m = re.search(r'(static const unsigned char t0_codeblock\[\] PROGMEM = \{)(.*?)(\n\};)', s, re.S)
    body = m.group(2)
    if sets:
        pos = 0
        edits = []
        for a, b in split_items(body):
            if pos in sets:
                if not re.fullmatch(r'0x[0-9A-Fa-f]{2}', body[a:b]):
                    sys.exit('item at %d is not a plain byte' % pos)
                edits.append((a, b, '0x%02X' % sets.pop(pos)))
            pos += nbytes(body[a:b])
        if sets:
            sys.exit('--set offsets not found: %s' % sorted(sets))
        for a, b, t in reversed(edits):
            body = body[:a] + t + body[b:]
    pos, at = 0, None
    for a, b in split_items(body):
        if pos == off:
            at = a
            break
        pos += nbytes(body[a:b])
        if pos > off:
            sys.exit('offset %d is inside a multi-byte item' % off)
    if at is None:
        sys.exit('offset beyond the code block')
    ins = ', '.join('0x%02X' % v for v in new) + ',\n\t'
    body2 = body[:at] + ins + body[at:]
    s = s[:m.start(2)] + body2 + s[m.end(2):]
    m = re.search(r'(static const uint16_t t0_caddr\[\] PROGMEM = \{)(.*?)(\n\};)', s, re.S)
    shifted = [0]

    def bump(mm):
        v = int(mm.group(0))
        if v > off:
            shifted[0] += 1
            return str(v + len(new))
        return mm.group(0)
    cb = re.sub(r'\d+', bump, m.group(2))
    s = s[:m.start(2)] + cb + s[m.end(2):]
    open(path, 'w').write(s)
    print('inserted %d bytes at %d; %d word addresses shifted' % (len(new), off, shifted[0]))


if __name__ == '__main__':
    main(sys.argv)
