#!/bin/sh
# Generates the private-key fixtures used by the C18 check (h_keyenc).
# Run ONCE; the resulting DER files are committed.  Keys are small and are
# test material only.  Requires the OpenSSL 3.0 command line tool.
#   rsa<bits>.der : PKCS#1 RSAPrivateKey (traditional) DER
#   ec<bits>.der  : RFC 5915 ECPrivateKey DER (named curve, with public key)
set -e
d="$(dirname "$0")/keys"
mkdir -p "$d"
for b in 512 1024 1025 2048; do
	openssl genrsa -traditional "$b" 2>/dev/null \
		| openssl rsa -traditional -outform DER -out "$d/rsa$b.der" 2>/dev/null
done
openssl ecparam -name prime256v1 -genkey -noout -outform DER -out "$d/ec256.der"
openssl ecparam -name secp384r1  -genkey -noout -outform DER -out "$d/ec384.der"
openssl ecparam -name secp521r1  -genkey -noout -outform DER -out "$d/ec521.der"
ls -l "$d"
