#!/bin/sh
# Generates the RSA key fixtures of /verif/fixtures/rsa (run ONCE; the result is
# committed, the checks only read it).  Needs the `openssl` command line tool
# (and cc + libcrypto headers for the fallback generator).
#
#   sh /verif/fixtures/gen_rsa.sh
#
# Output: fixtures/rsa/k<bits>_e<e>[_m3].der  = PKCS#1 RSAPrivateKey, DER
#         fixtures/rsa/INDEX                  = one line per key: file bits e tag
# Keys tagged "m3" were re-drawn until p = q = 3 (mod 4), the precondition of
# br_rsa_*_compute_pubexp / compute_privexp; the other keys are whatever
# OpenSSL produced first (OpenSSL always emits p > q; the harness derives the
# p < q variants by swapping and recomputing iq).
set -e
cd "$(dirname "$0")"
mkdir -p rsa
rm -f rsa/*.der rsa/INDEX
E33=4294967297   # 0x100000001, a 33-bit public exponent

mod4() {  # prints "33" iff prime1 and prime2 of a DER RSAPrivateKey are 3 mod 4
	openssl asn1parse -inform DER -in "$1" | awk -F: '
		/INTEGER/ { n++; if (n == 5 || n == 6) {
			c = substr($NF, length($NF), 1);
			printf "%s", (index("37BF", c) > 0) ? "3" : "x" } }
		END { print "" }'
}

keybits() {
	openssl rsa -inform DER -in "$1" -noout -text 2>/dev/null |
		sed -n 's/^Private-Key: (\([0-9]*\) bit.*/\1/p'
}

# Fallback generator (OpenSSL API) for sizes where `openssl genpkey` does not
# return the exact requested bit length (seen: 2049 -> 2048 with OpenSSL 3.x).
mkgen() {
	[ -x rsa/genkey ] && return
	cat > rsa/genkey.c <<'EOC'
#define OPENSSL_SUPPRESS_DEPRECATED
#include <stdio.h>
#include <stdlib.h>
#include <openssl/bn.h>
#include <openssl/rsa.h>
int main(int argc, char **argv)
{
	int bits = atoi(argv[1]);
	BN_CTX *c = BN_CTX_new();
	BIGNUM *e = NULL, *p = BN_new(), *q = BN_new(), *n = BN_new(), *d = BN_new(),
		*p1 = BN_new(), *q1 = BN_new(), *phi = BN_new(), *dp = BN_new(),
		*dq = BN_new(), *iq = BN_new(), *g = BN_new();
	RSA *r = RSA_new();
	unsigned char *der = NULL;
	int len;
	(void)argc;
	BN_dec2bn(&e, argv[2]);
	for (;;) {
		/* BN_generate_prime_ex sets the two top bits: n gets exactly `bits` bits */
		BN_generate_prime_ex(p, (bits + 1) / 2, 0, NULL, NULL, NULL);
		BN_generate_prime_ex(q, bits / 2, 0, NULL, NULL, NULL);
		if (BN_cmp(p, q) < 0) { BIGNUM *t = p; p = q; q = t; }
		BN_sub(p1, p, BN_value_one()); BN_sub(q1, q, BN_value_one());
		BN_gcd(g, p1, e, c); if (!BN_is_one(g)) continue;
		BN_gcd(g, q1, e, c); if (!BN_is_one(g)) continue;
		BN_mul(n, p, q, c);
		if (BN_num_bits(n) == bits && BN_cmp(p, q) != 0) break;
	}
	BN_mul(phi, p1, q1, c);
	BN_mod_inverse(d, e, phi, c);
	BN_mod(dp, d, p1, c); BN_mod(dq, d, q1, c);
	BN_mod_inverse(iq, q, p, c);
	RSA_set0_key(r, n, e, d); RSA_set0_factors(r, p, q); RSA_set0_crt_params(r, dp, dq, iq);
	len = i2d_RSAPrivateKey(r, &der);
	fwrite(der, 1, len, stdout);
	return 0;
}
EOC
	cc -o rsa/genkey rsa/genkey.c -lcrypto
}

gen() {  # bits e tag
	bits=$1; e=$2; tag=$3
	en=$e; [ "$e" = "$E33" ] && en=33bit
	f=rsa/k${bits}_e${en}${tag:+_$tag}.der
	while :; do
		openssl genpkey -algorithm RSA -pkeyopt rsa_keygen_bits:$bits \
			-pkeyopt rsa_keygen_pubexp:$e -outform DER -out rsa/tmp.der 2>/dev/null
		openssl rsa -inform DER -in rsa/tmp.der -traditional -outform DER -out "$f" 2>/dev/null
		rm -f rsa/tmp.der
		if [ "$(keybits "$f")" != "$bits" ]; then
			mkgen
			rsa/genkey $bits $e > "$f"
		fi
		[ "$(keybits "$f")" = "$bits" ] || { echo "cannot make a $bits-bit key"; exit 1; }
		[ "$tag" != "m3" ] && break
		[ "$(mod4 "$f")" = "33" ] && break
	done
	echo "$(basename "$f") $bits $e ${tag:--}" >> rsa/INDEX
	echo "made $f"
}

gen 512  3      m3
gen 512  65537  ""
gen 768  17     ""
gen 1016 65537  ""
gen 1017 3      ""
gen 1017 $E33   m3
gen 1024 65537  m3
gen 1024 $E33   ""
gen 1025 17     m3
gen 1536 3      ""
gen 2048 65537  ""
gen 2048 3      m3
gen 2049 65537  ""
gen 3072 17     ""
gen 4096 65537  m3
gen 4096 3      ""

rm -f rsa/genkey rsa/genkey.c
chmod 644 rsa/*.der
for f in rsa/*.der; do
	openssl rsa -inform DER -in "$f" -noout -check >/dev/null 2>&1 || { echo "bad key $f"; exit 1; }
done
echo "all keys consistent (openssl rsa -check)"
