#!/bin/sh
# Generates the private-key fixtures used by the C04 check (harness/x509gen.py
# signs the generated certificates with them, in pure Python).
# Run ONCE; the resulting DER files are committed.  Test material only.
# Requires the OpenSSL 3.0 command line tool.
#   rsa<bits>_<k>.der : PKCS#1 RSAPrivateKey DER (e = 65537, one key with e = 3)
#   ec<bits>_<k>.der  : RFC 5915 ECPrivateKey DER (named curve, with public key)
set -e
d="$(dirname "$0")/x509"
mkdir -p "$d"
gen_rsa() { # bits index [exponent]
	e="${3:-65537}"
	openssl genpkey -algorithm RSA -pkeyopt rsa_keygen_bits:"$1" -pkeyopt rsa_keygen_pubexp:"$e" 2>/dev/null \
		| openssl rsa -traditional -outform DER -out "$d/rsa$1_$2.der" 2>/dev/null
}
gen_ec() { # curve bits index
	openssl ecparam -name "$1" -genkey -noout -outform DER -out "$d/ec$2_$3.der"
}
gen_rsa 1016 a
gen_rsa 1016 b
gen_rsa 1017 a
gen_rsa 1017 b
for k in a b c d; do gen_rsa 1024 $k; done
for k in a b c d; do gen_rsa 2048 $k; done
gen_rsa 2048 e3 3
gen_rsa 4096 a
gen_rsa 4096 b
# beyond the documented limits: 513-byte modulus (its signatures exceed BR_X509_BUFSIZE_SIG), 520-byte modulus (key + exponent exceed BR_X509_BUFSIZE_KEY)
gen_rsa 4104 a
gen_rsa 4160 a
for k in a b c d; do gen_ec prime256v1 256 $k; done
for k in a b c; do gen_ec secp384r1 384 $k; done
for k in a b c; do gen_ec secp521r1 521 $k; done
ls -l "$d"
