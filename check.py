#!/usr/bin/env python3
"""Single driver for all /verif checks.

  python3 check.py setup
  python3 check.py Cxx [--tier quick|thorough]
  python3 check.py replay <path>

Exit codes: 0 property held on everything explored (KNOWN-FINDING lines may be
printed), 1 violation (a line `VIOLATION property=<id> replay=<path>`),
2 harness failure / inconclusive.
"""
import sys, os, json, time, hashlib, importlib, traceback

HERE = os.path.dirname(os.path.abspath(__file__))
sys.path.insert(0, os.path.join(HERE, 'lib'))
sys.path.insert(0, os.path.join(HERE, 'props'))

import vbuild, vrun  # noqa: E402


def load_known():
    p = os.path.join(HERE, 'known_findings.json')
    if not os.path.exists(p):
        return []
    return json.load(open(p)).get('findings', [])


def main(argv):
    if len(argv) < 2:
        print(__doc__)
        return 2
    cmd = argv[1]
    if cmd == 'setup':
        return vbuild.setup()
    if cmd == 'replay':
        return vrun.replay(argv[2])
    prop = cmd
    tier = os.environ.get('VERIF_TIER', 'quick')
    if '--tier' in argv:
        tier = argv[argv.index('--tier') + 1]
    seed = int(os.environ.get('VERIF_SEED', '1') or '1')
    try:
        mod = importlib.import_module(prop.lower())
    except ImportError:
        print('no such check: %s' % prop)
        traceback.print_exc()
        return 2
    return vrun.run_property(prop, mod, tier, seed, load_known())


if __name__ == '__main__':
    try:
        rc = main(sys.argv)
    except vrun.Inconclusive as e:
        print('INCONCLUSIVE: %s' % e)
        rc = 2
    except Exception:
        traceback.print_exc()
        rc = 2
    sys.exit(rc)
