"""C06: the engine's reported state and buffers are consistent after every API call."""
from vrun import Job

LEVEL = 'exploration'
RULE = ('bounded exhaustive enumeration over real engine contexts with snapshot/restore: from every stride-th pump step of a '
        'reference handshake (both roles) and 17 scripted data-phase states (idle, unflushed data, record ready, partial header in, '
        'unread application data, crossing records, after close request, peer got close_notify, renegotiation requested by client / '
        'by server, forced empty record pending with a peer record in flight on either side, the peer close_notify arriving while own data is unflushed / partly sent on either side, close or renegotiation requested while an application record is partly sent), all sequences of the 28 actions {sendrec_ack 1|all, recvrec_ack 1|all, sendapp_ack 1|all, recvapp_ack 1|all, '
        'flush 0|1, close, renegotiate, sendrec_take (bytes to the transport, no ack yet), sendrec_ack(taken) (the late ack, also on an engine closed meanwhile)} x {client, server} that the API allows, to depth d, de-duplicated by a hash of both contexts, '
        'buffers and FIFOs; 12 configurations = protection mode x buffer layout x {minimum, full} size. Oracle: tp_check() after every '
        'call + position-coded stream comparison at every read. distinct = distinct world states reached; evaluations = transitions executed. '
        'In addition every other TLS check runs the same monitor after each of its calls (random schedules).')
ASSUMPTIONS = [
    'state de-duplication by 64-bit hash: a collision can only hide states (reduce coverage), never raise an alarm',
    'seeder replaced by a fixed seed (hook H1)',
]
EVAL = ['transitions']
DISTINCT = ['__states__']
REQUIRED = ['transitions', 'states', 'c06_checks', 'transitions_with_closed_endpoint', 'act_renegotiate', 'act_close',
            'act_recvapp_ack(1)', 'act_sendrec_ack(1)', 'failed_reset_start_states']
EXHAUSTIVE = 'all action sequences to the stated depth from each sampled start state (bounded exhaustive, not global)'
NW = 16


def jobs(tier, seed):
    depth, stride, conf = (4, 8, 12) if tier == 'quick' else (6, 2, 12)
    return [Job('ex%d' % i, 'h_engstate', ['--seed', seed, '--worker', i, '--nworkers', NW, '--depth', depth,
                                            '--stride', stride, '--configs', conf],
                timeout=900 if tier == 'quick' else 14000) for i in range(NW)]


def distinct_count(res):
    return res.sums.get('states', 0)


def coverage_extra(res, tier):
    return dict(states=res.sums.get('states', 0), transitions=res.sums.get('transitions', 0),
                depth=4 if tier == 'quick' else 6)
