"""C16: record sizes respect buffers and the negotiated maximum fragment length."""
from vrun import Job

LEVEL = 'exploration'
RULE = ('case idx -> protection mode (10 suites) x version x kind {5 plain sessions, MITM rewriting the echoed code, MITM deleting the echo, '
        'forged-record acceptance}; buffers on each side independently: layout {shared, engine-split, two buffers} x threshold {512,1024,2048,'
        '4096,16384}+overhead (325 in / 85 out) x {-1,0,+1}; application writes up to 3 fragments incl. exact multiples +-1. The independent '
        'record layer measures every record\'s plaintext length and reads the max_fragment_length extension of both hellos. Oracles: client '
        'request = largest standard length its buffers allow (none for full-size buffers); an echo repeats the request; negotiated flag <=> echo '
        'on the wire (also sampled under a deleted echo); rewritten echo => client never ready; every record <= 16384, <= negotiated length, '
        '<= the requested length even without echo, <= the sender\'s own buffer-derived limit, wire length <= output buffer; forged conformant '
        'records with exactly the advertised plaintext length (CBC with 255 padding bytes) and the largest record that fits the input buffer are '
        'accepted and delivered, a record just beyond the input buffer gives an error (ASan armed). tiny (h_tinybuf): both roles x every layout x '
        'buffer sizes from 0 bytes through every threshold +-1 up to just above the minimum (512+325 in, 512+85 out; 1434 for the engine-split '
        'buffer), exact-size heap blocks: a refused configuration must be visibly refused (reset 0 / CLOSED with an error) and stay so, an '
        'accepted one must complete a handshake and exchange data exactly, the minimum itself must be accepted; every offered region is '
        'checked against the caller block after each call; minimum-size servers of every layout also face a full-size client that sends a '
        'certificate chain larger than the whole server input buffer in one unencrypted record (taken in pieces). reuse: one client context reset and used for four connections (with / without resumption) against servers that echo the extension and servers that do not, in six orders: after each handshake the negotiated flag equals the presence of the extension in that ServerHello; one server context (with / without session cache) reset for four clients of different buffer classes in four orders: no extension without a request, echo equal to the request of that connection, records within the limit of that connection and full-size again without one. distinct = (mode, version, client layout/limit, '
        'server layout/limit, echoed code) tuples.'
        ' session: a limited client makes a full handshake, resumes the session on the same contexts (server with a cache) and renegotiates: in each of the three handshakes the request is sent and echoed, the flag follows, and no server record after a ServerHello exceeds the length, abbreviated handshake and renegotiated keys included. Buffers far above the optimum (32 KiB .. 1 MiB) and two buffers of different classes are part of the session mix.')
ASSUMPTIONS = [
    'for the engine-split single buffer the caller cannot know the split point, so exact-fit checks use the shared and two-buffer layouts',
    'a server that does not echo but keeps its records within the requested length is accepted (the property demands honouring, not echoing)',
    'OpenSSL EVP trusted for measuring and forging records',
]
EVAL = ['cases']
DISTINCT = ['config', 'tiny_outcome', 'reuse_step', 'server_reuse_step']
REQUIRED = ['cases', 'sessions_completed', 'sessions_with_mfl', 'sessions_without_mfl', 'cmp_client_request', 'cmp_negotiated_flag',
            'records_measured', 'forged_max_records', 'forged_empty_records', 'forged_fit_records', 'forged_oversize_records', 'mitm_rewrite_applied',
            'mitm_delete_applied', 'server_used_full_fragment', 'tiny_refused', 'tiny_streams_exact', 'small_server_sessions', 'reuse_flag_matches', 'server_reuse_ok',
            'session_mfl_steps_ok', 'session_mfl_resumed', 'huge_buffer_cases', 'asymmetric_buffer_cases']
NW = 16


def jobs(tier, seed):
    n = 1920 if tier == 'quick' else 48000
    return [Job('z%d' % i, 'h_tls16', ['--seed', seed, '--worker', i, '--nworkers', NW, '--cases', n],
                libs=['-lcrypto'], timeout=900 if tier == 'quick' else 7200) for i in range(NW)] + \
           [Job('tiny%d' % i, 'h_tinybuf', ['--seed', seed, '--worker', i, '--nworkers', 4], libs=['-lcrypto'], timeout=900) for i in range(4)]
