"""C15: negotiation outcome equals a reference function of both configurations.

Engine E1 in negotiate mode: harness/h_tls15.c runs one handshake per case and appends one JSON object per case
(both configurations, what both endpoints report, what the independent wire decoder saw) to a log under
build/c15-logs/. The oracle is harness/nego_ref.py (Python, no code shared with the C side), run by finish()
over all logs. A violation found offline carries a one-case replay job (h_tls15 --only <idx>); on_job_done()
judges such a job's log, so `check.py replay <file>` reproduces it.
"""
import os, sys, json, glob
from vrun import Job
import vbuild

sys.path.insert(0, vbuild.HARNESS)
import nego_ref  # noqa: E402

LEVEL = 'exploration'
RULE = ('case idx -> kind (idx mod 9): all 36 pairs of version ranges; all 45 singleton client lists x 3 server key kinds; ordered client '
        'pairs (all 1980 x 3 key kinds in the thorough tier, a seed-dependent sample in quick) against a shuffled server list with and '
        'without BR_OPT_ENFORCE_SERVER_PREFERENCES; all 256 client x server flag combinations with and without a client-certificate '
        'request and client certificate none/RSA/EC; hash subsets (all 64 per side, repaired to the caller\'s obligations: MD5+SHA-1 '
        'below TLS 1.2, MAC and PRF hash of every listed suite) and curve subsets (15 x 15, restricted br_ec_impl), in half of these '
        'cases with a client-certificate request to a client that mostly has an RSA or EC (P-256) certificate, a third of those with '
        'SHA-256 taken away from one side and, for an EC certificate against a P-256 server key, a third with the static ECDH suites '
        'first; in every other kind hash and curve subsets are drawn with and without client authentication too; ALPN lists of 0-3 of 4 '
        'names per side, SNI none / SAN names / 255 bytes / arbitrary non-zero bytes; random longer lists; scripted ClientHellos (no '
        'client engine): unknown / GREASE suites, extensions, curves and signature algorithms, duplicated suites, both SCSVs anywhere, no '
        'or empty extension block, SNI of length 0 / 255 / 256 / 300, legacy and future client_version; scripted ServerHellos (no server '
        'engine) fed to a client engine built from a random client configuration (versions, suites incl. a trailing TLS_FALLBACK_SCSV, '
        'hashes, curves or none, no signature verifier, ALPN, SNI or none, BR_OPT_FAIL_ON_ALPN_MISMATCH, buffers of 512..4096 bytes so '
        'that max_fragment_length is sent), in one record cut into chunks of 1 / <=17 / <=600 bytes and in half of the cases followed '
        'by a record with the start of the Certificate message: 40 % honest answers (any offered suite / version in range, 0-32 byte '
        'session ID, no / empty / random subset and order of the solicited extensions), 50 % with one and 10 % with two or three of 41 '
        'defects (version below / above the range, record version differing or with another major, suite not offered / unknown / GREASE '
        '/ TLS-1.2-only below 1.2 / 00FF / 5600, compression, 33+ byte ID, renegotiation_info with data or bad length, server_name with '
        'data or unsolicited, max_fragment_length other / unsolicited / bad length, ALPN foreign name / two names / empty list / empty '
        'name / bad lengths / unsolicited, unsolicited signature_algorithms / supported_groups / ec_point_formats, unknown or GREASE '
        'extension, duplicated extension, block length, trailing bytes, message length short / long, later record of another version, '
        'next message not a Certificate, ChangeCipherSpec instead of it, a complete Certificate message with an empty certificate '
        'list, a Certificate message of length 3 whose list length is not zero: both must make the client fail); 22 % of the clients '
        'offer a session to resume, which the '
        'server ignores or takes up (same ID: same version and suite, then ChangeCipherSpec; defects: other version, other suite, '
        'malformed ChangeCipherSpec, a handshake message instead). The reference decodes the client\'s ClientHello (must equal the configuration; tells which '
        'extensions were sent) and the fed records on its own and demands: carry on without error and report the ServerHello\'s version, '
        'suite, ALPN name, max-fragment flag and secure-renegotiation status, or fail with the error code documented in bearssl_ssl.h '
        '(any applicable one for several defects; never report a suite that was not offered). All other dimensions of a case '
        'are drawn at random (server key RSA / P-256 under EC or RSA CA / P-384, usages KEYX / SIGN / both). The reference computes '
        'version, suite, ECDHE curve, signature hash, ALPN name, SNI, alert, error codes, renegotiate() result and client-certificate '
        'visibility from the two configurations and every logged field is compared; both endpoints must agree; the ClientHello on the '
        'wire must equal the client configuration and the ServerHello must carry exactly the solicited extensions. Client '
        'authentication under hash / curve subsets: the harness logs the bodies of CertificateRequest, the client\'s Certificate and '
        'CertificateVerify, the length of ClientKeyExchange (independent wire decoder) and what the server\'s X.509 validator was fed '
        'in this handshake (length and FNV-1a of each certificate); the reference demands: CertificateRequest = types 1, 64 (+ 65, 66 '
        'exactly with an ECDH_* suite), in TLS 1.2 every SHA-1..SHA-512 function of the server engine with RSA and ECDSA and nothing '
        'else, the DNs of the configured trust anchors (read from the fixture DER files); the client answers with a Certificate message '
        'holding exactly its configured chain (empty without certificate); the server validator is fed exactly these certificates, '
        'once; an RSA key signs CertificateVerify, in TLS 1.2 naming (hash, rsa) with the first of SHA-256, SHA-384, SHA-512, SHA-224, '
        'SHA-1 that the request lists for RSA and the client engine has (it must be a listed pair, RFC 5246 7.4.8); an EC key does the '
        'same with ecdsa, or full static ECDH (empty ClientKeyExchange, no CertificateVerify), which is accepted only with an ECDH_* '
        'suite and a server key on the client key\'s curve; a certificate without either proof never completes; valid chain and '
        'proof: the handshake completes; no certificate: BR_ERR_NO_CLIENT_AUTH, or completion under BR_OPT_TOLERATE_NO_CLIENT_AUTH. '
        'distinct = configuration tuples and outcome tuples.'
        ' resume: a first connection stores a session (server with a cache), the same contexts are used again with the client offering it and configurations changed in between (ALPN names of either side, server name, client version range, the remembered suite removed, ALPN strictness flag): abbreviated only if the remembered version and suite are acceptable to both current configurations, else the fresh negotiation result; protocol name and server name are those of the second connection; a second connection that could be negotiated must complete one way or the other.')
ASSUMPTIONS = [
    'the reference (harness/nego_ref.py) states the rules of inc/bearssl_ssl.h, of the explanatory comments in ssl_hs_server.t0 / '
    'ssl_hs_client.t0 / inner.h and of RFC 5246, 4492, 5746, 7301, 7507; its docstring lists the source of each rule',
    'precedence between simultaneous failure reasons (handshake_failure vs no_application_protocol; protocol_version vs '
    'no_application_protocol) is not documented: any applicable alert is accepted',
    'not judged (executed, counted as unjudged_*): signature_algorithms without a usable hash below TLS 1.2 (RFC: extension not '
    'meaningful; library comment: filter), a scripted client that does not list the curve of the server\'s own key, a client error code '
    'after an unreadable alert; for a BearSSL client that cannot handle the server key curve or whose minimum version is above the '
    'server choice only "no completion" is required',
    'set_protocol_names() says an ALPN mismatch aborts; the more specific BR_OPT_FAIL_ON_ALPN_MISMATCH text (carry on without the '
    'flag) is taken as the rule',
    'client authentication is exercised with valid client chains only (C03 covers forged ones); the server\'s X.509 engine keeps all '
    'hash functions and curves (the subsets are those of the SSL engines), the key handlers of both sides run on the unrestricted '
    'EC implementation',
    'client authentication, not judged beyond "both sides agree; no completion with an unauthenticated client without '
    'BR_OPT_TOLERATE_NO_CLIENT_AUTH" (counted as unjudged_client_auth_*): an ECDSA CertificateVerify when the server engine\'s EC '
    'implementation lacks the curve of the client key (documented: that implementation serves "ECDSA support"; the outcome is not), '
    'static ECDH when the client engine lacks the server key curve, no common hash in TLS 1.2 (cannot occur within the caller\'s '
    'obligations: the PRF hash of the suite is on both sides, hence SHA-512 / SHA-224 / SHA-1 are never the chosen hash and only the '
    'head of the preference order is observable); where static ECDH and ECDSA are both possible the handler "chooses" '
    '(bearssl_ssl.h): either is accepted (client_auth_static_ecdh / client_auth_ecdsa_where_static_ecdh_possible)',
    'scripted ServerHello followed by a Certificate message with an empty list, or of length 3 with a non-zero list length: "the '
    'client fails" is demanded (RFC 5246 7.4.2; T0 comment of read-Certificate), the error code is not (bearssl_ssl.h does not pin '
    'it; the code says BR_ERR_UNEXPECTED / BR_ERR_BAD_PARAM)',
    'certificate name matching is bypassed for SNI strings that are not in the fixture certificates (C04 covers name matching)',
    'scripted ServerHello: bearssl_ssl.h documents error codes, not alerts, for a client that refuses a ServerHello (a sent alert '
    'would show as last_error 512+alert): alerts of the client are counted (srvhello_refused_with/without_alert), not demanded',
    'scripted ServerHello, error code not judged (only "fails", counted as unjudged_error_code_*) where the header does not pin it '
    'down: contradictory length fields, malformed ALPN / max_fragment_length / renegotiation_info bodies, a foreign ALPN name under '
    'BR_OPT_FAIL_ON_ALPN_MISMATCH ("a protocol failure"), a TLS-1.2-only suite below TLS 1.2, a signalling value chosen as suite; a '
    'ServerHello whose last bytes have not arrived is not judged beyond "no failure on a well-formed beginning"; a HelloRequest '
    'after the ServerHello is not judged',
    'TLS_FALLBACK_SCSV / TLS_EMPTY_RENEGOTIATION_INFO_SCSV are not cipher suites (RFC 7507 section 4, RFC 5746 3.3; the header calls '
    '0x5600 a "signaling pseudo-cipher suite"): a ServerHello selecting one must be refused even when the client listed it',
]
EVAL = ['cases']
DISTINCT = ['config', 'outcome']
FIELDS = ['cmp_outcome', 'cmp_version', 'cmp_suite', 'cmp_curve', 'cmp_sig_hash', 'cmp_alpn', 'cmp_sni', 'cmp_alert',
          'cmp_alert_record_version', 'cmp_error_code', 'cmp_reneg', 'cmp_client_cert', 'cmp_client_offer', 'cmp_fail_any',
          'cmp_wire_server_hello', 'cmp_wire_extensions', 'cmp_wire_key_exchange',
          'cmp_sides_ver', 'cmp_sides_suite', 'cmp_sides_curve', 'cmp_sides_proto', 'cmp_sides_name', 'cmp_sides_reneg']
CA_FIELDS = ['cmp_cert_request', 'cmp_cert_request_algorithms', 'cmp_client_chain', 'cmp_client_chain_validator', 'cmp_cert_verify',
             'cmp_cert_verify_algorithm']
SRV_FIELDS = ['cmp_srvhello_outcome', 'cmp_srvhello_error_code', 'cmp_srvhello_suite_offered', 'cmp_srvhello_version',
              'cmp_srvhello_suite', 'cmp_srvhello_alpn', 'cmp_srvhello_mfln', 'cmp_srvhello_reneg']
# every defect class the reference knows must have been met (the rarest ones a handful of times per quick run)
SRV_DEFECTS = ['srvhello_defect_' + d for d in (
    'version_out_of_range', 'record_version_differs', 'record_major_version', 'oversized_id', 'suite_not_offered',
    'suite_is_signalling_value', 'suite_needs_tls12', 'compression', 'extension_not_solicited', 'extension_duplicated',
    'sni_not_empty', 'mfl_differs', 'mfl_malformed', 'reneg_info_not_empty', 'reneg_info_malformed', 'alpn_malformed',
    'alpn_name_not_offered_flag', 'framing', 'later_record_version_differs', 'next_message_not_certificate',
    'ccs_instead_of_certificate', 'resume_mismatch', 'handshake_message_instead_of_ccs', 'malformed_ccs',
    'empty_certificate_list', 'certificate_list_length')]
REQUIRED = ['cases', 'cmp_policy_view', 'cases_with_observing_policy', 'profile_cases_judged', 'profile_expect_ok', 'profile_expect_alert', 'cases_checked', 'cases_pair', 'cases_scripted', 'cases_resume', 'cmp_resume_abbreviated', 'cmp_resume_full',
            'cmp_resume_alpn', 'cmp_resume_sni', 'resume_session_not_acceptable', 'cases_with_previous_life', 'handshakes_completed', 'handshakes_failed',
            'scripted_answered_server_hello', 'scripted_refused', 'expect_ok', 'expect_alert', 'expect_scripted_ok',
            'expect_scripted_alert', 'scripted_duplicate_suites', 'scripted_unknown_suite_values',
            'scripted_without_extension_block',
            # scripted ServerHello against a client engine
            'cases_scripted_srv', 'expect_srvhello_accept', 'expect_srvhello_refuse', 'srvhello_accepted', 'srvhello_refused',
            'srvhello_single_defect', 'srvhello_several_defects', 'srvhello_client_sent_mfl', 'srvhello_mfl_echoed',
            'srvhello_alpn_foreign_name_without_flag', 'srvhello_client_offers_session', 'srvhello_resumed',
            'srvhello_resumed_ccs_taken', 'srvhello_full_handshake', 'srvhello_certificate_message_of_length_3',
            # client authentication under hash / curve subsets
            'client_auth_requested', 'client_auth_rsa_signed', 'client_auth_ecdsa_signed', 'client_auth_static_ecdh',
            'client_auth_none_refused', 'client_auth_none_tolerated', 'client_auth_with_reduced_hashes',
            'client_auth_with_reduced_curves', 'cert_verify_hash_other_than_sha256', 'cert_verify_below_tls12',
            'cmp_client_auth_safety'] + FIELDS + CA_FIELDS + SRV_FIELDS + SRV_DEFECTS
NW = 16
CASES = {'quick': 7500, 'thorough': 375000}   # 10 slots (h_tls15 NSLOTS): 750 / 37500 cases per slot
LOGDIR = os.path.join(vbuild.BUILD, 'c15-logs')
MAX_PER_KEY = 40


def _logs(tier, seed):
    return [os.path.join(LOGDIR, 's%d-%s-w%d.jsonl' % (seed, tier, i)) for i in range(NW)]


def jobs(tier, seed):
    tier = 'thorough' if tier == 'thorough' else 'quick'
    os.makedirs(LOGDIR, exist_ok=True)
    for p in _logs(tier, seed):
        if os.path.exists(p):
            os.unlink(p)
    return [Job('n%d' % i, 'h_tls15', ['--seed', seed, '--worker', i, '--nworkers', NW, '--cases', CASES[tier], '--log', p],
                libs=['-lcrypto'], timeout=600 if tier == 'quick' else 3600)
            for i, p in enumerate(_logs(tier, seed))]


def _replay_job(seed, idx):
    p = os.path.join(LOGDIR, 'replay-s%d-i%d.jsonl' % (seed, idx))
    return Job('replay-i%d' % idx, 'h_tls15', ['--seed', seed, '--only', idx, '--log', p], libs=['-lcrypto'],
               timeout=120, tag='c15-replay')


def _report(res, viols, per_key):
    for key, what, case in viols:
        n = per_key.get(key, 0)
        per_key[key] = n + 1
        if n < MAX_PER_KEY:
            res.viol(key, what, json.dumps(case, sort_keys=True), _replay_job(case['seed'], case['idx']))


def on_job_done(job, rc, out, err, res):
    """a replay job: judge its one-case log at once (normal jobs are judged together in finish)"""
    if job.tag == 'c15-replay' and '--log' in job.args:
        p = job.args[job.args.index('--log') + 1]
        if os.path.exists(p):
            stats, viols = nego_ref.check_path(p)
            _report(res, viols, {})
            for k, v in stats.items():
                res.stat(k, v)
    return False


def finish(res, tier, seed):
    tier = 'thorough' if tier == 'thorough' else 'quick'
    paths = [p for p in _logs(tier, seed) if os.path.exists(p)]
    if len(paths) != NW:
        res.inconclusive.append('only %d of %d case logs were written' % (len(paths), NW))
    if not paths:
        return
    try:
        import multiprocessing
        with multiprocessing.Pool(min(NW, vbuild.JOBS)) as pool:
            results = pool.map(nego_ref.check_path, paths)
    except (ImportError, OSError):
        results = [nego_ref.check_path(p) for p in paths]
    per_key = {}
    for stats, viols in results:
        for k, v in stats.items():
            res.stat(k, v)
        _report(res, viols, per_key)
    for k, n in per_key.items():
        res.stat('violations_' + k.replace(':', '_'), n)
    if res.sums.get('cases_checked', 0) != res.sums.get('cases', 0):
        res.inconclusive.append('harness ran %d cases but %d log lines were checked'
                                % (res.sums.get('cases', 0), res.sums.get('cases_checked', 0)))


def coverage_extra(res, tier):
    return dict(fields_compared={k: res.sums.get(k, 0) for k in FIELDS + CA_FIELDS + SRV_FIELDS},
                client_authentication={k: v for k, v in sorted(res.sums.items())
                                       if k.startswith('client_auth_') or k.startswith('cert_verify_')},
                scripted_server_hello={k: v for k, v in sorted(res.sums.items()) if k.startswith('srvhello_') or k.startswith('scripted_srv')},
                expectations={k: v for k, v in sorted(res.sums.items()) if k.startswith('expect_') or k.startswith('reason_')},
                not_judged={k: v for k, v in sorted(res.sums.items()) if k.startswith('unjudged_')},
                cases_per_tier=CASES, log_dir=LOGDIR)
