"""C19: closure, alerts and renegotiation follow the protocol without corrupting data."""
from vrun import Job

LEVEL = 'exploration'
RULE = ('close: bidirectional exchanges under seeded random schedules (5 chunk policies, 3 buffer layouts per side, 8 protection modes x versions); '
        'one side or both request closure at a random step; oracle: everything written before the request is read by the peer, nothing is '
        'delivered to the requester afterwards, exactly one close_notify per direction on the decoded wire and no other alert, both CLOSED with '
        'error 0. cut: a recorded stream of 4 records + close_notify is cut at EVERY byte offset against a restored receiver: never CLOSED with '
        'error 0 unless the close_notify arrived completely. alert: every level in {0,1,2,3,255} x descriptions (strided, random phase) injected as '
        'whole record, split over two records, and behind another warning in the same record, at 4 phases (2 in the plaintext handshake, idle '
        'after the handshake, after data): fatal/unknown level => CLOSED with BR_ERR_RECV_FATAL_ALERT+description; warnings => ignored and a '
        'following data record still delivered in order. prealert: a close_notify in an unprotected record (before any key; alone, after another warning, followed by further alert bytes) sent to a fresh client or server with each buffer layout, the record cut at EVERY position: coherent (some operation offered) while incomplete, closed with error 0 once complete, same outcome for every cut. reneg: requested by client or server on a quiescent connection (must complete, hellos '
        'carry renegotiation_info equal to the previous Finished values as decoded from the wire, keys change, streams exact before/after, three in '
        'a row), with BR_OPT_NO_RENEGOTIATION on the other side (no_renegotiation warning on the wire, no key change), documented refusals of '
        'br_ssl_engine_renegotiate, with application data in flight, and with a rogue peer whose saved Finished values differ in one bit at each of the 24 positions on either side (must be refused, never re-keyed). decline: a scripted peer (records forged with the real keys) sends HelloRequest / a renegotiation ClientHello to an endpoint with BR_OPT_NO_RENEGOTIATION: exactly one no_renegotiation warning, connection stays open, following data delivered in order. sslio: the client is driven through br_sslio_* with callbacks that pump '
        'the server; orderly close returns 1 with error 0, a transport cut gives a non-zero error. sslio2: either role under br_sslio_* (the peer is a plain engine pumped from inside the callbacks), every layout pair, callbacks doing short reads/writes of any size, the n-th read or write callback failing hard, read/read_all/write/write_all/flush/close mixed, close while the peer still sends: bytes read are the peer stream in order, everything written and flushed reaches the peer application exactly, an injected transport failure is reported (-1, non-zero last_error), sticky, and the transport is never touched again. reuse: one client or server context reset for three connections, the earlier ones ending in each of ten ways (closed by either side, fatal alert, a lone alert level byte, cut in mid-record, bad MAC, refused in the handshake, closure never answered, abandoned in mid-handshake or mid-renegotiation): the next connection completes its handshake, delivers exact streams and closes in order with one close_notify per side, error 0. roguehello: a scripted peer holding the connection keys sends a renegotiation hello (ClientHello to a server, ServerHello to a client that has just asked) whose renegotiation_info is absent, empty, altered in one bit, one byte too long, or whose extension block is missing: the victim fails, never answers (server) and never changes keys; the right value is taken (control). distinct = configuration tuples per mode + schedules.')
ASSUMPTIONS = [
    'peers without RFC 5746 support cannot be produced by the stacks on this image; that sub-clause is not explored',
    'after a declined renegotiation the requester may stop with BR_ERR_RECV_FATAL_ALERT+100; streams must never be corrupted',
    'a no_renegotiation warning received outside a renegotiation is executed but not judged',
]
EVAL = ['cases', 'cut_points', 'alerts_injected', 'prealert_runs']
DISTINCT = ['rogue_hello_cfg', 'reuse_after', 'close_cfg', 'cut_cfg', 'alert_cfg', 'reneg_cfg', 'sslio_cfg', 'decline_cfg', 'prealert_cfg', 'sslio2_cfg', 'schedule']
REQUIRED = ['close_ok', 'cut_points', 'fatal_alerts_reported', 'warnings_ignored_stream_intact', 'renegotiations_completed',
            'renegotiation_info_verified', 'reneg_declined_cases', 'reneg_refusals_checked', 'sslio_cut_cases', 'sslio_close_calls', 'decline_ok', 'reneg_rogue_refused', 'prealert_cuts_agree', 'sslio2_streams_exact', 'sslio2_injected_failures_reported', 'sslio2_read_all_calls',
            'reuse_clean_connections', 'reuse_abnormal_ends', 'rogue_hello_refused', 'rogue_hello_controls_ok',
            'reneg_forty_in_a_row_cases']
NW = 8


def jobs(tier, seed):
    q = tier == 'quick'
    plan = [('close', 1600 if q else 60000, 1), ('cut', 48 if q else 480, 1), ('alert', 32 if q else 96, 16 if q else 1),
            ('reneg', 1344 if q else 20160, 1), ('sslio', 192 if q else 4800, 1),
            ('decline', 192 if q else 4800, 1), ('prealert', 72, 1), ('sslio2', 480 if q else 9600, 1), ('reuse', 480 if q else 4800, 1), ('roguehello', 576 if q else 5760, 1)]
    js = []
    for mode, n, stride in plan:
        for i in range(NW):
            js.append(Job('%s%d' % (mode, i), 'h_tls19', ['--seed', seed, '--mode', mode, '--cases', n, '--stride', stride,
                                                           '--worker', i, '--nworkers', NW], libs=['-lcrypto'],
                          timeout=1200 if q else 10000))
    return js
