"""C17: session cache behaves as an LRU map; resumption reuses the right secrets."""
from vrun import Job

LEVEL = 'exploration'
RULE = ('h_lru: br_ssl_session_cache_lru driven through its vtable (save/load) and _forget; reference models (lrumodel.h) and a structural '
        'walker are evaluated after every operation. (A) every operation sequence over {save, load, forget} x 6 adversarial IDs to depth 4 '
        '(quick) / 5 (thorough), from an empty cache and from a cache pre-filled to capacity, for store lengths 100c+{0,1,99}, c=0..4, x 4 (quick) / 8 (thorough) '
        'masking hashes (SHA-256, SHA-1 and two constant-output hash classes that let the harness choose the index order; thorough and part C add SHA-384/224/512 and MD5) '
        'x cache keys drawn from a per-configuration DRBG seed; (B) every store length 0..99; (C) random histories of 10^4 operations, capacity '
        '1..200, ID universe 3 x capacity, kinds exact-domain / with forget / anything, ascending, descending, zig-zag and random save order; '
        '(D) 16 (quick) / 64 (thorough) random histories of 7000 operations on stores above 64 KiB (capacity 656..1500, ID universe 1.25 x capacity). '
        'Histories are classified on the fly: exact domain (LRU map of capacity floor(len/100): hit/miss, values, recency), forget domain '
        '(set of two admissible refinements), re-save of an indexed ID (hit/miss not judged); safety and structure oracles hold for all. '
        'h_resume: scenarios of 2..7 connections on real engines (3 key kinds, random suite lists and version ranges, LRU store of capacity '
        '0..4 in an exact-size block, 29 variations: unchanged, suite list changed on either side, version range changed on either side, '
        'cache flushed, entry forgotten, evicted by k other sessions, ID truncated / bit-flipped, capacity 0 / no cache, client '
        'forget_session, reset without resume, recency at engine level, second server context, imported parameters, altered master secret, '
        'repeated resumption; suite / version of the entry altered inside the server store (entry located by its masked ID) or on the client through '
        'br_ssl_engine_set_session_parameters, to another suite / version both sides support: never abbreviated; 1..3 full handshakes of another client '
        'cut before the client Finished reaches the server (flight lost / Finished never sent / Finished short of its last bytes) between "A full" and '
        '"A resume" at capacity 1..2: A still resumes, a lookup of the aborted session ID fails); abbreviated <=> offered and held by the model and suite/version acceptable to both sides, observed on the wire '
        '(independent record decoder) and by the validator wrapper. distinct = LRU configurations + (variation, key, suite, version, capacity, '
        'kind) tuples.')
ASSUMPTIONS = [
    'the documentation sentences "each entry uses exactly 100 bytes", "entries are evicted with a LRU policy", "save receives a randomly generated ID", "forget disables the entry" define the exact domain; re-saving an ID that is still indexed is outside it and only judged for safety',
    'masked IDs are pairwise distinct (guaranteed by construction for the constant-output hash classes, up to hash collisions otherwise)',
    'a client whose minimum version is above the remembered version is outside the stated predicate (the server cannot know the client minimum): executed, not judged',
    'seeder replaced by a fixed seed (hook H1); x86-64 ASan/UBSan build; OpenSSL 3.0 libcrypto is a correct reference for the record layer decoder',
]
EVAL = ['cases']
DISTINCT = ['lru_config', 'resume_config', 'openssl_resume']
REQUIRED = ['exhaustive_histories', 'ops_by_second_server_context', 'random_histories', 'cmp_exact', 'cmp_refine', 'cmp_safety', 'cmp_struct',
            'model_evictions', 'model_recency_refreshes', 'ops_resave_domain',
            'resume_cases', 'cmp_handshake_kind', 'cmp_wire_vs_validator', 'abbreviated_checked', 'full_checked',
            'cmp_master_secret', 'cmp_randoms', 'cmp_first_record', 'data_sessions', 'expected_failures',
            'large_histories', 'large_store_above_64k', 'large_model_evictions', 'large_load_hits',
            'mismatch_sessions', 'store_entries_tampered', 'aborted_handshakes', 'cmp_aborted_lookup',
            'openssl_connections', 'openssl_resumed', 'openssl_full_second']
EXHAUSTIVE = ('all operation sequences over {save, load, forget} x 6 IDs up to the stated depth for capacities 0..4 and store lengths '
              '100c+{0,1,99}, from empty and from full caches; all store lengths 0..99 to a smaller depth')
NW = 16


def jobs(tier, seed):
    if tier == 'quick':
        lru = ['--depth', 4, '--small-depth', 3, '--keys', 1, '--hashes', 4, '--random', 200, '--oplen', 10000, '--large', 16]
        res = ['--cases', 870]
        to = 600
    else:
        lru = ['--depth', 5, '--small-depth', 4, '--keys', 1, '--hashes', 8, '--random', 2000, '--oplen', 10000, '--large', 64]
        res = ['--cases', 12000]
        to = 3600
    js = [Job('lru%d' % i, 'h_lru', ['--seed', seed, '--worker', i, '--nworkers', NW] + lru, timeout=to)
          for i in range(NW)]
    js += [Job('res%d' % i, 'h_resume', ['--seed', seed, '--worker', i, '--nworkers', NW] + res,
               libs=['-lcrypto'], timeout=to) for i in range(NW)]
    # the client against an independent server (OpenSSL) that issues session IDs of 1..32 bytes
    js += [Job('ossl%d' % i, 'h_resume_o', ['--seed', seed, '--worker', i, '--nworkers', 4, '--cases', 288 if tier == 'quick' else 2880],
               libs=['-lssl', '-lcrypto'], timeout=to) for i in range(4)]
    return js
