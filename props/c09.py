"""C09 - constant-time word primitives and big-integer arithmetic are exact.

(a) h_bigint_prim: NOT MUX EQ NEQ GT GE LT LE CMP EQ0 GT0 GE0 LT0 LE0 MIN MAX
    BIT_LENGTH MUL MUL31 MUL31_lo MUL15 br_divrem br_div br_rem against their
    C-level definitions (64-bit arithmetic); built twice (default and
    BR_CT_MUL31/BR_CT_MUL15 definitions of the multiplication macros).
(b) h_bigint (+ template h_bigint_var.c): every i15 / i31 / i32 / i62 routine
    against GMP, word for word, with operands at chosen alignments inside
    exact-size malloc blocks surrounded by checked garbage.
"""
from vrun import Job, with_alt_flavours

LEVEL = 'exploration'
RULE = ('(b) moduli: odd and even, bit lengths 9..1100 plus every 37th up to 4096 (quick) / every length '
        '9..4096 (thorough), patterns random, 2^k-1, 2^(k-1)+1, top word all ones, words 0/all-ones/random, '
        'minimal top word, 2^(k-1)+small (quick: random + one forced per length; thorough: all 7); operands from '
        '12 classes (0, 1, m-1, 2^j, 2^j-1, 2^j+1, 0/all-ones words, random, m-small, same top part as m, '
        '2^(k-1)-1, random short); exponents of 7 classes, 0..64 bytes bounded by a cost budget (thorough: also '
        'full size; both tiers: full-size exponents for 2048/3072/4096-bit moduli, modpow_opt of i15/i31/i62 with the smallest and the largest area, '
        'modpow of i15/i31 at 2048 bits); every 2-byte (i15) / 4-byte alignment combination of (d,x,y,m) for montymul; modpow_opt with '
        'every tmp size for small moduli and all window thresholds +-1 otherwise.  A configuration is distinct by '
        '(variant, bit length, pattern); alignment tuples, window classes and edge rows are counted separately.  '
        '(a) full cross product of a 166-value edge set plus random/structured pairs.  The random stream of a '
        'suite depends only on (seed, variant, bit length, pattern).')
ASSUMPTIONS = [
    'GMP (mpz_mul, mpz_powm, mpz_invert, mpz_fdiv_r, import/export with nails) is a correct reference for integer arithmetic',
    'the undocumented i15 functions ("FIXME: document i15 functions" in inner.h) have the documented i31 semantics with 15-bit words and header ((k/15)<<4)+(k%15)',
    'add/sub carry is the carry out of the word array (15/31/32 bits per word), as used by every caller',
    'muladd_small is only required to be exact for x < m (x is a modular integer)',
    'a header word ((k/W-1)<<s)+W is accepted as equivalent to the documented ((k/W)<<s)+0 when k is a positive multiple of the word size W: '
    'br_i15/i31_bit_length (hence decode) return that form, contrary to the comment in inner.h; it denotes the same length and word count '
    '(counted as hdr_noncanonical_*, and both forms are fed as inputs)',
    'i15 arrays handed to montymul / modpow / modpow_opt get one readable slack word after their end (known look-ahead load of the '
    'aligned/aligned branch of i15_montmul.c when the word count is a multiple of 4); its content is random and must not influence results; '
    'all other routines and all i31/i32 arrays get exact-size blocks',
    'modpow_opt must return 0 when tmp cannot hold two integers of the size of m, must return 1 when it can hold two such integers each '
    'rounded up to an even word count; in between the outcome is not judged (result still checked when 1 is returned)',
    'br_divrem with hi > d or d == 0 is executed but not judged (documented as indeterminate)',
]
EVAL = ['cmp_total', 'cmp_prim']
DISTINCT = ['cfg', 'align', 'window', 'edge_row']
REQUIRED = ['cmp_total', 'cmp_prim', 'divrem_in_domain', 'edge_pairs', 'suites',
            'cmp_i15_montymul', 'cmp_i31_montymul', 'cmp_i32_montymul',
            'cmp_i15_modpow', 'cmp_i31_modpow', 'cmp_i32_modpow',
            'cmp_i15_modpow_opt', 'cmp_i31_modpow_opt', 'cmp_i31_i62_modpow_opt', 'cmp_i31_i62_modpow_opt_as_i31',
            'cmp_i15_moddiv', 'cmp_i31_moddiv', 'cmp_i15_muladd_small', 'cmp_i31_muladd_small', 'cmp_i32_muladd_small',
            'cmp_i15_reduce', 'cmp_i15_decode_reduce', 'cmp_i15_decode_mod', 'cmp_i15_decode', 'cmp_i15_encode',
            'cmp_i15_add', 'cmp_i15_sub', 'cmp_i15_mulacc', 'cmp_i15_rshift', 'cmp_i15_bit_length',
            'cmp_i15_to_monty', 'cmp_i15_from_monty', 'cmp_i15_ninv', 'cmp_i15_iszero', 'cmp_i15_zero',
            'modpow_opt_too_short', 'modpow_opt_all_sizes_moduli', 'modpow_fullsize_large_modulus']

NW = 16
# primitives: random pairs per worker (default build, CT-multiplication build)
PRIM = {'quick': (500000, 125000), 'thorough': (60000000, 15000000)}


def jobs(tier, seed):
    t = 'q' if tier == 'quick' else 't'
    to = 900 if tier == 'quick' else 14400
    pd, pc = PRIM['quick' if tier == 'quick' else 'thorough']
    js = []
    for i in range(NW):
        js.append(Job('big%d' % i, 'h_bigint',
                      ['--seed', seed, '--worker', i, '--nworkers', NW, '--tier', t],
                      flavour='asan', libs=['-lgmp'], extra_src=['h_bigint_var.c'], timeout=to))
    for i in range(NW):
        js.append(Job('prim%d' % i, 'h_bigint_prim',
                      ['--seed', seed, '--worker', i, '--nworkers', NW, '--cases', pd],
                      flavour='asan', timeout=to))
    for i in range(NW):
        js.append(Job('primct%d' % i, 'h_bigint_primct',
                      ['--seed', seed, '--worker', i, '--nworkers', NW, '--cases', pc, '--stream', 1],
                      flavour='asan', extra_src=['h_bigint_prim.c'], extra_cflags=['-DPRIM_EXTRA_TU'], timeout=to))
    return with_alt_flavours(js, tier, seed)


def finish(res, tier, seed):
    # the workload itself must have been complete: every alignment tuple of the i15 Montgomery
    # multiplication for every word count modulo 4, every residue of the bit length, both macro sets
    al = res.distinct.get('align', set())
    want = 16 * 4
    for v in ('i15', 'i31', 'i32'):
        got = len([a for a in al if a.startswith(v + ':montymul:')])
        if got < want:
            res.inconclusive.append('only %d/%d alignment x length classes of %s montymul were driven' % (got, want, v))
    rs = res.distinct.get('residue', set())
    for v, w in (('i15', 15), ('i31', 31), ('i32', 32)):
        got = len([a for a in rs if a.startswith(v + ':')])
        if got < w:
            res.inconclusive.append('only %d/%d residues of the bit length modulo the word size for %s' % (got, w, v))
    if len(res.distinct.get('fullsize', ())) < 18:
        res.inconclusive.append('only %d/18 full-size-exponent modpow_opt configurations (variant x 2048/3072/4096 bits x min/max area)'
                                % len(res.distinct.get('fullsize', ())))
    if len(res.distinct.get('mulcfg', ())) < 2:
        res.inconclusive.append('primitives were not run with both definitions of the MUL31/MUL15 macros')
    if res.maxes.get('edge_values', 0) < 160:
        res.inconclusive.append('edge set smaller than 160 values')
    if len(res.distinct.get('edge_row', ())) < res.maxes.get('edge_values', 0):
        res.inconclusive.append('edge cross product incomplete')


def coverage_extra(res, tier):
    per = {}
    for k, v in res.sums.items():
        if k.startswith('cmp_i'):
            var, fn = k[4:].split('_', 1)
            per.setdefault(var, {})[fn] = v
    return dict(
        comparisons_per_routine=per,
        primitive_pairs=res.sums.get('pairs', 0),
        primitive_comparisons=res.sums.get('cmp_prim', 0),
        not_judged=dict((k, v) for k, v in res.sums.items() if k.startswith('unjudged_')),
        header_noncanonical_outputs=dict((k, v) for k, v in res.sums.items() if k.startswith('hdr_noncanonical_')),
        window_classes=sorted(res.distinct.get('window', ())),
        bit_lengths=res.sums.get('bitlengths', 0),
    )
