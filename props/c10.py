"""C10 - RSA operations are correct, interoperable and strict, in every implementation.

Engine: harness/h_rsa.c (flavour asan, linked with OpenSSL libcrypto).  See
DESIGN.md section C10.  The work is a fixed table of units (fixture key x
section x implementation, one 'compute' unit per key, keygen units, one 'limits' unit per implementation); unit u runs
on worker (u + u//16) % 16 with PRNG stream (seed, u).  --cases is the per-unit budget in
"512-bit i15 private operations"; iteration counts derive from it, never from
time.
"""
import os
from vrun import Job, with_alt_flavours

HERE = os.path.dirname(os.path.dirname(os.path.abspath(__file__)))
FIX = os.path.join(HERE, 'fixtures', 'rsa')

LEVEL = 'exploration'
RULE = ('cases = comparisons of one library result with the reference (OpenSSL BIGNUM / RSA_sign / EVP PSS+OAEP, '
        'or the RFC 8017 encoding models in the harness); inputs: 16 fixture keys 512..4096 bits '
        '(incl. 1016/1017/1025/2049 bits, e in {3,17,65537,2^32+1}) each as plain / leading-zero / p<->q swapped views, '
        'keys made by br_rsa_*_keygen, random operands, hashes md5..sha512, PSS salt 0..max, OAEP label 0..64 and '
        'message 0..max, single-byte alterations of every (quick: sampled) position of an encoded message; '
        'distinct = (section, implementation, key, hash/variant class) tuples')
ASSUMPTIONS = [
    'OpenSSL libcrypto (BN_mod_exp, RSA_sign/RSA_verify, EVP PSS and OAEP, RSA_public_encrypt type 2, BN_check_prime) is a correct reference',
    'the RFC 8017 encoders/decoders written in the harness are correct (each is cross-checked against OpenSSL at run time; a mismatch aborts as harness failure)',
    'inputs outside the documented contract (wrong n_bitlen, oversized modulus in the raw public op, '
    'compute_privexp with p or q = 1 mod 4, a random 400-byte "factor") are executed under ASan/UBSan but their results are not judged',
    'rejection of even prime factors and of operands not below the modulus by the private operation is demanded by the property statement '
    '(bearssl_rsa.h only says "0 on error"; OAEP and TLS decryption get their range check from it)',
    'factors or moduli beyond the documented maxima (2080 / 4096 bits) and factors shorter than 5 bytes: each function may either report an error '
    'or return the mathematically correct value (the header does not say where each internal limit lies); at the documented maximum success is required',
    'oaep_decrypt of ciphertext + n: only the returned value (0) is judged; that *len is overwritten although the call fails '
    '(header: "*len is unmodified") is counted as observed_oaep_ct_plus_n_len_modified and not flagged',
    'sampled keys and operands; the distribution of generated keys is not assessed',
]
EVAL = ['cmp_total']
DISTINCT = ['config']
REQUIRED = ['cmp_total', 'cmp_raw_pub', 'cmp_raw_priv', 'cmp_raw_inverse', 'cmp_p1_sign_identical',
            'cmp_p1_vrfy_openssl_sig', 'cmp_p1_vrfy_no_null_form', 'cmp_p1_strict_altered_byte',
            'cmp_pss_sign_openssl_verifies', 'cmp_pss_vrfy_openssl_sig', 'cmp_pss_strict_altered_byte',
            'cmp_oaep_encrypt_openssl_decrypts', 'cmp_oaep_decrypt_openssl_ct', 'cmp_oaep_strict_structure',
            'cmp_oaep_strict_altered_byte', 'cmp_tls_decrypt_openssl_ct', 'cmp_tls_strict_altered_byte',
            'cmp_keygen_primes', 'cmp_keygen_sign', 'cmp_compute_modulus', 'cmp_compute_pubexp',
            'cmp_compute_privexp', 'cmp_raw_priv_even', 'cmp_raw_pub_range', 'cmp_raw_priv_range',
            'cmp_oaep_strict_ct_plus_n', 'cmp_tls_strict_ct_plus_n', 'cmp_compute_privexp_not_invertible',
            'cmp_raw_pub_full_exponent', 'cmp_limits_priv', 'cmp_limits_modulus', 'cmp_limits_pubexp',
            'cmp_limits_privexp', 'raw_priv_view_topup']

NWORKERS = 16
CASES = {'quick': 40, 'thorough': 200}


def jobs(tier, seed):
    t = 0 if tier == 'quick' else 1
    cases = int(os.environ.get('C10_CASES', CASES['quick' if t == 0 else 'thorough']))
    return with_alt_flavours([Job('w%d' % i, 'h_rsa',
                ['--seed', seed, '--worker', i, '--nworkers', NWORKERS, '--cases', cases,
                 '--tier', t, '--fixtures', FIX],
                flavour='asan', libs=['-lcrypto'], timeout=900 if t == 0 else 5400)
            for i in range(NWORKERS)], tier, seed)


def finish(res, tier, seed):
    # every implementation x fixture key pair must have been exercised
    pairs = res.distinct.get('key_impl', set())
    if res.jobs_ok == res.jobs_run and len(pairs) < 16 * 5:
        res.inconclusive.append('only %d of 80 (key, implementation) pairs were exercised' % len(pairs))


def coverage_extra(res, tier):
    s = res.sums
    return dict(
        implementations=sorted({p.split('/')[1] for p in res.distinct.get('key_impl', set())}),
        fixture_keys=sorted({p.split('/')[0] for p in res.distinct.get('key_impl', set())}),
        generated_keys=s.get('keygen_keys', 0),
        unjudged_executions={k: v for k, v in sorted(s.items()) if k.startswith('unjudged_')},
        expected_accept_vs_reject=dict(
            p1=[s.get('p1_altered_expect_accept', 0), s.get('p1_altered_expect_reject', 0)],
            oaep_structure=[s.get('oaep_struct_expect_accept', 0), s.get('oaep_struct_expect_reject', 0)],
            tls=[s.get('tls_altered_expect_accept', 0), s.get('tls_altered_expect_reject', 0)]),
    )
