"""C02: application bytes received are always a prefix of the bytes the peer sent."""
from vrun import Job, with_alt_flavours

LEVEL = 'fault_enumeration'
RULE = ('per (suite, version) pair (all 75): clean handshake, receiver snapshotted, sender emits 3-5 short records; then against the '
        'restored receiver: EVERY single-bit flip of every record (header, IV/nonce, ciphertext, padding, tag), every record-level edit '
        '(drop, duplicate, swap adjacent, replay each earlier record, truncation at every byte, cross-connection splice), records forged '
        'by the independent record layer (every admissible CBC padding length 0..255 conformant -> must be accepted; each with every single '
        'wrong padding byte, wrong MAC bytes, padding longer than the record, wrong sequence number -> must be rejected; AEAD: random explicit '
        'nonce conformant, altered nonce, wrong/reused sequence number, every wrong tag byte, truncated tags, exact duplicate; sequence numbers differing from the right one in bit 16/32/48/63; conformant and one-wrong-byte (MAC, tag, padding) records of 0..16384 plaintext bytes), records injected out of thin air at every record boundary (before the first and after the last too): types '
        '20-24, 0, 255 x header-only and short bodies 0..64 bytes x record versions (negotiated, 3.0, 3.4) -> must fail as soon as received, 200 random '
        'double edits. A fault is non-trivial when it changes the stream; distinct = faults (each is a distinct stream) are counted per class; '
        'distinct_nontrivial reports distinct (suite,version,receiver role,layout) configurations x fault classes.')
ASSUMPTIONS = [
    'OpenSSL 3.0 EVP primitives are correct (used to forge records and to locate plaintext offsets)',
    'sessions are short (3-5 records); faults are single edits plus random double edits',
    'seeder replaced by a fixed seed (hook H1)',
]
EVAL = ['faults']
DISTINCT = ['config', 'inject_shape', 'impl_sets']
REQUIRED = ['faults', 'canary_runs', 'faults_bitflip', 'faults_edit', 'faults_truncate', 'faults_splice', 'faults_inject', 'forged_long_records',
            'forged_conformant', 'forged_bad', 'faults_far_replay', 'faults_rejected_with_error', 'conformant_accepted']
EXHAUSTIVE = 'every bit of every record of each short session; every record index for each edit operation'
NW = 16


def jobs(tier, seed):
    rounds = 2 if tier == 'quick' else 8     # even rounds: records right after the handshake; odd rounds: scenario 1..3
    # (a rotating quarter of the workers also runs on the other arithmetic configurations of the library: the record
    #  protection code they select - GHASH and Poly1305 multiplications, AES tables - must refuse the same forgeries)
    return with_alt_flavours([Job('f%d' % i, 'h_tls02', ['--seed', seed, '--worker', i, '--nworkers', NW, '--pairs', 75, '--rounds', rounds],
                                  libs=['-lcrypto'], timeout=900 if tier == 'quick' else 7200) for i in range(NW)], tier, seed)


def distinct_count(res):
    classes = sum(1 for k in ('faults_bitflip', 'faults_edit', 'faults_truncate', 'faults_splice', 'faults_inject', 'forged_long_records', 'forged_conformant',
                              'forged_bad', 'faults_double') if res.sums.get(k, 0) > 0)
    return len(res.distinct.get('config', ())) * classes
