"""C03: no handshake completes over altered messages or an unauthenticated peer."""
from vrun import Job

LEVEL = 'fault_enumeration'
RULE = ('105 scenarios = key exchange {RSA, ECDHE_RSA, ECDHE_ECDSA, ECDH_RSA, ECDH_ECDSA} x version {1.0,1.1,1.2} x mode {full, resumed, '
        'renegotiation} x client auth {none, RSA cert, EC cert}; per scenario a reference run records both flights (deterministic via H1), '
        'then one replay per fault with a MITM: XOR of each byte of each handshake/CCS record of both directions (every byte for the first N '
        'scenarios, every k-th for the rest), record-level drop / duplicate / swap / substitute-from-another-session at every record index. '
        'Oracle: the endpoint the altered bytes were destined for never becomes ready (renegotiation: never re-keys), no application byte is '
        'delivered on either side, altered protected records are rejected on receipt; record-header bytes: either nobody completes or the '
        'completed session delivers data exactly. Plus about 700 authentication cases: every scripted validator error, wrong key type / key / curve / '
        'usages, server or client private key not matching the certificate, weak RSA key, rogue server policy (un-offered suite, TLS-1.2 suite '
        'below 1.2), static-ECDH client authentication by a rogue certificate policy that holds a victim certificate (other curve / same curve) but not its key and derives Finished from premaster guesses made of public data, disjoint version ranges, TLS_FALLBACK_SCSV, the server-side validator judging the client chain (every verdict, wrong key, unneeded usage; strict and with BR_OPT_TOLERATE_NO_CLIENT_AUTH), a session learnt from a failed attempt offered for resumption, and validators (client side and server side) whose answer changes for the renegotiation: the second answer must be asked for and must count; with honest controls that must complete. distinct = scenarios x fault classes.')
ASSUMPTIONS = [
    'a victim left waiting for bytes after its peer failed (or after a removed last flight / enlarged length field) is counted as "never ready", since the engine API has no transport-closed notification',
    'seeder replaced by a fixed seed (hook H1); x86-64 ASan/UBSan build',
]
EVAL = ['cases']
DISTINCT = ['scenario', 'auth_scenario']
REQUIRED = ['cases', 'faults_message_byte', 'faults_protected_byte', 'faults_record_level', 'faults_header_byte',
            'victim_failed_with_error', 'auth_cases', 'auth_controls', 'reference_runs', 'rogue_static_ecdh_keyx_calls',
            'reneg_validator_consulted', 'reneg_refusals', 'poisoned_session_cases',
            'poisoned_session_rogue_knows_earlier_secret']
EXHAUSTIVE = 'every handshake/CCS record byte of both flights for the fully swept scenarios; every record index for each record-level edit in all scenarios'
NW = 16


def jobs(tier, seed):
    if tier == 'quick':
        args = ['--full-scenarios', 6, '--sample', 8, '--xors', 1]
        to = 1500
    else:
        args = ['--full-scenarios', 1000, '--sample', 1, '--xors', 3]
        to = 14000
    return [Job('m%d' % i, 'h_tls03', ['--seed', seed, '--worker', i, '--nworkers', NW] + args,
                libs=['-lcrypto'], timeout=to) for i in range(NW)]


def distinct_count(res):
    classes = sum(1 for k in ('faults_message_byte', 'faults_protected_byte', 'faults_record_level', 'faults_header_byte')
                  if res.sums.get(k, 0) > 0)
    return len(res.distinct.get('scenario', ())) * classes + len(res.distinct.get('auth_scenario', ()))
