from vrun import Job
LEVEL = 'exploration'
RULE = 'placeholder'
ASSUMPTIONS = []
EVAL = ['cmp_ref_enc']
DISTINCT = ['config']
REQUIRED = ['cmp_ref_enc']
def jobs(tier, seed):
    n = 16
    return [Job('w%d' % i, 'h_aead', ['--seed', seed, '--worker', i, '--nworkers', n, '--cases', 300],
                flavour='asan', libs=['-lcrypto'], extra_src=['h_aead_ref.c'], timeout=600) for i in range(n)]
