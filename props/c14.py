"""C14 - AEAD modes (GCM, CCM, EAX) authenticate, invert and stream consistently.

Harness: harness/h_aead.c (library driver, oracles) + harness/h_aead_ref.c
(reference side: OpenSSL EVP GCM/CCM, EAX written from the paper over EVP CMAC
and AES-CTR, direct RFC 3610 CCM as a cross-check of EVP CCM).
"""
from vrun import Job, with_alt_flavours

LEVEL = 'exploration'
RULE = ('rand: seeded sessions (mode x AES ctr/ctrcbc impl x GHASH impl x key size), 1-6 messages per '
        'reused context, nonce 1..64 (CCM 7..13, EAX also 0), tag 4..16 (CCM even), AAD/message 0..600 '
        '(1% up to 5000) covering all residues mod 16, each message: encrypt vs reference, decrypt + '
        'check_tag, re-encrypt under another random 1-5-way schedule (zero-length pieces included), one '
        'random single-bit forgery; EAX runs use reset / reset_pre_aad / reset_post_aad as documented. '
        'split: every two-way split of AAD and of message for every length 0..split_max on every '
        'implementation combination. flip: every single-bit change of nonce, AAD, ciphertext, tag of short '
        'messages (tag lengths 4..16). ccm: br_ccm_reset over nonce_len 0..20 x tag_len 0..20 x boundary '
        'aad/data lengths against the documented rule; declared != actual lengths. edge: crafted nonces '
        'putting the GCM 32-bit counter / EAX 128-bit counter just below wrap, AAD 65279..70000, message '
        '4113..65541. lenblock (model-level): per GCM implementation pair, count_aad and/or count_ctr advanced by 2^29*k bytes '
        '(k in 1, 8, 15) after flip, tag against a bit-by-bit GHASH with those lengths in the final block. A case is distinct by (mode, impl, key size) x (AAD mod 16, message mod 16).')
ASSUMPTIONS = [
    'OpenSSL 3.0 EVP AES-GCM (IV length 1..64), AES-CCM, AES-CTR, AES-ECB and EVP_MAC CMAC are correct',
    'the EAX reference (h_aead_ref.c) follows the EAX paper; it is validated at every start against four test vectors of the paper',
    'EVP AES-CCM and the direct RFC 3610 implementation must agree on every CCM case up to 2048 bytes, otherwise the run aborts (harness assert)',
    'tag-forgery cases where check_tag returns 1 are re-judged with the reference, so genuine collisions of short tags are not reported',
    'GCM lengths of 2^29 bytes and more are reached by adding to br_gcm_context.count_aad / count_ctr (fields declared in bearssl_aead.h) '
    'after br_gcm_flip(); the expected tag is SP 800-38D GHASH written bit by bit in h_aead_ref.c, tied to OpenSSL for the true lengths in every case',
    'violations on EAX schedules where one br_eax_aad_inject call completes a partial block and carries more bytes get the key suffix :aad-straddle (input class)',
]
EVAL = ['cmp_ref_enc', 'cmp_roundtrip', 'cmp_split_rand', 'cmp_flip_rand', 'cmp_split2_aad',
        'cmp_split2_msg_enc', 'cmp_split2_msg_dec', 'cmp_flip', 'cmp_flip_baseline',
        'cmp_trunc_ignores_rest', 'cmp_ccm_reset', 'cmp_ccm_declared', 'cmp_ccm_after_refusal',
        'cmp_edge_wrap', 'cmp_edge_long', 'cmp_gcm_length_block']
DISTINCT = ['impl_residue']
REQUIRED = ['cmp_ref_enc', 'run_calls_with_other_nonzero_encrypt_flag', 'cmp_roundtrip', 'cmp_split_rand', 'cmp_flip_rand', 'cmp_split2_aad',
            'cmp_split2_msg_enc', 'cmp_split2_msg_dec', 'cmp_flip', 'flips_nonce', 'flips_aad',
            'flips_ct', 'flips_tag', 'cmp_trunc_ignores_rest', 'cmp_ccm_reset',
            'ccm_reset_expected_accept', 'ccm_reset_expected_refuse', 'cmp_ccm_declared',
            'cmp_ccm_after_refusal', 'cmp_reuse', 'cmp_eax_pre', 'cmp_eax_post', 'cmp_eax_capture_const',
            'cmp_edge_wrap', 'cmp_edge_long', 'edge_gcm_wrap_hit', 'edge_eax_wrap_hit', 'ref_eax_kat_ok',
            'cmp_gcm_length_block']

N = 16
PARAMS = {
    #           rand msgs/worker, split max, key sizes per (combo,L), flip msgs/combo, ccm declared/impl, edge reps
    'quick':    dict(cases=20000, split_max=80, split_keys=2, flip_msgs=39, ccm_decl=300, edge=1),
    'thorough': dict(cases=400000, split_max=200, split_keys=3, flip_msgs=520, ccm_decl=5000, edge=16),
}


def jobs(tier, seed):
    p = PARAMS['thorough' if tier == 'thorough' else 'quick']
    return with_alt_flavours([Job('w%d' % i, 'h_aead',
                ['--seed', seed, '--worker', i, '--nworkers', N, '--cases', p['cases'],
                 '--split-max', p['split_max'], '--split-keys', p['split_keys'],
                 '--flip-msgs', p['flip_msgs'], '--ccm-decl', p['ccm_decl'], '--edge', p['edge']],
                flavour='asan', libs=['-lcrypto'], extra_src=['h_aead_ref.c'],
                timeout=600 if tier != 'thorough' else 3000)
            for i in range(N)], tier, seed)


def finish(res, tier, seed):
    # every implementation combination must have been reached, with all 256 residue pairs per mode
    combos = res.maxes.get('combos', 0)
    cfg = res.distinct.get('config', ())
    if combos and len(cfg) < combos * 3:
        res.inconclusive.append('only %d of %d (impl, key size) configurations exercised' % (len(cfg), combos * 3))
    for mode in ('gcm', 'ccm', 'eax'):
        n = len([t for t in res.distinct.get('residue', ()) if t.startswith(mode + '/')])
        if n < 256:
            res.inconclusive.append('%s: only %d of 256 (AAD mod 16, message mod 16) residue pairs seen' % (mode, n))
    if res.sums.get('edge_gcm_wrap_missed', 0) or res.sums.get('edge_eax_wrap_missed', 0):
        res.inconclusive.append('crafted wrap nonces missed their target counter value')


def coverage_extra(res, tier):
    d = res.distinct
    return dict(
        implementations=sorted(d.get('config', ())),
        nonce_lengths={m: sorted(int(t.split('/')[1]) for t in d.get('nonce_len', ()) if t.startswith(m + '/'))
                       for m in ('gcm', 'ccm', 'eax')},
        tag_lengths={m: sorted(int(t.split('/')[1]) for t in d.get('tag_len', ()) if t.startswith(m + '/'))
                     for m in ('gcm', 'ccm', 'eax')},
        two_way_splits=len(d.get('split2', ())),
        ccm_reset_classes=len(d.get('ccm_reset', ())),
        params=PARAMS['thorough' if tier == 'thorough' else 'quick'],
    )
