"""C18 - key and PEM encodings round-trip and match standard formats.

Two harnesses:
  h_keyenc      key encoders, br_skey_decoder, br_pkey_decoder vs OpenSSL / br_x509_decoder
  h_keyenc_pem  br_pem_encode / br_pem_decoder vs PEM_write_bio and a documented-behaviour model
"""
import os
from vrun import Job

LEVEL = 'exploration'
RULE = ('keys: the 7 fixture keys (fixtures/keys, made by fixtures/gen_keys.sh) plus synthetic RSA structures '
        '(per component: value length from boundary set {0..20,126..130,254..257} or RSA-like 64..512 bytes, '
        'top bit set/clear, 0-3 leading zero bytes, occasional zero value) and EC scalars on P-256/384/521 '
        '(full, leading zeros, short, 1, n-1, small), each run through all encoders, both decoders and a '
        'certificate built with OpenSSL; per key also hand-built legal encodings no encoder at hand writes: EC PKCS#8 whose '
        'inner ECPrivateKey carries the [0] parameters (with / without public key; same key expected), every pair of '
        'differing outer / inner curves (no key may come out), ECPrivateKey without parameters, PKCS#8 with the curve only '
        'inside, RSA PKCS#8 without NULL parameters (executed; judged only "if decoded, the key is the encoded one"); '
        'distinct = distinct component-shape strings. '
        'PEM: every payload length 0..2000 x 4 flag sets, each decoded as written and under transformed '
        'variants (mixed CRLF, stray CR, whitespace, re-wrapping); banner lengths 0..140 x dashes {0,5,7}; '
        'one malformed object per case (9 defect kinds) and multi-object streams with junk text; '
        'distinct = (flags, len mod 3/48/57), (style, chunking), defect kind x residue x style.')
ASSUMPTIONS = [
    'OpenSSL 3.0 libcrypto (legacy i2d_RSAPrivateKey, i2d_ECPrivateKey, i2d_PKCS8_PRIV_KEY_INFO, i2d_PUBKEY, '
    'i2d_RSAPublicKey, PEM_write_bio, X509 API) is a correct reference for the standard encodings',
    'the documentation in inc/bearssl_x509.h and inc/bearssl_pem.h is the specification of what decoders accept: '
    'br_pkey_decoder is documented (line 1379) to recognise keys "in their raw, DER-encoded format" as well as the '
    'wrapped form; names up to 127 characters are accepted; CR characters are ignored; whitespace <= 32 is ignored '
    'inside Base64 data; a quartet may not be split over two lines',
    'behaviour the headers are silent about is executed under the sanitizers but not judged: names longer than 127, '
    '"-----BEGIN " followed by an empty line, non-zero padding bits in the last quartet, whitespace-only lines '
    'after a padded quartet, whitespace before the END banner, pushing more data after a decoder reported an error',
]
EVAL = ['cases', 'cases_rsa', 'cases_ec']
DISTINCT = ['rsa_shape', 'ec_shape', 'pem_cfg', 'pem_dec_cfg', 'pem_bad_kind', 'pem_multi_cfg', 'banner_cfg']
REQUIRED = ['fixture_keys', 'cmp_lenquery', 'cmp_enc_bytes', 'cmp_skey_rsa', 'cmp_skey_ec', 'cmp_keypem',
            'cmp_pkey_rsa_spki', 'cmp_pkey_rsa_raw', 'cmp_pkey_ec_spki', 'cmp_ec_ossl_decodes_ours',
            'cmp_pem_enc', 'cmp_pem_enc_inplace', 'cmp_pem_dec', 'cmp_pem_banner', 'cmp_pem_bad',
            'cmp_pem_trunc', 'cmp_pem_notbanner', 'cmp_pem_multi', 'cmp_pem_long_lived_context', 'multi_with_bad_object',
            'cmp_skey_ec_pkcs8_inner_params', 'cmp_skey_ec_curve_conflict', 'alt_ec_raw_no_params', 'alt_rsa_pkcs8_no_null']

HERE = os.path.dirname(os.path.dirname(os.path.abspath(__file__)))
FIX = os.path.join(HERE, 'fixtures', 'keys')


def jobs(tier, seed):
    n = 16
    quick = tier == 'quick'
    nrsa, nec = (200, 96) if quick else (5000, 2400)
    variants, nbad, nmulti = (2, 5400, 1600) if quick else (16, 180000, 60000)
    to = 300 if quick else 1800
    js = []
    for i in range(n):
        js.append(Job('key%d' % i, 'h_keyenc',
                      ['--seed', seed, '--worker', i, '--nworkers', n, '--rsa', nrsa, '--ec', nec,
                       '--fixtures', FIX],
                      flavour='asan', libs=['-lcrypto'], timeout=to))
        js.append(Job('pem%d' % i, 'h_keyenc_pem',
                      ['--seed', seed, '--worker', i, '--nworkers', n, '--maxlen', 2000,
                       '--variants', variants, '--bad', nbad, '--multi', nmulti],
                      flavour='asan', libs=['-lcrypto'], timeout=to))
    return js


def coverage_extra(res, tier):
    s = res.sums
    return dict(
        comparisons=dict(
            encoder_length_queries=s.get('cmp_lenquery', 0),
            encoder_bytes_vs_openssl=s.get('cmp_enc_bytes', 0),
            ec_short_scalar_decoded_by_openssl=s.get('cmp_ec_ossl_decodes_ours', 0),
            skey_decoder_rsa=s.get('cmp_skey_rsa', 0), skey_decoder_ec=s.get('cmp_skey_ec', 0),
            skey_ec_pkcs8_inner_parameters=s.get('cmp_skey_ec_pkcs8_inner_params', 0),
            skey_ec_curve_conflict=s.get('cmp_skey_ec_curve_conflict', 0),
            key_pem_armour=s.get('cmp_keypem', 0),
            pkey_rsa_spki=s.get('cmp_pkey_rsa_spki', 0), pkey_rsa_raw=s.get('cmp_pkey_rsa_raw', 0),
            pkey_ec_spki=s.get('cmp_pkey_ec_spki', 0),
            pem_encode=s.get('cmp_pem_enc', 0), pem_encode_inplace=s.get('cmp_pem_enc_inplace', 0),
            pem_decode_roundtrip=s.get('cmp_pem_dec', 0), pem_banner=s.get('cmp_pem_banner', 0),
            pem_malformed=s.get('cmp_pem_bad', 0), pem_truncated=s.get('cmp_pem_trunc', 0),
            pem_not_a_banner=s.get('cmp_pem_notbanner', 0), pem_multi_object=s.get('cmp_pem_multi', 0)),
        unjudged={k: v for k, v in s.items() if k.startswith('unjudged_') or k.startswith('alt_') or k == 'cmp_pem_bad_unjudged_verdict'},
        observations={k: sorted(v) for k, v in res.distinct.items() if k.startswith('obs_') or k == 'x509_reject'})
