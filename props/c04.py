"""C04 - X.509 validation (br_x509_minimal) accepts a chain exactly when the documented rules are met.

Engine E4: harness/x509case.py (workload: valid base scenarios + mutation classes, abstract form),
harness/x509ref.py (reference validator on the abstract form only), harness/x509gen.py (DER encoder and
pure-Python RSA / ECDSA signing with the fixture keys of fixtures/x509), harness/h_x509.c (runner).
Each job is `python3 x509case.py ... --run <h_x509> --cases <file>`: the wrapper writes the case file under
build/c04-cases/ and exec()s the runner, so a replay regenerates its own input.
"""
import os
from vrun import Job
import vbuild

LEVEL = 'exploration'
RULE = ('valid base scenarios (chains of 1..4 certificates under a root CA anchor; keys RSA-1016/1017/1024/2048/4096, '
        'P-256/384/521; signature hashes SHA-1..SHA-512; random DN string types, validity encodings, extensions, decoy '
        'anchors; DN hash function, RSA/EC implementation, set_time vs time callback varied) x one of ~95 mutation '
        'classes (12% of the cases two classes = multi-defect): validation instant at / 1 s outside either bound, '
        'UTCTime pivot 1950/2049, GeneralizedTime 2050, leap years; BasicConstraints missing / cA false / v1 CA; pathLen '
        'too small / exact at each depth; CA KeyUsage without keyCertSign; unknown / unsupported / ignored critical '
        'extensions, critical policies with CPS / other qualifier; wrong or re-encoded issuer / subject / anchor DN; '
        'corrupted signature, signature by another key, signature over a digest differing in one byte, MD5, disabled '
        'hash / RSA / ECDSA, signature algorithm of the other key type, unsupported / mislabeled curve; RSA key below / '
        'at the configured or default minimum, small anchor key; trailing garbage; anchor of the wrong kind, missing, '
        'wrong key, several anchors with one name, anchor in mid-chain with defects behind it, root included, direct '
        'trust (and wrong key / name / flag / server name / MD5), self-signed leaf; server-name classes (exact, case, '
        'wildcard leftmost / two labels / parent / dot-less / middle / partial / literal, embedded NUL, UTF-8, punycode, '
        'prefix / suffix, trailing dot, CN vs SAN combinations, string types, no server name); leaf KeyUsage bit sets; '
        'v1/v2 leaf, version 4, empty chain, swapped / missing / duplicated certificates; extension and attribute OIDs that extend, '
        'truncate or alias a recognised OID; string-decoding strictness in CN / O / OU / dNSName (overlong, truncated, '
        'surrogate, > U+10FFFF UTF-8; unpaired UTF-16 surrogates in BMPString; valid 2/3/4-byte characters and BMPString '
        'above U+0080 / U+0800: exact UTF-8 bytes expected); names of 254 / 255 / 256 / 300 bytes in CN / dNSName / O with '
        'name-element buffers of 255 / 256 / 257 bytes and server names cut at 255; direct-trust and CA anchors whose key '
        'differs from the right one in e only, in the last byte of Q, or in the Y half of Q. Half of the accepted cases are re-run in API-level variants: RSA anchor keys '
        'written with leading zero bytes (same result), time callback reporting the time unavailable (TIME_UNKNOWN), last '
        'byte of a certificate missing, an empty certificate first (rejected). Every case runs with static '
        'anchors under whole-certificate, seeded random and (1 in 4) bytewise chunking, and - when the anchor names are '
        'pairwise distinct - with all anchors behind the dynamic callback, with a static/dynamic mix and (1 in 4) with a '
        'NULL free callback; every second case once more through br_x509_minimal_init_full (judged when the case '
        'configuration is what that function sets); context reuse (1 in 4) with static and with dynamic anchors, '
        'name-element buffers overwritten in between; get_pkey with usages == NULL in every validation; the known-key '
        'engine (br_x509_knownkey_init_rsa / _ec) fed with the chain of every second case. Sweep: for '
        'accepted CA-anchored chains every byte of every TBS and signature value before the anchor XORed with 0x01, 0x80 '
        'and a random third value. A case is distinct by its mutation class x configuration tuple.')
ASSUMPTIONS = [
    'the reference validator (harness/x509ref.py) encodes the rules of inc/bearssl_x509.h and of the implementation notes in x509_minimal.t0; it works on the abstract description only',
    'error codes are compared only for single-defect cases; multi-defect cases only require rejection',
    'cases on which the documentation is silent are executed but not judged (counter unjudged_doc_silent): direct trust with an expired / garbage-trailed / critical-extension leaf, SAN without dNSName plus matching CN, several CN with different outcomes, empty KeyUsage',
    'SAN-derived name elements are judged only when a server name is given (the header says the SAN is parsed only then); name elements are judged only on accepted chains',
    'strings whose treatment the header leaves open are executed and only bounded (name element: status -1, or 1 with the exact UTF-8 bytes; a server-name match through them is not judged, a mismatch is): more than 255 bytes of UTF-8, BMPString with a surrogate pair',
    'a trust anchor whose pkey.key_type carries BR_KEYTYPE_KEYX / _SIGN bits is outside the header ("for a public key, the basic key type only is set"): executed and compared, not judged (unjudged_anchor_keytype_flags*)',
    'generated certificates are well-formed DER; DER-level malformation belongs to C05',
    'validation time is always set explicitly (the system-clock fallback is not exercised)',
]
EVAL = ['cmp_verdict', 'cmp_sweep_tbs', 'cmp_sweep_sig', 'cmp_dynamic', 'cmp_chunking']
DISTINCT = ['config']
REQUIRED = ['cases', 'cmp_verdict', 'expected_accept', 'expected_reject', 'cmp_code', 'cmp_key', 'cmp_usages',
            'cmp_names', 'cmp_dates', 'cmp_chunking', 'chunking_bytewise', 'cmp_dynamic', 'cmp_dynfree',
            'dyn_returned', 'dyn_freed', 'dyn_accept_via_callback', 'cmp_sweep_tbs', 'cmp_sweep_sig', 'sweep_chains',
            'unjudged_doc_silent', 'cmp_init_full', 'cmp_knownkey', 'knownkey_rsa', 'knownkey_ec', 'cmp_dynamic_null_free',
            'dyn_null_free_returned', 'cmp_getpkey_null_usages', 'context_reuse_dynamic_anchors',
            'context_reuse_dyn_returned', 'context_reuse_poisoned_buffers', 'time_set_after_other_callback',
            'time_set_after_other_time']

NW = 16
PARAMS = {
    'quick': dict(cases=200, sweep_chains=6, sweep_parts=8),
    'thorough': dict(cases=3800, sweep_chains=60, sweep_parts=2),
}
CASEDIR = os.path.join(vbuild.BUILD, 'c04-cases')
WRAP = os.path.join(vbuild.HARNESS, 'x509case.py')


def jobs(tier, seed):
    p = PARAMS['thorough' if tier == 'thorough' else 'quick']
    os.makedirs(CASEDIR, exist_ok=True)
    out = []
    to = 900 if tier != 'thorough' else 3000
    # sweep jobs first: they are the longest
    for j in range(p['sweep_chains']):
        for part in range(p['sweep_parts']):
            f = os.path.join(CASEDIR, 's%d-%s-sweep%d-p%d.cases' % (seed, tier, j, part))
            out.append(Job('sweep%d.%d' % (j, part), 'h_x509',
                           ['--cases', f, '--seed', seed, '--sweep-part', part, '--sweep-parts', p['sweep_parts']],
                           wrapper=[str(x) for x in ('python3', WRAP, '--seed', seed, '--sweep-chain', j, '--out', f, '--run')],
                           timeout=to))
    for i in range(NW):
        f = os.path.join(CASEDIR, 's%d-%s-w%d.cases' % (seed, tier, i))
        out.append(Job('w%d' % i, 'h_x509', ['--cases', f, '--seed', seed],
                       wrapper=[str(x) for x in ('python3', WRAP, '--seed', seed, '--worker', i, '--nworkers', NW,
                                                         '--cases', p['cases'], '--out', f, '--run')],
                       timeout=to))
    return out


def distinct_count(res):
    return len(res.distinct.get('config', ())) + len(res.distinct.get('class', ()))


def finish(res, tier, seed):
    ncls = len(res.distinct.get('class', ()))
    if ncls < 80:
        res.inconclusive.append('only %d mutation classes exercised' % ncls)
    # several parts of one sweep chain each report the chain once at part 0
    if res.sums.get('sweep_chains', 0) < PARAMS['thorough' if tier == 'thorough' else 'quick']['sweep_chains']:
        res.inconclusive.append('byte sweep ran on %d chains only' % res.sums.get('sweep_chains', 0))


def coverage_extra(res, tier):
    d = res.distinct
    return dict(
        mutation_classes=sorted(d.get('class', ())),
        documented_codes_compared=sorted(int(x) for x in d.get('code', ())),
        end_chain_values_seen=sorted(int(x) for x in d.get('errcode', ())),
        sweep_end_chain_values=sorted(int(x) for x in d.get('sweep_err', ())),
        leaf_usage_masks=sorted(int(x) for x in d.get('usages', ())),
        params=PARAMS['thorough' if tier == 'thorough' else 'quick'],
    )
