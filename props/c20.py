"""C20: no handshake without seeded randomness; nonces and IVs never repeat."""
from vrun import Job

LEVEL = 'exploration'
RULE = ('seeding: client and server x {system seeder fails, no seeder known (hook H1), library built with every system seeder disabled} x '
        '{entropy injected, not injected}: reset must return 0 with BR_ERR_NO_RANDOM, state CLOSED and no byte offered, or proceed (and a '
        'handshake with injected entropy only completes); the same context reset up to four times (a refused reset must not wear the check out); engines without SHA-256 / without SHA-256 and SHA-384 (the generator then runs on the next hash) obey the same rule, an engine with none of SHA-256/384/1 never starts. '
        'sysrng: builds without RDRAND whose system seeder is getentropy()+/dev/urandom or /dev/urandom alone, with link-time failpoints '
        '(--wrap) on getentropy/open/read/close: every script of N read() outcomes from {EINTR, EIO, deliver 1/5/13/31/32 bytes} x open '
        '{ok, ENOENT, EMFILE} x getentropy {ok, fails} x role x injected: outcome must equal the model (seeded iff injected or 32 bytes '
        'delivered), the first flight must equal that of a context seeded through hook H1 with the same 32 bytes (chopped reads assemble the '
        'same seed), the direct seeder on an HMAC_DRBG must equal update(delivered bytes), every opened descriptor closed exactly once, no '
        'read after the end. records: long sessions (one suite per protection mode x each version) with '
        'renegotiations by alternating sides; every protected record is authenticated by the independent record layer under sequence number '
        'previous+1 starting at 0 after each key change, explicit CBC IVs / AEAD explicit nonces collected per (direction, key) and checked '
        'pairwise distinct; several times per key the counters of both engines and of the decoder are moved to just below 2^16, 2^32, 2^48, 2^63 and near 2^64 so that the arithmetic around those values runs. uniq: N connections with distinct seeds: client randoms, server randoms, session IDs, server and client ECDHE points, RSA-encrypted '
        'premasters pairwise distinct. repro: pairs of connections with equal seeds and equal schedules must be byte-identical on the wire. '
        'distinct = (protection mode, version) pairs + seeding builds + reproducibility configurations + connections.')
ASSUMPTIONS = [
    'uniqueness is observed, the quality of the randomness is not assessed',
    'OpenSSL EVP trusted for the independent record layer',
]
EVAL = ['cases', 'seed_sequence_resets', 'seed_hash_cases']
DISTINCT = ['sequence_base', 'mode_version', 'seeding_build', 'repro_cfg', 'seed_sequence_step', 'seed_hash_outcome', 'fault_plan', 'seeding_outcome', 'system_seeder_name']
REQUIRED = ['refused_without_randomness', 'seed_after_refusal_compared', 'seed_sequence_resets', 'started_with_randomness', 'inject_only_handshakes', 'records_sequence_checked',
            'explicit_ivs_seen', 'iv_sets_checked_unique', 'renegotiations', 'key_changes_seen', 'connections',
            'fields_checked_pairwise_distinct', 'reproduced_pairs', 'sequence_jumps', 'first_flights_compared', 'direct_outputs_compared',
            'conservation_checks']
NW = 12


def jobs(tier, seed):
    q = tier == 'quick'
    js = [Job('seeding-asan', 'h_tls20', ['--seed', seed, '--mode', 'seeding', '--flavour', 'asan'], libs=['-lcrypto'], timeout=300),
          Job('seeding-noseed', 'h_tls20', ['--seed', seed, '--mode', 'seeding', '--flavour', 'noseed'], flavour='noseed',
              libs=['-lcrypto'], timeout=300),
          Job('uniq', 'h_tls20', ['--seed', seed, '--mode', 'uniq', '--conns', 200 if q else 1000], libs=['-lcrypto'], timeout=3000)]
    for i in range(NW):
        js.append(Job('rec%d' % i, 'h_tls20', ['--seed', seed, '--mode', 'records', '--worker', i, '--nworkers', NW,
                                                '--records', 2000 if q else 10000, '--reneg', 1 if q else 3],
                      libs=['-lcrypto'], timeout=3000))
    for i in range(4):
        js.append(Job('repro%d' % i, 'h_tls20', ['--seed', seed, '--mode', 'repro', '--worker', i, '--nworkers', 4,
                                                  '--conns', 24 if q else 300], libs=['-lcrypto'], timeout=3000))
    # system seeders (getentropy, /dev/urandom) under injected faults: link-time failpoints on
    # getentropy/open/read/close, every script of N read outcomes
    wrap = ['-Wl,--wrap=getentropy,--wrap=open,--wrap=read,--wrap=close']
    nw = 2 if q else 8
    for fl in ('sys-ge', 'sys-ur'):
        for i in range(nw):
            js.append(Job('sysrng-%s-%d' % (fl, i), 'h_sysrng', ['--seed', seed, '--flavour', fl, '--depth', 3 if q else 4,
                                                               '--worker', i, '--nworkers', nw],
                          flavour=fl, libs=['-lcrypto'], extra_cflags=wrap, timeout=3000))
    return js


def distinct_count(res):
    return sum(len(res.distinct.get(k, ())) for k in DISTINCT) + res.sums.get('connections', 0)
