"""C12 - all implementations of each symmetric primitive compute the standard function.

Two harnesses (flavour asan, -lcrypto):
  h_symblk  AES big/small/ct/ct64/x86ni(/pwr8) through cbcenc, cbcdec, ctr, ctrcbc vtables; DES tab/ct cbcenc, cbcdec
  h_symstr  ChaCha20 ct/sse2, ChaCha20+Poly1305 of ctmul/ctmul32/i15/ctmulq x each ChaCha20, GHASH ctmul/ctmul32/ctmul64/pclmul
Every case runs all implementations on the same input, compares each with the
reference and all pairs with each other.
"""
from vrun import Job, with_alt_flavours

LEVEL = 'exploration'
RULE = ('per primitive and key size: every admissible length (CBC/ctrcbc: every multiple of the block size 0..4096; '
        'CTR/ChaCha20/Poly1305 data and AAD/GHASH: every length 0..1100, sampled to 4096), counter starts 0, 1, 2^32-k '
        '(k<=70) and 128-bit counters 2^(32j)-k, exhaustive two-way splits on block boundaries up to 1 KiB, random 2-4 way '
        'splits with zero-length chunks and unaligned buffers, GHASH single-bit basis 128x128, Poly1305 accumulators '
        'crafted to land on 0..12 and p-12..p-1; keys/IVs/data random per (seed, section, rep, index); a case is distinct '
        'by (primitive, mode, key size, length or length class, number of chunks)')
ASSUMPTIONS = [
    'OpenSSL 3.0 libcrypto EVP (AES-ECB/CBC, DES-EDE3-CBC, ChaCha20, ChaCha20-Poly1305, AES-GCM) is a correct reference; '
    'it is cross-checked at start-up against FIPS-197 / RFC 7539 / GCM-spec vectors',
    'the spec-level GHASH (bitwise GF(2^128)) and BIGNUM Poly1305 references are validated against EVP AES-GCM and EVP '
    'ChaCha20-Poly1305 on 40 random inputs each at start-up of every worker',
    'the 32-bit CTR / ChaCha20 block counter wraps modulo 2^32 without touching IV/nonce (NIST SP800-38A B.1 as quoted in bearssl_block.h)',
    'AES-CTR run after a partial last block is expected to return cc + ceil(len/16) (behaviour of aes_big/small/ct, made '
    'uniform by fix 6db69a2; relied on by AESCTR_DRBG) - judged under the separate aspect counter-partial; the value '
    'returned by ChaCha20 run after a partial last block is not documented and not judged (recorded only)',
    'DES(K) = 3DES(K,K,K) and two-key 3DES = 3DES(K1,K2,K1) (reference uses DES-EDE3-CBC; DES-CBC / DES-EDE-CBC used as a '
    'second opinion when the provider has them)',
    'the poly1305-edge cases pass a stand-in stream cipher as ichacha so that r,s can be chosen; the poly1305-crafted '
    'cases reach the same accumulator values with the genuine ChaCha20',
]
EVAL = ['cmp_ref', 'cmp_pair']
DISTINCT = ['config', 'ctr_start', 'ctr128_start', 'chacha_start', 'poly_edge']
REQUIRED = ['cases', 'calls', 'cmp_ref', 'cmp_pair', 'cmp_chain', 'splits',
            'cases_aes_cbc', 'cases_aes_ctr', 'cases_aes_ctrcbc', 'cases_des_cbc',
            'cases_chacha20', 'cases_poly1305', 'cases_poly1305_edge', 'cases_poly1305_crafted', 'cases_ghash',
            'cases_ctr32_wrap', 'cases_ctr128_carry', 'cases_chacha_wrap']

N = 16

# (reps, random cases per family and rep) - bounded by case counts only
SCALE = {
    'quick':    dict(blk=(2, 1000), str=(4, 1000)),
    'thorough': dict(blk=(40, 8000), str=(80, 8000)),
}


def jobs(tier, seed):
    sc = SCALE['thorough' if tier == 'thorough' else 'quick']
    out = []
    to = 600 if tier == 'quick' else 3000
    for h, key in (('h_symblk', 'blk'), ('h_symstr', 'str')):
        reps, cases = sc[key]
        for i in range(N):
            out.append(Job('%s-w%d' % (key, i), h,
                           ['--seed', seed, '--worker', i, '--nworkers', N, '--reps', reps, '--cases', cases,
                            '--split-max', 1024, '--max-len', 4096, '--every-len', 1100],
                           flavour='asan', libs=['-lcrypto'], timeout=to))
    return with_alt_flavours(out, tier, seed)


def coverage_extra(res, tier):
    pres = sorted(res.distinct.get('present', ()))
    return dict(implementations_present=pres,
                reference=sorted(res.distinct.get('reference', ())),
                partial_block_return_minus_floor=sorted(set(res.distinct.get('ctr_partial_return', ())) |
                                                         set(res.distinct.get('chacha_partial_return', ()))),
                library_calls=res.sums.get('calls', 0))
