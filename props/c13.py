"""C13: hashes, HMAC, PRFs, KDFs and DRBGs match their standards for any call pattern.

One harness (h_hash) with thirteen parts; every part splits its work items over
its workers deterministically (item index modulo nworkers), random cases are
seeded by (VERIF_SEED, part, case index) so the same seed gives the same cases
whatever the number of workers."""
from vrun import Job, with_alt_flavours

LEVEL = 'exploration'
RULE = ('hash: every partition of the first n bytes of a seed-derived message into <=3 updates (n<=nexh, '
        'out() after each update) for the 7 hash vtables, plus every length 0..1100 with a fresh random '
        'message under k random 1-6-part partitions with zero-length updates; state: save/restore at every '
        'block boundary; inject: random chaining value + count classes (2^29, 2^32, 2^61, 2^64 minus k blocks, '
        'random) against the legacy OpenSSL contexts; multi: all 64 subsets, and the same count classes with count and '
        'chaining values written into the context fields; mgf1 also 256*hlen+{-1,0,1}, 257*hlen+1 output bytes; hmacct also '
        '200 record-size triples (max 16384..17500, max-min in {0,1,255,256,300}); shake: every input length up to '
        '2 rates+3 and random, levels 128/256 vs EVP and all 24 levels vs a spec-level Keccak; hmac: 9 key-length '
        'classes x 7 hashes; hmacct: every triple min<=len<=max<=nexh for MD5/SHA-1/SHA-256 and sampled triples '
        'for all six; prf/hkdf/mgf1/hdrbg/adrbg: random cases with output lengths 0..1000. A case is distinct '
        'when its (part, function, class) tuple differs; all compared cases are non-trivial (outputs are '
        'compared byte by byte with an independent implementation).')
ASSUMPTIONS = [
    'OpenSSL 3.0 libcrypto is a correct reference for MD5, SHA-1, SHA-2, MD5-SHA1, SHAKE128/256, HMAC, '
    'TLS1-PRF, HKDF, MGF1 and single-block AES',
    'the legacy MD5_CTX/SHA_CTX/SHA256_CTX/SHA512_CTX structs accept an injected chaining value and bit count '
    '(num=0) and continue per FIPS 180-4 / RFC 1321',
    'the serialisation of a chaining value is the digest byte order of the function (little-endian words for MD5, '
    'big-endian for SHA-*), MD5 first for MD5+SHA-1',
    'AESCTR_DRBG: bearssl_rand.h defers the Hirose start constants to the comments in aesctr_drbg.c; the reference '
    'is calibrated on one empty-seed output to H_init in {A5,5A}, everything else follows the header text; '
    'seed blocks shorter than 16 bytes are zero-padded; each generate() call starts on a fresh counter block',
    'set_state() is only judged for counts that are multiples of the block size (documented restriction) and, for '
    'MD5/SHA-1/SHA-224/SHA-256/MD5+SHA-1, total lengths below 2^61 bytes; SHA-384/512 below 2^64 bytes',
    'HMAC over MD5+SHA-1 is compared with OpenSSL HMAC(EVP_md5_sha1) (generic HMAC definition, 64-byte block)',
    'multi-hash bit-length carries are reached by writing br_multihash_context.count / val_32 / val_64 (model-level: the header '
    'declares the fields but says they are not supposed to be accessed directly); the layout (state() serialisation at val_32 + '
    '0/16/36/68 bytes, val_64 + 0/64 bytes) is calibrated at run time against br_multihash_init(), a mismatch makes the run inconclusive',
]
EVAL = ['cmp_total']
DISTINCT = ['config']
REQUIRED = ['cmp_digest', 'cmp_midout', 'cmp_set_state', 'cmp_state_count', 'cmp_inject', 'cmp_multihash',
            'cmp_shake', 'cmp_hmac', 'cmp_hmac_outct', 'cmp_prf', 'cmp_hkdf', 'cmp_mgf1', 'cmp_hmac_drbg',
            'cmp_aesctr_drbg', 'cmp_aesctr_drbg_cross', 'cmp_oid', 'cmp_determinism', 'cmp_unmodified',
            'adrbg_forced_update_cases', 'adrbg_partial_block_at_limit', 'ref_keccak_vs_evp', 'prf_evp_checked', 'hkdf_evp_checked',
            'cmp_multihash_inject', 'mgf1_over_256_blocks', 'outct_record_size_triples']

# part -> (workers, args) per tier
QUICK = [
    ('hmacct', 32, dict(nexh=212, cases=24000, k=1)),
    ('hash',   16, dict(nexh=160, k=3)),
    ('multi',   8, dict(nexh=300, cases=2560, k=0)),
    ('state',   2, dict(k=3)),
    ('inject',  2, dict(cases=21000)),
    ('shake',   4, dict(cases=6000, k=0)),
    ('hmac',    2, dict(cases=18900)),
    ('prf',     4, dict(cases=9000)),
    ('hkdf',    4, dict(cases=9000)),
    ('mgf1',    1, dict(cases=6300)),
    ('hdrbg',   2, dict(cases=6300)),
    ('adrbg',   4, dict(cases=4000, k=24)),
    ('misc',    1, dict()),
]
THOROUGH = [
    ('hmacct', 80, dict(nexh=212, cases=600000, k=10)),
    ('hash',   48, dict(nexh=400, k=40)),
    ('multi',  16, dict(nexh=200, cases=64000, k=1)),
    ('state',   4, dict(k=1)),
    ('inject',  4, dict(cases=700000)),
    ('shake',   8, dict(cases=100000, k=1)),
    ('hmac',    8, dict(cases=630000)),
    ('prf',     8, dict(cases=150000)),
    ('hkdf',    8, dict(cases=150000)),
    ('mgf1',    4, dict(cases=105000)),
    ('hdrbg',   8, dict(cases=105000)),
    ('adrbg',  16, dict(cases=60000, k=64)),
    ('misc',    1, dict()),
]


def jobs(tier, seed):
    plan = QUICK if tier == 'quick' else THOROUGH
    out = []
    for part, n, a in plan:
        for i in range(n):
            args = ['--part', part, '--seed', seed, '--worker', i, '--nworkers', n]
            for k, v in a.items():
                args += ['--' + k, v]
            out.append(Job('%s-w%d' % (part, i), 'h_hash', args, flavour='asan', libs=['-lcrypto'],
                           timeout=300 if tier == 'quick' else 2400))
    return with_alt_flavours(out, tier, seed)


def coverage_extra(res, tier):
    s = res.sums
    return dict(comparisons_by_monitor={k[4:]: v for k, v in sorted(s.items()) if k.startswith('cmp_')},
                aesctr_hinit_calibrated=sorted(res.distinct.get('aesctr_hinit', ())),
                aesctr_impls=res.maxes.get('aesctr_impls'))
