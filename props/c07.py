"""C07: streaming decoders and engines give results independent of input chunking."""
from vrun import Job

LEVEL = 'exploration'
RULE = ('dec: inputs = fixture chains/certificates/keys (private keys raw and as PKCS#8 written by br_encode_rsa_pkcs8_der / br_encode_ec_pkcs8_der with and without public key), every certificate of test/x509, SubjectPublicKeyInfo cut out of certificates, PEM in every '
        'flag/line-ending style, several objects with surrounding text, malformed armour, plus seeded mutations of each (bit flip, truncation, byte '
        'replacement, deletion); consumers x509_minimal (with name elements), x509_decoder (both DN callbacks, dates, CA flag, signer), skey, pkey, '
        'PEM; for each input the full observable outcome under EVERY two-chunk split, all-one-byte pushes and random multi-chunk partitions with '
        'zero-length pushes must equal the single-push outcome; every PEM text is decoded again without a destination (setdest(0) / setdest not called; single push, one-byte, random partition): events, names and consumed byte counts as with a destination. tls: for key exchange {RSA, ECDHE_RSA, ECDHE_ECDSA, ECDH_RSA, ECDH_ECDSA} x '
        '{TLS 1.0, 1.2} x {full, resumed} x {no client auth, EC client cert} x {client, server}: a session is recorded (fixed seed), then the '
        'endpoint is replayed alone with the recorded incoming stream released causally (a segment only after the endpoint emitted what it had '
        'emitted when the peer produced that segment) under one-byte and random chunkings; emitted byte stream, delivered application bytes, '
        'final state and error must be identical, also for streams with one altered byte. distinct = distinct (consumer, input) pairs.')
ASSUMPTIONS = [
    'the application policy of the replayed TLS endpoint is fixed (write when first ready, read everything, close at a fixed stream position) and output is always collected before more input is given',
    'seeder replaced by a fixed seed (hook H1)',
]
EVAL = ['runs_two_chunk', 'runs_one_byte', 'runs_random_partition', 'replays']
DISTINCT = ['input']
REQUIRED = ['inputs', 'inputs_accepted', 'inputs_other', 'runs_two_chunk', 'runs_one_byte', 'runs_random_partition', 'scenarios', 'replays', 'runs_faulted', 'runs_inserted_alert',
            'inputs_skey_pkcs8_decoded', 'inputs_skey_pkcs8_other', 'cmp_pem_no_destination', 'pem_events_compared']
EXHAUSTIVE = 'every two-chunk split point of every decoder input of up to 6000 bytes (the three 22 kB chains and their mutants: about 300 split points each, see h_chunk.c)'
NW = 16


def jobs(tier, seed):
    q = tier == 'quick'
    js = [Job('dec%d' % i, 'h_chunk', ['--seed', seed, '--mode', 'dec', '--worker', i, '--nworkers', NW,
                                       '--mutations', 4 if q else 40, '--random', 8 if q else 32],
              libs=['-lcrypto'], timeout=1500 if q else 14000) for i in range(NW)]
    js += [Job('tls%d' % i, 'h_chunk', ['--seed', seed, '--mode', 'tls', '--worker', i, '--nworkers', 8,
                                        '--random', 8 if q else 64, '--faults', 12 if q else 200],
               libs=['-lcrypto'], timeout=1500 if q else 14000) for i in range(8)]
    return js
