import os
from vrun import Job
LEVEL='exploration'; RULE='selftest'; EVAL=['cases']; DISTINCT=['digest']; REQUIRED=['cases']
def jobs(tier, seed):
    mode=os.environ.get('SELF_MODE','ok')
    return [Job('w%d'%i,'h_selftest',['--seed',seed,'--worker',i,'--mode',mode if i==1 else 'ok'],timeout=5) for i in range(4)]
