"""C08: secret values never influence branches or memory addresses in constant-time code.

Method (ctgrind): harness/ctrun.c runs ONE library entry point per process under
`valgrind --tool=memcheck`; the secret bytes are marked undefined, so memcheck reports
every conditional jump ("Conditional jump or move depends on uninitialised value(s)")
and every address computation ("Use of uninitialised value of size N") that depends on
a secret.  A report whose stack has a frame in <repo>/src is a violation, keyed by
(entry, innermost library frame function).  Each job is also run natively (no valgrind)
and the digests of the outputs must agree.
"""
import os, re, sys, json, subprocess, fnmatch, zlib, threading
import xml.etree.ElementTree as ET
from vrun import Job
import vbuild

LEVEL = 'exploration'
RULE = ('one valgrind/memcheck process per (entry point, implementation, parameter set, compiler flavour); every secret byte of the '
        'inputs is tracked as undefined through the compiled library code, so a single execution covers all values of the secrets '
        'along the executed path; parameter sets enumerate implementations x key sizes/curves/hashes x good and defective inputs '
        '(padding/MAC/tag/point defect classes); distinct = (entry, implementation, flavour) tuples that ran to completion under '
        'valgrind with a digest equal to the native run and the expected accept/reject status')
ASSUMPTIONS = [
    'memcheck definedness propagation over-approximates secret dependence of branches and addresses (it does not model '
    'variable-latency instructions such as division or multiplication)',
    'only executed paths, this compiler (gcc, -O0/-Os/-O2) and this ISA (x86-64) are judged',
    'values the API documents as returned status/length are public once returned (marked on the harness side); '
    'inside the library only the H3 marks BR_VERIF_PUBLIC and the ALLOW list below declassify',
]
EVAL = ['valgrind_runs']
DISTINCT = ['config']
REQUIRED = ['valgrind_runs', 'digests_equal', 'canary_reports', 'entries_clean_or_allowlisted']
PARALLEL = 16

XMLDIR = os.path.join(vbuild.BUILD, 'c08-xml')
os.makedirs(XMLDIR, exist_ok=True)

# ---------------------------------------------------------------------------------------
# Allow-list: (entry, innermost library function) -> justification.  Each item is a
# disclosure the SOURCE or the API documentation declares public and for which a
# BR_VERIF_PUBLIC() mark (hook H3) has been proposed in harness/ct_hooks_proposed.md.
# Once the hook is in /repo the item is not needed any more.  `line` (optional) narrows
# the item to reports whose innermost library frame is on a source line containing
# that text, so that other branches of the same function stay violations.
HOOKS_MD = 'harness/ct_hooks_proposed.md'


def _hook_present(rel, marker):
    """True when the proposed BR_VERIF_PUBLIC mark is already in the repository file."""
    try:
        with open(os.path.join(vbuild.REPO, rel), errors='replace') as f:
            return marker in f.read()
    except OSError:
        return False


def _A(entry, fn, line, why, hook):
    return dict(entry=entry, fn=fn, line=line, why=why, hook=hook)


_RSA_WHY = ('announced bit length of p and q: rsa_i31_priv.c:45-48 "These lengths are not considered secret (we cannot really hide '
            'them anyway in constant-time code)"; bearssl_rsa.h:83-86 "execution time and memory access pattern may depend on the '
            '_lengths_ of the private key components"; inner.h:1109-1114 "patterns of all computations depend on the announced bit '
            'length". Every loop bound of the big-integer code is word 0 of the decoded factor, so WITHOUT hook A the RSA entries '
            'cannot be judged per function (all big-integer functions of the engine are listed)')
_SIG_WHY = 'the raw signature (r,s) is the public output of signing; br_ecdsa_raw_to_asn1 strips its leading zero bytes (hook E5)'
_KEYV_WHY = ('private-key validity: ecdsa_i31_sign_raw.c:84-88 "This also checks that the private key is well-defined (not zero, and '
             'less than the curve order)"; outcome is the documented return value 0 (bearssl_ec.h:663-664) (hooks E1/E2)')
_RFC_WHY = ('RFC 6979 candidate rejection (ecdsa_i31_sign_raw.c:108-115; property C08 hook_needed "RFC 6979 candidate rejection"): a '
            'rejected candidate is discarded, the accepted one is only known to be in range (hooks E3/E4)')

ALLOW = []
for _w, _f in (('i31', 'rsa/rsa_i31_priv.c'), ('i15', 'rsa/rsa_i15_priv.c'), ('i32', 'rsa/rsa_i32_priv.c'), ('i62', 'rsa/rsa_i62_priv.c')):
    _fns = {'i31': ['br_i31_*', 'br_ccopy', 'br_rsa_i31_private'], 'i15': ['br_i15_*', 'br_ccopy', 'br_rsa_i15_private'],
            'i32': ['br_i32_*', 'br_ccopy', 'br_rsa_i32_private'],
            'i62': ['br_i31_*', 'br_i62_*', 'br_ccopy', 'br_rsa_i62_private', 'montymul', 'i62_*', 'sub62', 'add62', 'mul62*']}[_w]
    for _fn in _fns:
        ALLOW.append(_A('rsa_*', _fn, '', _RSA_WHY, ('src/' + _f, 'BR_VERIF_PUBLIC(&mq[0]')))
ALLOW += [
    _A('rsa_oaep_decrypt', 'br_rsa_oaep_unpad', 'if (s) {',
       'rsa_oaep_unpad.c:132-135 "At that point, padding was verified, and we are now allowed to make conditional jumps"; '
       'bearssl_rsa.h:539-542 "Whether overall decryption worked, and the length of the decrypted message, may leak" (hook R1)',
       ('src/rsa/rsa_oaep_unpad.c', 'BR_VERIF_PUBLIC(&s,')),
    _A('rsa_oaep_decrypt', 'br_rsa_oaep_unpad', 'memmove(buf, buf + plen, k);',
       'rsa_oaep_unpad.c:92-95 "Ultimately, we may leak the resulting message length, i.e. the position of the byte of value 0x01" '
       '(only reached when s == 1) (hook R2)', ('src/rsa/rsa_oaep_unpad.c', 'BR_VERIF_PUBLIC(&zlen,')),
    _A('rec_cbc_decrypt', 'cbc_decrypt', 'if (!good) {',
       'ssl_rec_cbc.c:220-222 "Once this final test is done, the critical "constant-time" section ends and we can make conditional '
       'jumps again" (hook S1)', ('src/ssl/ssl_rec_cbc.c', 'BR_VERIF_PUBLIC(&good,')),
    _A('rec_gcm_decrypt', 'gcm_decrypt', 'if (bad) {',
       'tag verdict is the return value (NULL / plaintext); ssl_rec_gcm.c:136-140 "It is possibly useless to do a constant-time '
       'comparison here, but it does not hurt" (hook S2)', ('src/ssl/ssl_rec_gcm.c', 'BR_VERIF_PUBLIC(&bad,')),
    _A('rec_chapol_decrypt', 'chapol_decrypt', 'if (bad) {', 'tag verdict is the return value (NULL / plaintext) (hook S3)',
       ('src/ssl/ssl_rec_chapol.c', 'BR_VERIF_PUBLIC(&bad,')),
    _A('rec_ccm_decrypt', 'ccm_decrypt', 'if (!br_ccm_check_tag(&zc, buf + len)) {',
       'tag verdict is the return value; bearssl_aead.h br_ccm_check_tag "1 on success (exact match of tag value), 0 otherwise" (hook S4)',
       ('src/ssl/ssl_rec_ccm.c', 'BR_VERIF_PUBLIC_U32(br_ccm_check_tag')),
    _A('ec_keygen', 'br_ec_keygen', 'if (cc != 0 && zz != 0) {',
       'ec_keygen.c:56-60 "We generate sequences of random bits of the right size, until the value is strictly lower than the curve '
       'order (we also check for all-zero values, which are invalid)": rejection sampling, rejected candidates are discarded (hook E6)',
       ('src/ec/ec_keygen.c', 'BR_VERIF_PUBLIC(&cc,')),
]
for _w in ('i15', 'i31'):
    _f = 'src/ec/ecdsa_%s_sign_raw.c' % _w
    _fn = 'br_ecdsa_%s_sign_raw' % _w
    ALLOW += [
        _A('ecdsa_sign_*', _fn, 'if (!br_%s_decode_mod(x, sk->x, sk->xlen, n)) {' % _w, _KEYV_WHY, (_f, 'BR_VERIF_PUBLIC_U32(br_%s_decode_mod' % _w)),
        _A('ecdsa_sign_*', _fn, 'if (br_%s_iszero(x)) {' % _w, _KEYV_WHY, (_f, 'BR_VERIF_PUBLIC_U32(br_%s_iszero(x)' % _w)),
        _A('ecdsa_sign_*', _fn, 'if (br_%s_iszero(k)) {' % _w, _RFC_WHY, (_f, 'BR_VERIF_PUBLIC_U32(br_%s_iszero(k)' % _w)),
        _A('ecdsa_sign_*', _fn, 'if (br_%s_sub(k, n, 0)) {' % _w, _RFC_WHY, (_f, 'BR_VERIF_PUBLIC_U32(br_%s_sub(k, n, 0)' % _w)),
        _A('ecdsa_sign_asn1', 'asn1_int_length', '', _SIG_WHY, ('src/ec/ecdsa_%s_sign_asn1.c' % _w, 'BR_VERIF_PUBLIC(rsig')),
        _A('ecdsa_sign_asn1', 'br_ecdsa_raw_to_asn1', '', _SIG_WHY, ('src/ec/ecdsa_%s_sign_asn1.c' % _w, 'BR_VERIF_PUBLIC(rsig')),
        _A('ecdsa_sign_asn1', 'br_asn1_encode_length', '', _SIG_WHY, ('src/ec/ecdsa_%s_sign_asn1.c' % _w, 'BR_VERIF_PUBLIC(rsig')),
    ]
# an item is active only while its hook is absent from the tree under test
ALLOW = [a for a in ALLOW if not _hook_present(*a['hook'])]

# Memcheck imprecision (NOT declassification): memcheck flags `a == b` when both are secret-derived even if a - b is public
# (compilers rewrite loop counters that way).  Each item is justified by the machine code and is CONFIRMED at run time by a
# differential execution: a family of runs that differ ONLY in secrets (other keys/plaintexts; for CBC records also other padding
# lengths, MAC positions and defect classes with the SAME record length and verdict) is executed under
# `valgrind --tool=callgrind --toggle-collect=<function>`; the instruction count (Ir) and the number of executed conditional
# branches (Bc) inside the function must be identical for all members with the same public shape; otherwise the report stays a
# violation.
def _cbc_family(job):
    """CBC records with the same total length: different plaintext lengths / padding lengths / defects."""
    a = job.args
    impl, h, ver = a[a.index('--impl') + 1], a[a.index('--hash') + 1], a[a.index('--curve') + 1]
    hlen = {'md5': 16, 'sha1': 20, 'sha256': 32, 'sha384': 48}[h]
    bs = 8 if impl.startswith('des') else 16

    def tot(sz, var):
        padn = bs - 1 - ((sz + hlen) % bs)
        if var in ('good_pad_long', 'bad_padbyte_first', 'bad_padbyte_mid', 'bad_shift'):
            while padn + bs <= 255:
                padn += bs
        elif var in ('good_pad_mid', 'bad_padbyte_last'):
            padn += 4 * bs
        return sz + hlen + padn + 1
    T = tot(100, 'good_pad_long')
    fam = []
    for var in ('good_pad_long', 'good', 'good_pad_mid', 'bad_padbyte_mid', 'bad_mac_last', 'bad_shift', 'bad_padbyte_first',
                'bad_mac_first', 'bad_padbyte_last', 'bad_data'):
        for sz in range(T, 0, -1):
            if tot(sz, var) == T:
                fam.append(['rec_cbc_decrypt', '--impl', impl, '--curve', ver, '--hash', h, '--var', var, '--size', str(sz),
                            '--seed', a[a.index('--seed') + 1]])
                break
    return fam


def _seed_family(job, n=4):
    i = job.args.index('--seed')
    out = []
    for k in range(n):
        args = list(job.args)
        args[i + 1] = str(int(args[i + 1]) + k)
        out.append(args)
    return out


ARTEFACTS = [
    dict(fn='br_aes_ct64_ctrcbc_ctr', line='for (i = 0; i < j; i += 4) {', family=_seed_family,
         cache=lambda job: (job.flavour, 'eax', job.args[job.args.index('--impl') + 1]),
         why='gcc -Os/-O2 eliminates the loop counter i in favour of the CTR word iv3 (aes_ct64_ctrcbc.c:84-91: loop test compiled to '
             '`cmp iv3_start + (j+3)/4, iv3`); iv3 is secret-derived in EAX (OMAC of the nonce) but the trip count is (j+3)/4 whatever '
             'its value'),
    dict(fn='cbc_decrypt', line='for (u = min_len; u < max_len; u ++) {', family=_cbc_family,
         cache=lambda job: (job.flavour,) + tuple(job.args[job.args.index(k) + 1] for k in ('--impl', '--hash', '--curve')),
         why='gcc -O2 rewrites both loops of ssl_rec_cbc.c:149 and :168 with the counter u - len and the bound max_len - len '
             '(`sub %r12d,%ecx` / `sub %r12d,%r10d` / `cmp %r10d,%ecx; jne`): both sides depend on the secret len, their difference '
             'max_len - u does not; the trip count is max_len - min_len whatever len is'),
]


def _artefact(fn, srcline):
    for a in ARTEFACTS:
        if a['fn'] == fn and a['line'] in (srcline or ''):
            return a
    return None


def _allowed(entry, fn, srcline):
    for a in ALLOW:
        if not fnmatch.fnmatchcase(entry, a['entry']):
            continue
        if not fnmatch.fnmatchcase(fn, a['fn']):
            continue
        if a.get('line') and a['line'] not in (srcline or ''):
            continue
        return a
    return None


# ---------------------------------------------------------------------------------------
# workload

RSA_IMPLS = ['i15', 'i31', 'i32', 'i62', 'default']
EC_CURVES = {
    'prime_i15': ['p256', 'p384', 'p521'], 'prime_i31': ['p256', 'p384', 'p521'],
    'p256_m15': ['p256'], 'p256_m31': ['p256'], 'p256_m62': ['p256'], 'p256_m64': ['p256'],
    'c25519_i15': ['c25519'], 'c25519_i31': ['c25519'], 'c25519_m15': ['c25519'],
    'c25519_m31': ['c25519'], 'c25519_m62': ['c25519'], 'c25519_m64': ['c25519'],
    'all_m15': ['p256', 'p384', 'p521', 'c25519'], 'all_m31': ['p256', 'p384', 'p521', 'c25519'],
}
# the one curve used in the quick tier, per implementation
EC_QUICK = {'prime_i15': 'p256', 'prime_i31': 'p384', 'all_m15': 'p521', 'all_m31': 'c25519'}
PRIMS = ['NOT', 'MUX', 'EQ', 'NEQ', 'GT', 'GE', 'LT', 'LE', 'CMP', 'EQ0', 'GT0', 'GE0', 'LT0', 'LE0',
         'MIN', 'MAX', 'BIT_LENGTH', 'divrem', 'ccopy']
SSL_VARS = ['good', 'bad_first', 'bad_type', 'bad_zero_in_pad', 'bad_zero_early', 'bad_nosep', 'bad_short_msg', 'bad_version']
OAEP_VARS = ['good', 'good_empty', 'good_short', 'good_max', 'bad_lhash', 'bad_lhash_first', 'bad_sep', 'bad_nosep',
             'bad_first', 'bad_label']
CBC_VARS = ['good', 'good_pad_mid', 'good_pad_long', 'bad_mac_first', 'bad_mac_last', 'bad_data', 'bad_padlen_over',
            'bad_padbyte_first', 'bad_padbyte_mid', 'bad_padbyte_last', 'bad_shift']
HASH_MAC = ['md5', 'sha1', 'sha224', 'sha256', 'sha384', 'sha512']
BLOCK_MODES = ['cbcenc', 'cbcdec', 'ctr', 'ctrcbc_enc', 'ctrcbc_dec', 'ctrcbc_ctr', 'ctrcbc_mac']


def _spec(entry, impl='', cost=1, **kw):
    d = dict(entry=entry, impl=impl, cost=cost)
    d.update(kw)
    return d


def specs(tier):
    q = tier == 'quick'
    S = []
    # ---- canaries (must be reported)
    S.append(_spec('canary_aes_big', 'aes_big', size=16, var='cbcdec', canary=1))
    S.append(_spec('canary_aes_big', 'aes_big', size=16, var='ctr', canary=1))
    S.append(_spec('canary_des_tab', 'des_tab', size=24, var='cbcenc', canary=1))
    S.append(_spec('canary_memcmp', 'harness', canary=1))
    # ---- RSA
    sizes = [1024] if q else [1024, 1017, 2048]
    for impl in RSA_IMPLS:
        for sz in sizes:
            c = 3 * (sz / 1024.0) ** 3 * (2.5 if impl == 'i15' else 1)
            S.append(_spec('rsa_private', impl, c, size=sz))
            S.append(_spec('rsa_pkcs1_sign', impl, c, size=sz, hash='sha256'))
            S.append(_spec('rsa_pss_sign', impl, c, size=sz, hash='sha256'))
            full = sz == 1024 and (impl == 'i31' or not q) or (sz == 2048 and impl == 'i31')
            for v in (SSL_VARS if full else ['good', 'bad_nosep']):
                S.append(_spec('rsa_ssl_decrypt', impl, c, size=sz, var=v))
            for v in (OAEP_VARS if full else ['good', 'bad_lhash']):
                S.append(_spec('rsa_oaep_decrypt', impl, c, size=sz, hash='sha1' if v.startswith('bad_l') else 'sha256', var=v))
        if not q:
            S.append(_spec('rsa_private', impl, 4, size=1024, var='toolarge'))
            S.append(_spec('rsa_pkcs1_sign', impl, 4, size=1024, hash='sha1'))
            S.append(_spec('rsa_pss_sign', impl, 4, size=1024, hash='sha384', var='salt0'))
    # factors whose bit length is a whole number of words (496 = 16 * 31; 930 = 30 * 31 = 62 * 15): the reduction and
    # Montgomery code has its own paths for a full top word
    for impl in RSA_IMPLS:
        for sz in ([992] if q and impl not in ('i15', 'i31') else [992, 1860]):
            c = 3 * (sz / 1024.0) ** 3 * (2.5 if impl == 'i15' else 1)
            S.append(_spec('rsa_private', impl, c, size=sz))
            if not q:
                S.append(_spec('rsa_pkcs1_sign', impl, c, size=sz, hash='sha256'))
                S.append(_spec('rsa_oaep_decrypt', impl, c, size=sz, hash='sha256', var='good'))
                S.append(_spec('rsa_ssl_decrypt', impl, c, size=sz, var='good'))
    # the largest supported key reaches the reduced-window (low temporary space) path of modpow_opt
    S.append(_spec('rsa_private', 'i31', 120, size=4096))
    if not q:
        S.append(_spec('rsa_private', 'i62', 60, size=4096))
        S.append(_spec('rsa_private', 'i15', 300, size=4096))
        S.append(_spec('rsa_private', 'i32', 40, size=2049))
    # ---- EC
    for impl, curves in EC_CURVES.items():
        cs = [EC_QUICK.get(impl, curves[0])] if q else curves
        for cv in cs:
            c = {'p256': 1, 'p384': 2, 'p521': 4, 'c25519': 1}[cv] * (2 if 'i15' in impl or 'm15' in impl else 1)
            S.append(_spec('ec_mul', impl, c, curve=cv))
            S.append(_spec('ec_mulgen', impl, c, curve=cv))
            S.append(_spec('ec_compute_pub', impl, c, curve=cv))
            S.append(_spec('ec_keygen', impl, 1, curve=cv))
            if cv != 'c25519':
                S.append(_spec('ec_muladd', impl, 2 * c, curve=cv))
                S.append(_spec('ec_muladd', impl, 2 * c, curve=cv, var='two_points'))
                if not q:
                    S.append(_spec('ec_muladd', impl, 2 * c, curve=cv, var='same_point'))
                    S.append(_spec('ec_muladd', impl, 2 * c, curve=cv, var='bad_point'))
                    S.append(_spec('ec_mul', impl, c, curve=cv, var='bad_point'))
                    S.append(_spec('ec_mul', impl, c, curve=cv, var='bad_format'))
                    S.append(_spec('ec_mul', impl, c, curve=cv, var='scalar_small'))
                    S.append(_spec('ec_mul', impl, c, curve=cv, var='scalar_max'))
    # ---- ECDSA
    ecdsa = [('i15:prime_i15', 'p256', 'sha256'), ('i31:prime_i31', 'p256', 'sha256'), ('default:default', 'p256', 'sha256'),
             ('i31:p256_m31', 'p256', 'sha384'), ('i15:p256_m15', 'p256', 'sha1')]
    if not q:
        ecdsa += [('i15:prime_i15', 'p384', 'sha384'), ('i31:prime_i31', 'p384', 'sha384'), ('i15:all_m15', 'p521', 'sha512'),
                  ('i31:all_m31', 'p521', 'sha512'), ('i31:p256_m62', 'p256', 'sha256'), ('i31:p256_m64', 'p256', 'sha256'),
                  ('i31:prime_i31', 'p521', 'sha256'), ('i15:prime_i15', 'p256', 'sha512')]
    for impl, cv, h in ecdsa:
        for e in ('ecdsa_sign_raw', 'ecdsa_sign_asn1'):
            S.append(_spec(e, impl, 3, curve=cv, hash=h))
    for v in ['bad_key_zero', 'bad_key_order', 'hash_zero', 'hash_ff']:
        for impl in ['i15:prime_i15', 'i31:prime_i31']:
            S.append(_spec('ecdsa_sign_raw', impl, 3, curve='p256', hash='sha256', var=v))
    # ---- block ciphers
    for impl in ['aes_ct', 'aes_ct64']:
        for m in BLOCK_MODES:
            for ks in ([16] if q and m != 'cbcenc' else [16, 24, 32]):
                S.append(_spec('block', impl, size=ks, var=m))
    for m in ['cbcenc', 'cbcdec']:
        for ks in [8, 24] + ([] if q else [16]):
            S.append(_spec('block', 'des_ct', size=ks, var=m))
    # ---- stream / MAC
    for impl in ['ct', 'sse2']:
        for sz in ([200] if q else [0, 1, 63, 64, 200, 1000]):
            S.append(_spec('chacha20', impl, size=sz))
    for impl in ['ctmul', 'ctmul32', 'ctmulq', 'i15']:
        for v in ['enc', 'dec']:
            for sz in ([100] if q else [0, 15, 16, 100, 1000]):
                S.append(_spec('poly1305', impl, size=sz, var=v))
    for impl in ['ctmul', 'ctmul32', 'ctmul64', 'pclmul']:
        for sz in ([70] if q else [0, 1, 16, 70, 1000]):
            S.append(_spec('ghash', impl, size=sz))
    for h in HASH_MAC:
        vs = [(300, '44:100:13'), (300, '0:300:13'), (100, '0:0:0')]
        if not q:
            vs += [(300, '44:44:13'), (256, '0:255:13'), (64, '0:51:13'), (64, '0:52:13'), (128, '0:107:13'),
                   (128, '0:108:0'), (500, '244:499:77'), (20, '20:20:13')]
        for mx, v in vs:
            S.append(_spec('hmac_outCT', h, hash=h, size=mx, var=v))
    # ---- CBC records
    cbc = [('aes_ct', 'sha1', 'tls12', 100, CBC_VARS), ('aes_ct64', 'sha256', 'tls10', 100, ['good', 'good_pad_long', 'bad_mac_last', 'bad_padbyte_mid']),
           ('des_ct', 'sha1', 'tls10', 37, ['good', 'bad_padlen_over', 'bad_mac_first']),
           ('aes_ct', 'sha384', 'tls12', 50, ['good', 'bad_shift', 'bad_padbyte_last']),
           ('aes_ct', 'md5', 'tls10', 0, ['good', 'bad_mac_first']),
           ('aes_ct', 'sha256', 'tls12', 0, ['good', 'good_pad_long', 'bad_padbyte_first'])]
    if not q:
        cbc = [(i, h, v, sz, CBC_VARS if sz else [x for x in CBC_VARS if x != 'bad_data'])
               for i in ['aes_ct', 'aes_ct64', 'des_ct'] for h in ['md5', 'sha1', 'sha256', 'sha384']
               for v in ['tls10', 'tls12'] for sz in ([100] if (i, v) != ('aes_ct', 'tls12') else [0, 1, 100, 333])]
        cbc += [('aes_ct', 'sha1', 'tls12', 16384, ['good', 'good_pad_long']), ('aes_ct', 'sha1', 'tls12', 16385, ['bad_too_long']),
                ('aes_ct64', 'sha256', 'tls10', 16385, ['bad_too_long'])]
    # records of the largest accepted size (16384 bytes of plaintext + MAC + 256 bytes of padding): only for SHA-256 / SHA-384 is that
    # total a multiple of the block size, and only then does the hidden-length HMAC see min_len == max_len
    cbc += [('aes_ct', 'sha256', 'tls12', 16384, ['good_pad_long', 'bad_padbyte_mid']),
            ('aes_ct64', 'sha384', 'tls12', 16384, ['good_pad_long', 'bad_mac_last'])]
    for impl, h, ver, sz, vs in cbc:
        for v in vs:
            if v == 'bad_padlen_over' and sz > 200:
                continue
            S.append(_spec('rec_cbc_decrypt', impl, 3 if sz > 10000 else 1, hash=h, curve=ver, size=sz, var=v))
    # ---- AEAD records and tag checks
    aeadv = ['good', 'bad_tag', 'bad_tag_first', 'bad_data']
    for impl in (['aes_ct:ctmul', 'aes_ct64:ctmul64'] if q else
                 ['aes_ct:ctmul', 'aes_ct:ctmul32', 'aes_ct64:ctmul64', 'aes_ct64:pclmul', 'aes_ct:ctmul64']):
        for v in aeadv:
            for sz in ([100] if q else [0, 100]):
                if v == 'bad_data' and sz == 0:
                    continue
                S.append(_spec('rec_gcm_decrypt', impl, size=sz, var=v))
                if not q and v in ('good', 'bad_tag') and sz:
                    S.append(_spec('rec_gcm_decrypt', impl, size=sz, var=v, hash='k256'))
    for impl in ['aes_ct', 'aes_ct64']:
        for v in aeadv:
            for t in ['', 'tag8']:
                if q and t and v not in ('good', 'bad_tag'):
                    continue
                S.append(_spec('rec_ccm_decrypt', impl, size=100, var=v, hash=t))
    for impl in (['ct:ctmul', 'ct:ctmul32', 'sse2:ctmulq', 'ct:i15'] if q else
                 [a + ':' + b for a in ['ct', 'sse2'] for b in ['ctmul', 'ctmul32', 'ctmulq', 'i15']]):
        for v in (aeadv if not q or impl == 'ct:ctmul' else ['good', 'bad_tag']):
            S.append(_spec('rec_chapol_decrypt', impl, size=100, var=v))
    for impl in ['aes_ct', 'aes_ct64']:
        for v in ['good', 'bad_first', 'bad_last', 'trunc']:
            if q and impl == 'aes_ct64' and v not in ('good', 'bad_last'):
                continue
            for gh in (['ctmul'] if q else ['ctmul', 'ctmul32', 'ctmul64', 'pclmul']):
                S.append(_spec('gcm_check_tag', impl, size=50, var=v, hash=gh))
            S.append(_spec('eax_check_tag', impl, size=50, var=v))
            if v != 'trunc':
                S.append(_spec('ccm_check_tag', impl, size=50, var=v))
    # ---- server ClientKeyExchange handling inside a real in-process handshake (harness ctrun_hs)
    for sc in ['rsa_good', 'rsa_bad_pad', 'rsa_bad_sep', 'rsa_bad_version', 'rsav_good', 'rsav_bad_version', 'rsav_neg_version', 'ecdhe_good', 'ecdhe_bad_point', 'ecdh_good', 'ecdh_bad_point']:
        S.append(_spec('hs_server_keyx', sc.split('_')[0], 3, scen=sc, harness='ctrun_hs'))
    # ---- primitives
    for p in PRIMS:
        S.append(_spec('prim_' + p, 'inner.h', 0.5, prim=1))
    return S


def _vg(xml):
    return ['valgrind', '--tool=memcheck', '--error-limit=no', '--track-origins=no', '--num-callers=30',
            '--undef-value-errors=yes', '--leak-check=no', '--child-silent-after-fork=yes',
            '--xml=yes', '--xml-file=' + xml]


def mkjob(sp, flavour, seed, tier):
    args = [sp['entry']]
    if sp.get('scen'):
        args = [sp['scen']]
    for k in ('impl', 'curve', 'hash', 'var', 'size'):
        if sp.get(k) not in (None, ''):
            if k == 'impl' and sp.get('canary') or k == 'impl' and sp.get('prim'):
                continue
            args += ['--' + k, sp[k]]
    args += ['--seed', seed]
    name = '%s.%s.%s' % (tier[0], flavour, '_'.join(str(a) for a in args[:-2]).replace('--', '').replace(':', '+').replace('/', '-'))
    xml = os.path.join(XMLDIR, '%s.%d.xml' % (name, os.getpid()))     # pid: concurrent runs of this check do not collide
    tag = dict(entry=sp['entry'], impl=sp.get('impl', ''), canary=int(bool(sp.get('canary'))), xml=xml,
               params={k: sp[k] for k in ('curve', 'hash', 'var', 'size', 'scen') if sp.get(k) not in (None, '')})
    if sp.get('scen'):
        name = '%s.%s.hs_%s' % (tier[0], flavour, sp['scen'])
        tag['xml'] = xml = os.path.join(XMLDIR, '%s.%d.xml' % (name, os.getpid()))
    return Job(name, sp.get('harness', 'ctrun'), args, flavour=flavour, wrapper=_vg(xml), timeout=1500, tag=tag)


def jobs(tier, seed):
    sp = specs(tier)
    out = []
    if tier == 'quick':
        # the repository Makefile's optimisation level; the primitives and the canaries also at -O0 and -O2 (cheap)
        for s in sp:
            out.append((s['cost'], mkjob(s, 'ct-Os', seed, tier)))
            if s.get('prim') or s.get('canary'):
                for fl in ('ct-O0', 'ct-O2'):
                    out.append((s['cost'], mkjob(s, fl, seed, tier)))
    else:
        for fl in ('ct-O0', 'ct-Os', 'ct-O2'):
            for s in sp:
                out.append((s['cost'] * (3 if fl == 'ct-O0' else 1), mkjob(s, fl, seed, tier)))
    out.sort(key=lambda t: -t[0])        # long jobs first
    only = os.environ.get('C08_ONLY')      # debugging aid: run only the jobs whose name contains this text (plus the canaries)
    if only:
        out = [t for t in out if only in t[1].name or t[1].tag.get('canary')]
    return [j for _, j in out]


# ---------------------------------------------------------------------------------------
# valgrind report parsing

def _src_roots():
    r = os.path.realpath(vbuild.REPO)
    return (os.path.join(r, 'src') + os.sep, os.path.join(r, 'inc') + os.sep, os.path.join(vbuild.REPO, 'src') + os.sep,
            os.path.join(vbuild.REPO, 'inc') + os.sep)


_linecache = {}


def _srcline(path, line):
    try:
        if path not in _linecache:
            with open(path, errors='replace') as f:
                _linecache[path] = f.read().splitlines()
        return _linecache[path][int(line) - 1].strip()
    except Exception:
        return ''


def parse_xml(path):
    """-> list of dict(kind, what, count, frames=[(fn, dir, file, line)])"""
    try:
        txt = open(path, errors='replace').read()
    except OSError:
        return None
    if '</valgrindoutput>' not in txt:
        txt += '</valgrindoutput>'       # killed / aborted client
    try:
        root = ET.fromstring(txt)
    except ET.ParseError:
        return None
    errs = {}
    order = []
    for e in root.iter('error'):
        u = e.findtext('unique')
        st = e.find('stack')
        frames = []
        if st is not None:
            for fr in st.findall('frame'):
                frames.append((fr.findtext('fn') or '?', fr.findtext('dir') or '', fr.findtext('file') or '',
                               fr.findtext('line') or ''))
        what = e.findtext('what') or (e.find('xwhat').findtext('text') if e.find('xwhat') is not None else '')
        errs[u] = dict(kind=e.findtext('kind'), what=what, count=1, frames=frames)
        order.append(u)
    for p in root.iter('pair'):
        u = p.findtext('unique')
        if u in errs:
            try:
                errs[u]['count'] = int(p.findtext('count'))
            except (TypeError, ValueError):
                pass
    return [errs[u] for u in order]


def classify(errors):
    """-> (lib_reports, harness_reports, other): lib_reports = list of dict(fn, file, line, kind, count, stack, srcline)"""
    roots = _src_roots()
    lib, har, other = [], [], []
    for e in errors:
        if e['kind'] not in ('UninitCondition', 'UninitValue'):
            if not (e['kind'] or '').startswith('Leak_'):     # the harness frees nothing on purpose
                other.append(e)
            continue
        hit = None
        for fn, d, f, ln in e['frames']:
            if (d + os.sep).startswith(roots):
                hit = (fn, d, f, ln)
                break
        stack = ' < '.join('%s (%s:%s)' % (fn, f, ln) for fn, d, f, ln in e['frames'][:8])
        if hit is None:
            har.append(dict(kind=e['kind'], count=e['count'], stack=stack))
        else:
            lib.append(dict(fn=hit[0], file=hit[2], line=hit[3], kind=e['kind'], count=e['count'], stack=stack,
                            srcline=_srcline(os.path.join(hit[1], hit[2]), hit[3])))
    return lib, har, other


_native_cache = {}


def _native(job):
    k = (job.bin, tuple(job.args))
    if k not in _native_cache:
        try:
            p = subprocess.run([job.bin] + job.args, stdout=subprocess.PIPE, stderr=subprocess.PIPE, timeout=300,
                               cwd=vbuild.HERE, stdin=subprocess.DEVNULL)
            _native_cache[k] = (p.returncode, p.stdout.decode(errors='replace'))
        except subprocess.TimeoutExpired:
            _native_cache[k] = (None, '')
    return _native_cache[k]


_diff_cache = {}
_diff_lock = threading.Lock()


def _differential(job, art):
    """-> (identical, detail); result cached per code site (flavour, implementation...)."""
    key = (art['fn'],) + tuple(art['cache'](job))
    with _diff_lock:
        if key not in _diff_cache:
            _diff_cache[key] = _differential_run(job, art, key)
        return _diff_cache[key]


def _differential_run(job, art, key):
    groups = {}
    detail = []
    ok = True
    for args in art['family'](job):
        cg = os.path.join(XMLDIR, 'cg.%d.%d.out' % (os.getpid(), abs(zlib.crc32(' '.join(args + list(key)).encode()))))
        try:
            p = subprocess.run(['valgrind', '--tool=callgrind', '--toggle-collect=' + art['fn'], '--branch-sim=yes',
                                '--callgrind-out-file=' + cg, job.bin] + args + ['--nodigest', '1'],
                               stdout=subprocess.PIPE, stderr=subprocess.PIPE, timeout=900, cwd=vbuild.HERE, stdin=subprocess.DEVNULL)
            o = p.stdout.decode(errors='replace')
            txt = open(cg).read()
        except (subprocess.TimeoutExpired, OSError):
            ok = False
            detail.append('callgrind run failed')
            break
        finally:
            _rm(cg)
        ev = re.search(r'^events: (.*)$', txt, re.M)
        tt = re.search(r'^totals: (.*)$', txt, re.M) or re.search(r'^summary: (.*)$', txt, re.M)
        if p.returncode != 0 or 'STATUS expected' not in o or not ev or not tt:
            ok = False
            detail.append('callgrind run unusable: ' + ' '.join(args))
            break
        d = dict(zip(ev.group(1).split(), tt.group(1).split()))
        groups.setdefault(_field(o, 'SHAPE') or '', []).append((d.get('Ir'), d.get('Bc')))
    if ok:
        big = [g for g in groups.values() if len(g) >= 3]
        if not big:
            ok = False
            detail.append('no group of >= 3 runs with the same public shape')
        for shape, g in sorted(groups.items()):
            detail.append('%s: %s' % (shape or 'same-shape', ','.join('%s/%s' % x for x in g)))
            if len(set(g)) != 1 or int(g[0][0] or 0) <= 0:
                ok = False
    return ok, ' ; '.join(detail)[:600]


def _field(out, name):
    m = re.search(r'^%s (.*)$' % name, out, re.M)
    return m.group(1).strip() if m else None


def on_job_done(job, rc, out, err, res):
    tag = job.tag or {}
    entry, impl, fl = tag.get('entry', job.args[0]), tag.get('impl', ''), job.flavour
    xml = tag.get('xml')
    if xml is None:
        for w in job.wrapper:
            if w.startswith('--xml-file='):
                xml = w[len('--xml-file='):]
    case = 'flavour=%s cmd=%s %s' % (fl, job.harness, ' '.join(job.args))
    sk = _field(out, 'SKIP')
    if sk is not None and rc == 0:
        res.stat('skipped_not_available', 1)
        res.dist('skipped', '%s/%s' % (entry, impl))
        res.jobs_ok += 1
        _rm(xml)
        return True
    errors = parse_xml(xml) if xml else None
    if rc != 0 or 'OK' not in out.splitlines() or errors is None:
        res.inconclusive.append('%s: valgrind run failed rc=%s xml=%s: %s' % (
            job.name, rc, 'ok' if errors is not None else 'unreadable', (err.strip() or out.strip())[-300:].replace('\n', ' / ')))
        return True
    res.stat('valgrind_runs', 1)
    if _field(out, 'VALGRIND') != '1':
        res.inconclusive.append('%s: harness did not run under valgrind' % job.name)
        return True
    if _field(out, 'STATUS') != 'expected':
        res.inconclusive.append('%s: workload did not exercise the intended path: STATUS %s' % (job.name, _field(out, 'STATUS')))
        return True
    nrc, nout = _native(job)
    if nrc != 0 or _field(nout, 'DIGEST') is None:
        res.inconclusive.append('%s: native run failed rc=%s' % (job.name, nrc))
        return True
    if _field(nout, 'DIGEST') != _field(out, 'DIGEST'):
        res.inconclusive.append('%s: output digest under taint %s differs from native run %s' % (
            job.name, _field(out, 'DIGEST'), _field(nout, 'DIGEST')))
        return True
    res.stat('digests_equal', 1)
    lib, har, other = classify(errors)
    nrep = sum(r['count'] for r in lib)
    res.stat('reports_total_dynamic', nrep + sum(r['count'] for r in har))
    if other:
        res.inconclusive.append('%s: memcheck reported %d error(s) of other kinds, first: %s %s' % (
            job.name, len(other), other[0]['kind'], other[0]['what']))
    if tag.get('canary'):
        n = len(lib) + len(har)
        res.stat('canary_runs', 1)
        res.stat('canary_reports', n)
        res.dist('canary_fired' if n else 'canary_silent', '%s/%s/%s' % (entry, ' '.join(job.args[1:-2]), fl))
        res.sample(dict(canary=entry, flavour=fl, params=' '.join(job.args[1:-2]), distinct_reports=n,
                        dynamic_reports=nrep + sum(r['count'] for r in har),
                        first=(lib[0]['stack'] if lib else har[0]['stack'] if har else '')[:200]))
        res.jobs_ok += 1
        _rm(xml)
        return True
    res.stat('entries_executed', 1)
    res.stat('reports_before_allowlist', len(lib))
    if har:
        # a report with no library frame outside a canary: the harness itself branched on a secret
        res.inconclusive.append('%s: %d report(s) without a library frame: %s' % (job.name, len(har), har[0]['stack'][:300]))
    seen = {}
    for art in ARTEFACTS:
        arte = [r for r in lib if _artefact(r['fn'], r['srcline']) is art]
        if not arte:
            continue
        same, detail = _differential(job, art)
        if same:
            res.stat('reports_artefact_confirmed', len(arte))
            res.dist('artefact_used', '%s/%s/%s' % (art['fn'], entry, fl))
            res.dist('artefact_differential', '%s %s: %s' % (art['fn'], '/'.join(str(x) for x in art['cache'](job)), detail[:300]))
            lib = [r for r in lib if _artefact(r['fn'], r['srcline']) is not art]
        else:
            case += ' differential=' + detail
    for r in lib:
        a = _allowed(entry, r['fn'], r['srcline'])
        if a is not None:
            res.stat('reports_allowlisted', 1)
            res.dist('allowlist_used', '%s:%s' % (a['entry'], a['fn']))
            continue
        seen.setdefault(r['fn'], []).append(r)
    for fn, rs in sorted(seen.items()):
        r = rs[0]
        kinds = sorted(set('branch' if x['kind'] == 'UninitCondition' else 'address' for x in rs))
        what = ('secret-dependent %s in %s (%s:%s `%s`), %d site(s), %d dynamic' % (
            '/'.join(kinds), fn, r['file'], r['line'], r['srcline'][:80], len(rs), sum(x['count'] for x in rs))).replace('|', '/')
        res.viol('C08:ct:%s:%s' % (entry, fn), what, case + ' impl=%s stack=%s' % (impl, r['stack']), job)
    if _field(out, 'TAINTED') is not None:
        # handshake harness self-check: the secret must have reached the master secret
        # (static ECDH with an invalid point: the point is refused without using the scalar and the random
        # premaster that replaces it is not key-derived, so nothing secret reaches the master secret)
        if int(_field(out, 'TAINTED')) <= 0 and 'ecdh_bad_point' not in job.args:
            res.inconclusive.append('%s: taint did not reach the master secret' % job.name)
            seen['(taint-flow)'] = []
        else:
            res.stat('handshake_master_secret_tainted', 1)
    if not seen:
        res.stat('entries_clean_or_allowlisted', 1)
        res.dist('config', '%s/%s/%s' % (entry, impl, fl))
    res.dist('entry', entry)
    res.dist('paramset', '%s/%s' % (fl, ' '.join(job.args[:-2])))
    if len(res.samples) < 12 and (zlib.crc32(job.name.encode()) % 23 == 0 or lib):
        res.sample(dict(entry=entry, impl=impl, flavour=fl, params=tag.get('params', {}), reports=len(lib),
                        allowlisted=len(lib) - sum(len(v) for v in seen.values())))
    res.jobs_ok += 1
    _rm(xml)
    return True


def _rm(p):
    try:
        if p and not os.environ.get('C08_KEEP_XML'):
            os.unlink(p)
    except OSError:
        pass


def finish(res, tier, seed):
    fired = res.distinct.get('canary_fired', set())
    silent = res.distinct.get('canary_silent', set())
    for s in sorted(silent):
        res.inconclusive.append('canary not reported (monitor blind): %s' % s)
    need = ['ct-Os'] if tier == 'quick' else ['ct-O0', 'ct-Os', 'ct-O2']
    for fl in need:
        for c in ('canary_aes_big', 'canary_des_tab', 'canary_memcmp'):
            if not any(f.startswith(c + '/') and f.endswith('/' + fl) for f in fired):
                res.inconclusive.append('canary %s did not run/fire on %s' % (c, fl))


def coverage_extra(res, tier):
    return dict(entries=sorted(res.distinct.get('entry', ())),
                canaries_fired=sorted(res.distinct.get('canary_fired', ())),
                allowlist_active=[dict(entry=a['entry'], fn=a['fn'], line=a.get('line', ''), why=a['why']) for a in ALLOW],
                allowlist_used=sorted(res.distinct.get('allowlist_used', ())),
                artefacts=[dict(fn=a['fn'], line=a['line'], why=a['why']) for a in ARTEFACTS],
                artefacts_confirmed=sorted(res.distinct.get('artefact_used', ())),
                artefact_differentials=sorted(res.distinct.get('artefact_differential', ()))[:12],
                skipped=sorted(res.distinct.get('skipped', ())))


# ---------------------------------------------------------------------------------------
# debugging aid:  python3 props/c08.py <flavour> <ctrun args...>   prints the classified reports of one run
if __name__ == '__main__':
    fl = sys.argv[1]
    hn = 'ctrun'
    if sys.argv[2].startswith('@'):
        hn = sys.argv.pop(2)[1:]
    b = vbuild.harness(fl, hn)
    xml = os.path.join(XMLDIR, 'debug.%d.xml' % os.getpid())
    p = subprocess.run(_vg(xml) + [b] + sys.argv[2:], stdout=subprocess.PIPE, stderr=subprocess.PIPE, cwd=vbuild.HERE)
    print(p.stdout.decode().strip())
    lib, har, other = classify(parse_xml(xml))
    os.unlink(xml)
    agg = {}
    for r in lib:
        agg.setdefault((r['fn'], r['file'], r['line'], r['srcline'], r['kind']), [0, r['stack']])[0] += r['count']
    for (fn, f, ln, sl, k), (n, st) in sorted(agg.items()):
        print('%-6s %-28s %s:%s  x%d  `%s`' % ('branch' if k == 'UninitCondition' else 'addr', fn, f, ln, n, sl[:70]))
        if os.environ.get('C08_STACK'):
            print('        ' + st)
    for r in har:
        print('HARNESS-ONLY %s x%d %s' % (r['kind'], r['count'], r['stack']))
    for r in other:
        print('OTHER %s %s' % (r['kind'], r['what']))
