"""C01: TLS sessions deliver application data exactly and agree on session parameters."""
from vrun import Job, with_alt_flavours

LEVEL = 'exploration'
RULE = ('case idx -> (suite, version) = table[idx % 75] (all 45 suites x the versions each exists in); '
        'buffer layout {mono, engine-split, two buffers} x size class {512,1024,2048,4096,8192,16384}+overhead(+1) per side, '
        'who narrows the version {client offers exactly it, server limited to it while the client offers 1.0-1.2, both capped}, '
        'against OpenSSL a third of the sessions with client authentication (RSA / EC certificate; OpenSSL verifies the BearSSL client chain and CertificateVerify, the BearSSL server verifies OpenSSL as client), '
        'implementation set per side {library defaults = AES-NI/pclmul/SSE2, the small constant-time set of an ESP8266 (aes_ct, des_ct, ghash_ctmul32, chacha20_ct, poly1305_ctmul32, EC all_m15, i15), table/32-bit set, 64-bit set}, '
        'transport chunk policy {1 byte, small, random, whole, mixed}, write policy, payload lengths around fragment '
        'boundaries {0,1,2,f-1,f,f+1,2f+3,random}, closing side; seeded by VERIF_SEED. A case is non-trivial when the '
        'handshake completed and both streams were delivered; distinct = distinct (suite,version,key kind,layouts,size classes) '
        'tuples plus distinct schedule hashes.')
ASSUMPTIONS = [
    'OpenSSL 3.0 EVP ciphers/HMAC/TLS1-PRF are a correct independent reference for the record layer and key schedule (recmon)',
    'x86-64 build with -DBR_SLOW_MUL15=1 -DBR_LE_UNALIGNED=0 -DBR_BE_UNALIGNED=0 stands in for the ESP8266 build',
    'seeder replaced by a fixed seed (hook H1) so that cases are reproducible',
]
EVAL = ['cases']
DISTINCT = ['config', 'schedule', 'version_shape', 'ossl_client_auth', 'impl_sets']
REQUIRED = ['cases', 'sessions_completed', 'records_protected', 'c06_checks', 'param_compares',
            'clienthello_min_length_cases', 'sessions_on_minimal_server_profiles', 'ossl_sessions_completed', 'ossl_mfl_echoed', 'ossl_verified_bearssl_client', 'bearssl_verified_ossl_client']
NW = 16


def jobs(tier, seed):
    n = 1125 if tier == 'quick' else 9000
    js = [Job('bb%d' % i, 'h_tls01', ['--seed', seed, '--worker', i, '--nworkers', NW, '--cases', n,
                                      '--full16k', 0 if tier == 'quick' else 1],
              libs=['-lcrypto'], timeout=600 if tier == 'quick' else 3600) for i in range(NW)]
    no = 464 if tier == 'quick' else 4640
    js += [Job('os%d' % i, 'h_tls01o', ['--seed', seed, '--worker', i, '--nworkers', NW, '--cases', no],
               libs=['-lssl', '-lcrypto'], timeout=600 if tier == 'quick' else 3600) for i in range(NW)]
    # 4 of the 32 workers (quick; all of them in the thorough tier) are repeated on the other arithmetic
    # configurations of the library, where br_ssl_*_init_full() selects other default implementations
    return with_alt_flavours(js, tier, seed)
