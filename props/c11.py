"""C11: EC arithmetic, ECDH and ECDSA are correct and reject invalid input.

Harness h_ec (modes arith / ecdsa / conv / keygen); references: OpenSSL
EC_POINT_* and ECDSA_do_verify, GMP RFC 7748 ladder, RFC 6979 generator over
OpenSSL HMAC, i2d_ECDSA_SIG.
"""
from vrun import Job, ALT_FLAVOURS

LEVEL = 'exploration'
RULE = ('per EC implementation x supported curve: enumerated special scalars (1,2,3,4,n-1,n-2,n-3,(n+-1)/2,15,16,'
        '0xffff, 2^j, 2^j-1) on mulgen / mul(G) / mul(random point), then seeded random cases mixing mul, mulgen, '
        'muladd (independent, A=B, A=-B, xA=+-yB, zero multiplier, B=NULL/explicit G) and 22 classes of invalid '
        'point encodings, scalars encoded at order length / minimal / with extra leading zeros / short; Curve25519: '
        'RFC 7748 vectors, random, low-order, twist, non-canonical u, short scalars; ECDSA: every signer x EC '
        'implementation x hash in rotation against RFC 6979, each signature verified by rotating verifiers, '
        'arbitrary hash lengths 0..72, 22 value mutations, raw length and 16 DER structure mutations, invalid '
        'public keys; raw<->asn1 round trips; keygen+compute_pub per implementation x curve (private key also minimal / '
        'zero-padded / short); valid points with extreme x (0..64, p-64..p-1, 2^E+-k at the exponents of the field prime) '
        'under mul and muladd with scalars 1, 2, n-1, random; the br_ecdsa_*_get_default signers and verifiers. A case is distinct '
        'by (implementation, curve, operation, input class, scalar encoding) resp. (signer/verifier, '
        'implementation, curve, hash, mutation class, expected verdict).')
ASSUMPTIONS = [
    'OpenSSL 3 libcrypto EC_POINT_mul/EC_POINT_add/EC_POINT_oct2point and ECDSA_do_verify are correct references '
    'for P-256/P-384/P-521 (ECDSA_do_verify is cross-checked in-process against a textbook BIGNUM verifier; a '
    'disagreement stops the harness as inconclusive)',
    'the RFC 7748 ladder and the RFC 6979 nonce generator written in the harness are correct; they are tied to the '
    'RFC test vectors (7748 section 5.2 incl. the 1000-iteration vector in the thorough tier, 6979 A.2.5) at start-up',
    'behaviour the header leaves open is executed but not judged: mul() returning 0 for an in-range scalar encoded '
    'on more bytes than the order (p256_m62/m64), Curve25519 scalars longer than 32 bytes, the return value of '
    'Curve25519 mul() on low-order / twist points, lenient DER forms of valid signatures, out-of-range private '
    'keys given to the signers',
    'the RFC 6979 retry vector (P-256, SHA-256, first candidate >= n; found by an offline search of 2^32 hash values) has its expected '
    'signature from mbedTLS 2.28 mbedtls_ecdsa_sign_det_ext; the harness reference must reproduce it (else harness failure)',
    'muladd() with a zero multiplier must return 0 (bearssl_ec.h: "If either integer is zero, then an error is reported")',
]
EVAL = ['cmp_const', 'cmp_mul', 'cmp_mulgen', 'cmp_muladd', 'cmp_invalid_point', 'cmp_kat', 'cmp_sign',
        'cmp_vrfy_accept', 'cmp_vrfy_reject', 'cmp_vrfy_must_reject', 'cmp_unsupported_curve',
        'cmp_conv_r2a', 'cmp_conv_a2r', 'cmp_conv_roundtrip', 'cmp_conv_must_fail',
        'cmp_keygen_range', 'cmp_pubkey']
DISTINCT = ['arith_cfg', 'ecdsa_cfg', 'conv_cfg', 'keygen_cfg', 'vrfy_hashlen']
REQUIRED = ['cmp_const', 'cmp_mul', 'cmp_mulgen', 'cmp_muladd', 'cmp_muladd_must_fail', 'cmp_muladd_zero_multiplier',
            'cmp_mul_extreme_point', 'cmp_muladd_extreme_point', 'cmp_sign_default', 'cmp_vrfy_default',
            'cmp_pubkey_encoding_shapes', 'cmp_kat_rfc6979_retry',
            'vrfy_cases_with_e_zero', 'cmp_invalid_point',
            'cmp_kat', 'cmp_sign', 'cmp_vrfy_accept', 'cmp_vrfy_reject', 'cmp_vrfy_must_reject',
            'cmp_conv_r2a', 'cmp_conv_a2r', 'cmp_conv_roundtrip', 'cmp_conv_must_fail',
            'cmp_keygen_range', 'cmp_pubkey']

LIBS = ['-lcrypto', '-lgmp']

# (implementation, curve, relative cost of one mul in ms under ASan)
PAIRS = [
    ('prime_i15', 'P256', 8.5), ('prime_i15', 'P384', 23), ('prime_i15', 'P521', 51),
    ('prime_i31', 'P256', 3), ('prime_i31', 'P384', 8), ('prime_i31', 'P521', 17.5),
    ('p256_m15', 'P256', 7.6), ('p256_m31', 'P256', 2.1), ('p256_m62', 'P256', 0.4), ('p256_m64', 'P256', 0.3),
    ('c25519_i15', 'C25519', 4), ('c25519_i31', 'C25519', 1.6), ('c25519_m15', 'C25519', 2.9),
    ('c25519_m31', 'C25519', 0.6), ('c25519_m62', 'C25519', 0.2), ('c25519_m64', 'C25519', 0.2),
    ('all_m15', 'P256', 9.3), ('all_m15', 'P384', 22), ('all_m15', 'P521', 50), ('all_m15', 'C25519', 2.8),
    ('all_m31', 'P256', 0.3), ('all_m31', 'P384', 7.8), ('all_m31', 'P521', 17), ('all_m31', 'C25519', 0.2),
]


def jobs(tier, seed):
    q = (tier == 'quick')
    th = 0 if q else 1
    out = []
    # ---- arithmetic.  Case counts are bounded by CPU budget per pair (core-seconds under ASan)
    for impl, curve, ms in PAIRS:
        dup = impl.startswith('all_') and not (impl == 'all_m31' and curve in ('P256', 'C25519'))
        if q:
            ncase = 300 if ms >= 4 else 600 if ms >= 1.5 else 2000
            nspecial = 200
        else:
            budget = 75.0 if dup else 150.0
            ncase = int(min(20000, budget / (1.5 * ms / 1000.0)))
            nspecial = 1100
        est = (ncase + nspecial) * 1.5 * ms / 1000.0      # CPU seconds of the whole pair
        nw = max(1, min(16, int(est / (9.0 if q else 60.0)) + 1))
        for w in range(nw):
            out.append((est / nw, Job('arith-%s-%s-%d' % (impl, curve, w), 'h_ec',
                                      ['--mode', 'arith', '--impl', impl, '--curve', curve, '--cases', ncase,
                                       '--seed', seed, '--worker', w, '--nworkers', nw, '--thorough', th],
                                      flavour='asan', libs=LIBS, timeout=300 if q else 2400)))
    # ---- ECDSA: cases = signatures (each: 1 RFC 6979 comparison, 2 verifications of the valid signature,
    #      1 arbitrary-hash-length signature, 3 mutated ones); CPU per signature 0.04 / 0.18 / 0.4 s
    for curve, nsig, nw in (('P256', 900 if q else 24000, 6 if q else 24),
                            ('P384', 400 if q else 5000, 12 if q else 24),
                            ('P521', 300 if q else 1800, 20 if q else 20)):
        for w in range(nw):
            out.append((30.0 if q else 700.0, Job('ecdsa-%s-%d' % (curve, w), 'h_ec',
                                ['--mode', 'ecdsa', '--curve', curve, '--cases', nsig, '--seed', seed,
                                 '--worker', w, '--nworkers', nw, '--nverify', 2, '--nmut', 3,
                                 '--thorough', th],
                                flavour='asan', libs=LIBS, timeout=300 if q else 2400)))
    # ---- conversions, key generation
    nconv = 20000 if q else 1000000
    for w in range(2 if q else 8):
        out.append((1.0, Job('conv-%d' % w, 'h_ec', ['--mode', 'conv', '--cases', nconv, '--seed', seed,
                                                      '--worker', w, '--nworkers', 2 if q else 8],
                             flavour='asan', libs=LIBS, timeout=300 if q else 2400)))
    nk = 14
    for w in range(nk):
        out.append((3.0, Job('keygen-%d' % w, 'h_ec', ['--mode', 'keygen', '--cases', 12 if q else 600, '--seed', seed,
                                                        '--worker', w, '--nworkers', nk],
                             flavour='asan', libs=LIBS, timeout=300 if q else 2400)))
    # ---- the other arithmetic configurations of the library (alt-*: native MUL15, 32-bit-only with slow
    #      multiplier, constant-time multiplication macros + portable ARSH; os: -Os without instrumentation):
    #      every implementation x curve pair on every one of them, special values included
    for fl in ALT_FLAVOURS:
        for impl, curve, ms in PAIRS:
            if impl.startswith('all_'):
                continue
            ncase = int(min(4000, (6.0 if q else 90.0) / (1.5 * ms / 1000.0)))
            out.append((ncase * 1.5 * ms / 1000.0,
                        Job('arith-%s-%s@%s' % (impl, curve, fl), 'h_ec',
                            ['--mode', 'arith', '--impl', impl, '--curve', curve, '--cases', ncase,
                             '--seed', seed, '--worker', 0, '--nworkers', 1, '--thorough', 0],
                            flavour=fl, libs=LIBS, timeout=300 if q else 2400)))
        for curve, nsig in (('P256', 40 if q else 1500), ('P384', 16 if q else 500), ('P521', 8 if q else 250)):
            out.append((20.0, Job('ecdsa-%s@%s' % (curve, fl), 'h_ec',
                                  ['--mode', 'ecdsa', '--curve', curve, '--cases', nsig, '--seed', seed,
                                   '--worker', 0, '--nworkers', 1, '--nverify', 2, '--nmut', 3, '--thorough', 0],
                                  flavour=fl, libs=LIBS, timeout=300 if q else 2400)))
        out.append((3.0, Job('keygen@%s' % fl, 'h_ec', ['--mode', 'keygen', '--cases', 4 if q else 100, '--seed', seed,
                                                      '--worker', 0, '--nworkers', 1],
                             flavour=fl, libs=LIBS, timeout=300 if q else 2400)))
    # longest first, so that the pool of 16 stays busy to the end
    out.sort(key=lambda t: -t[0])
    return [j for _, j in out]


def coverage_extra(res, tier):
    s = res.sums
    return dict(
        unjudged={k: v for k, v in sorted(s.items()) if k.startswith('unjudged_') or k.startswith('skipped_')},
        observations={k: v for k, v in sorted(s.items()) if k.startswith('obs_')},
        signatures=s.get('signatures', 0),
        library_calls=s.get('lib_calls', 0),
        default_impl=sorted(res.distinct.get('default_impl', ())),
        impl_unavailable=sorted(res.distinct.get('impl_unavailable', ())),
    )
