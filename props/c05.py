"""C05: untrusted input never causes out-of-bounds access, undefined behaviour or a hang."""
import os, re
from vrun import Job, classify_stderr
import vbuild

LEVEL = 'exploration'
RULE = ('13 libFuzzer targets (clang: coverage-guided fuzzer + ASan + UBSan, T0 stack-bound hook H2 armed): TLS client/server engines before '
        'keys (bytes -> engine, buffer layout/size/key kind/client-auth from the first byte), TLS client/server after the handshake (input is a '
        'script of records sealed with the peer\'s real keys by the independent record layer, restored from a snapshot per input), X.509 validator '
        '(static and dynamic anchors, name elements), certificate decoder, private/public key decoders, PEM decoder, ECDSA converters and verifiers, '
        'RSA public operations, EC mul/muladd of every implementation; the second input byte seeds the chunking. Seed corpora are generated at '
        'run time: recorded valid handshakes of every key kind x client-auth kind and their framing variants (each cleartext record up to ChangeCipherSpec extended by extra bytes, delivered byte by byte or header-then-one-byte), all test/x509 certificates, fixture keys, PEM, valid signatures, '
        'and boundary structures with key/signature sizes at and just beyond every internal buffer (255..257, 511..513, 519..522, 1535..1561 bytes). '
        'Guard bytes around the work areas inside the context structures (hook H4) are poisoned, so overflows that stay inside a structure are reported too; the hostile-peer scenarios of the C03 harness (lying validator: oversized / tiny / missing keys, rogue policies) run once more here for memory safety. After each decoder/crypto target the resulting corpus is replayed once under MemorySanitizer (clang, origins tracked). Oracles: no sanitizer report, no H2 failure, interpreter steps per push <= 200000 + 4000*bytes, status getters consistent. Bounded by -runs. '
        'distinct_nontrivial = libFuzzer coverage features reached (ft) summed over targets.')
ASSUMPTIONS = [
    'coverage-guided but finite: only executed paths are judged; ASan misses non-adjacent and intra-object overflows other than the VM stacks (hook H2) and arrays UBSan bounds-checks',
    'a libFuzzer per-input timeout (20 s) is inconclusive, the step bound is the termination oracle',
    'x86-64 clang-14 build of the same C sources',
]
EVAL = ['execs']
DISTINCT = []
REQUIRED = ['execs', 'targets_completed', 't0_steps', 'seeds', 'msan_units_replayed', 'auth_cases',
            'pre_target_handshakes_completed_client', 'pre_target_handshakes_completed_server']
PARALLEL = 12

TARGETS = [  # name, quick runs, max_len
    ('client_pre', 7000, 20000), ('server_pre', 9000, 8000), ('client_post', 30000, 4000), ('server_post', 30000, 4000),
    ('x509_minimal', 10000, 20000), ('x509_decoder', 30000, 8000), ('skey', 20000, 16000), ('pkey', 20000, 8000),
    ('pem', 20000, 20000), ('ecdsa', 1200, 600), ('rsa_pub', 2500, 2400), ('ec_pub', 1500, 300), ('lru', 20000, 600),
]


def jobs(tier, seed):
    mult = 1 if tier == 'quick' else 40
    work = os.path.join(vbuild.BUILD, 'c05-work')
    art = os.path.join(vbuild.HERE, 'replay', 'C05')
    os.makedirs(work, exist_ok=True)
    os.makedirs(art, exist_ok=True)
    js = []
    # corpus replay under MemorySanitizer for the targets that do not call into OpenSSL (uninstrumented)
    msan_bin = vbuild.harness('msan', 'fz_all', ['-lcrypto'])
    msan_targets = ('x509_minimal', 'x509_decoder', 'skey', 'pkey', 'pem', 'ecdsa', 'rsa_pub', 'ec_pub', 'lru')
    for name, runs, maxlen in TARGETS:
        j = Job('fz_' + name, 'fz_all',
                [name, work, os.path.join(art, name + '-'), runs * mult, seed, maxlen] + ([msan_bin] if name in msan_targets else []),
                flavour='fuzz', libs=['-lcrypto'], wrapper=['sh', os.path.join(vbuild.HERE, 'tools', 'fzrun.sh')],
                timeout=1200 if tier == 'quick' else 14000, tag=name,
                env={'ASAN_OPTIONS': 'abort_on_error=1:detect_leaks=0:allocator_may_return_null=1:symbolize=1',
                     'UBSAN_OPTIONS': 'print_stacktrace=1:halt_on_error=1'})
        js.append(j)
    # hostile-peer scenarios that are hard for a byte-level fuzzer to reach because they need a validator or a peer
    # policy that lies (oversized / undersized / missing public keys, rogue key-exchange results, forged signatures):
    # the authentication scenarios of the C03 harness, here judged for memory safety (ASan + guard bytes H4) only
    js.append(Job('hostile-peer-scenarios', 'h_tls03', ['--seed', seed, '--prop', 'C05', '--scenarios', 0, '--full-scenarios', 0, '--auth', 1],
                  libs=['-lcrypto'], timeout=1200))
    return js


def on_job_done(job, rc, out, err, res):
    if job.harness != 'fz_all':
        return False       # plain harness: default handling
    txt = err + '\n' + out
    m = re.search(r'FZ_CORPUS target=\S+ seeds=(\d+)', txt)
    if m:
        res.stat('seeds', int(m.group(1)))
    m = re.search(r'FZ_STATS target=(\S+) execs=(\d+) ok_results=(\d+) err_results=(\d+) max_steps_per_call=(\d+) '
                  r'max_steps_per_byte=([\d.]+) t0_steps=(\d+) c06_checks=(-?\d+)', txt)
    if m:
        res.stat('execs', int(m.group(2)))
        res.stat('results_ok', int(m.group(3)))
        res.stat('results_error', int(m.group(4)))
        res.max('max_steps_per_call', int(m.group(5)))
        res.max('max_steps_per_byte_x10', int(float(m.group(6)) * 10))
        res.stat('t0_steps', int(m.group(7)))
        res.stat('c06_checks', max(0, int(m.group(8))))
    m = re.search(r'hs_completed=(\d+)', txt)
    if m and job.tag in ('client_pre', 'server_pre'):
        res.stat('pre_target_handshakes_completed_' + job.tag.split('_')[0], int(m.group(1)))
    cov = re.findall(r'cov: (\d+) ft: (\d+) corp: (\d+)', txt)
    if cov:
        c, ft, corp = map(int, cov[-1])
        res.stat('coverage_edges', c)
        res.stat('coverage_features', ft)
        res.stat('corpus_units', corp)
        res.sample(dict(target=job.tag, runs=job.args[3], edges=c, features=ft, corpus=corp))
    mm = re.search(r'#(\d+)\s+MSAN_DONE', txt)
    if mm:
        res.stat('msan_units_replayed', int(mm.group(1)))
        res.stat('msan_targets_replayed', 1)
    if 'FZ_STALL_RETRIED' in txt:
        res.stat('fuzz_runs_repeated_after_machine_stall', 1)
    art = re.search(r'Test unit written to (\S+)', txt)
    case = 'target=%s artifact=%s (re-run: FZ_TARGET=%s build/fuzz/bin/fz_all <artifact>)' % (job.tag, art.group(1) if art else '-', job.tag)
    found = []
    for m in re.finditer(r'FZ_VIOL (\S+) (.*)', txt):
        found.append(('C05:%s:%s' % (job.tag, m.group(1)), m.group(2)[:300]))
    for key, what in classify_stderr('C05', txt):
        found.append((key, what))
    if re.search(r'ERROR: libFuzzer: out-of-memory', txt):
        found.append(('C05:%s:out-of-memory' % job.tag, 'libFuzzer rss limit exceeded'))
    for key, what in found:
        res.viol(key, what, case, job)
    if found:
        return True
    if re.search(r'ERROR: libFuzzer: timeout', txt):
        res.inconclusive.append('%s: libFuzzer per-input timeout (%s)' % (job.name, art.group(1) if art else '-'))
        return True
    if rc == 0 and re.search(r'Done \d+ runs|DONE', txt):
        res.stat('targets_completed', 1)
        res.jobs_ok += 1
        return True
    if rc != 0:
        res.inconclusive.append('%s: exit %s: %s' % (job.name, rc, txt.strip()[-300:]))
    return True


def distinct_count(res):
    return res.sums.get('coverage_features', 0)
